"""C08 support: (1) driving the 8 real primitive steps from seeded random inputs and dumping what they returned /
recorded in the shape of Model/StepsRT.v's [dump_run]; (2) exact-arithmetic (Fraction) real members with
computable steps (quadratics, |.|, boxes) used by the failing-input search."""
import importlib
import random
import warnings
from fractions import Fraction

from . import terms as T
from .classes import coq_pd, coq_ed, leaf_maps
from .common import coq_q, coq_nat, coq_list, coq_str, Q, to_fraction

# step name -> (signature kinds in call order, option literals)
#   P point, F function, S scalar, L list of points, O option
STEPS = {
    "proximal_step": ("PFS", []),
    "inexact_gradient_step": ("PFSSO", ["absolute", "relative"]),
    "exact_linesearch_step": ("PFL", []),
    "linear_optimization_step": ("PF", []),
    "bregman_gradient_step": ("PPFS", []),
    "bregman_proximal_step": ("PFFS", []),
    "epsilon_subgradient_step": ("PFS", []),
    "inexact_proximal_step": ("PFSO", ["PD_gapI", "PD_gapII", "PD_gapIII"]),
}
STEP_NAMES = sorted(STEPS)

LEAF_CLASSES = [("ConvexFunction", {}), ("ConvexFunction", {"reuse_gradient": True}),
                ("SmoothConvexFunction", {"L": 1.0}), ("SmoothStronglyConvexFunction", {"mu": 0.5, "L": 2.0}),
                ("ConvexIndicatorFunction", {"D": 2.0}), ("ConvexLipschitzFunction", {"M": 1.0}),
                ("StronglyConvexFunction", {"mu": 0.5})]


def step_fn(name):
    return getattr(importlib.import_module("PEPit.primitive_steps"), name)


# ----------------------------------------------------------------------------- random inputs
WEIGHTS = [1, 1, -1, 2, 0.5, -0.5, 3, 0.25, -2, 1.5]

# Magnitudes.  Step sizes, accuracies and coefficients are drawn from moderate dyadics AND from tiny / huge values:
# tiny dyadics 2^-30 .. 2^-60, decimals like 1e-9 (the float nearest to 1e-9 is a rational: it is given to the model
# exactly), huge dyadics 2^40.  A coefficient that silently disappears (or is rounded away) in what a step returns /
# records is then a concrete mismatch with the model, which computes in exact rationals.
TINY = [2.0 ** -30, 2.0 ** -40, 3 * 2.0 ** -45, 2.0 ** -60, -2.0 ** -35, 1e-9, 1e-10, 2.5e-9, 5e-12]
TINY_POW2 = [2.0 ** -30, 2.0 ** -40, 2.0 ** -60, -2.0 ** -35]
HUGE = [2.0 ** 40, 3 * 2.0 ** 38, -2.0 ** 41]
HUGE_POW2 = [2.0 ** 40, -2.0 ** 41]


class XF(float):
    """a float that checks that every arithmetic operation it takes part in is exact (the result, a float, equals
    the rational result).  Step sizes and weights are passed to PEPit as XF objects (XF is a float, so every
    isinstance test of PEPit accepts it); results of operations are XF again, so the check follows the coefficients
    through the dictionaries.  A case in which some operation rounded is not comparable with the exact model and is
    dropped (counted in the evidence)."""
    inexact = 0

    @staticmethod
    def _mk(val, exact):
        try:
            if Fraction(val) != exact:
                XF.inexact += 1
        except (OverflowError, ValueError):
            XF.inexact += 1
        return XF(val)

    def _f(self):
        return Fraction(float(self))

    def __add__(self, o):
        if not isinstance(o, (int, float)):
            return NotImplemented
        return XF._mk(float(self) + float(o), self._f() + Fraction(float(o)))
    __radd__ = __add__

    def __sub__(self, o):
        if not isinstance(o, (int, float)):
            return NotImplemented
        return XF._mk(float(self) - float(o), self._f() - Fraction(float(o)))

    def __rsub__(self, o):
        if not isinstance(o, (int, float)):
            return NotImplemented
        return XF._mk(float(o) - float(self), Fraction(float(o)) - self._f())

    def __mul__(self, o):
        if not isinstance(o, (int, float)):
            return NotImplemented
        return XF._mk(float(self) * float(o), self._f() * Fraction(float(o)))
    __rmul__ = __mul__

    def __truediv__(self, o):
        if not isinstance(o, (int, float)):
            return NotImplemented
        if float(o) == 0:
            raise ZeroDivisionError("float division by zero")
        return XF._mk(float(self) / float(o), self._f() / Fraction(float(o)))

    def __rtruediv__(self, o):
        if not isinstance(o, (int, float)):
            return NotImplemented
        if float(self) == 0:
            raise ZeroDivisionError("float division by zero")
        return XF._mk(float(o) / float(self), Fraction(float(o)) / self._f())

    def __neg__(self):
        return XF(-float(self))

    def __pos__(self):
        return self

    def __pow__(self, k):
        if not (isinstance(k, int) and k >= 0):
            XF.inexact += 1
            return XF(float(self) ** k)
        return XF._mk(float(self) ** k, self._f() ** k)


def xf(v):
    return XF(v)


def rand_scal(rng, power_of_two=False, allow_zero=True, wide=True):
    r = rng.random()
    if wide and r < 0.22:
        return rng.choice(TINY_POW2 if power_of_two else TINY)
    if wide and r < 0.30:
        return rng.choice(HUGE_POW2 if power_of_two else HUGE)
    if power_of_two:
        v = rng.choice([1, 2, 0.5, 4, 0.25, -1, -2, -0.5, 2.0, 1.0])
    else:
        v = rng.choice([1, 2, 0.5, 0.25, 3, 1.5, 0.75, -1, -0.5, 4, 0.125, 1.0, 2.0] + ([0, 0.0] if allow_zero else []))
    return v


def magnitude(v):
    a = abs(float(v))
    return "zero" if a == 0 else "tiny" if a < 1e-6 else "huge" if a > 1e6 else "moderate"


def combo(rng, leaves, maxterms=3, wide_p=0.15):
    """(spec, builder): spec is a replayable description [[leaf index, weight], ...] (+ flags)"""
    k = rng.randint(1, maxterms)
    if rng.random() < wide_p:
        # a badly scaled point (e.g. a direction g / L): every leaf at most once, so that no float addition mixes
        # magnitudes; one of the weights is tiny or huge
        idx = list(range(len(leaves)))
        rng.shuffle(idx)
        spec = [[i, rng.choice(WEIGHTS)] for i in idx[:k]]
        spec[rng.randrange(len(spec))][1] = rng.choice(TINY + HUGE)
    else:
        spec = [[rng.randrange(len(leaves)), rng.choice(WEIGHTS)] for _ in range(k)]
    zero_tail = rng.random() < 0.08      # unpruned zero entries:  (...) + 0 * leaf  is pruned by +, so scale last
    return dict(terms=spec, times_zero=zero_tail)


def build_point(spec, leaves):
    p = None
    for i, w in spec["terms"]:
        term = leaves[i] if w == 1 else xf(w) * leaves[i]
        p = term if p is None else p + term
    if spec.get("times_zero"):
        p = p * 0            # dictionary with explicit zeros (not pruned by a scalar product)
    return p


def gen_case(rng, step=None, opt="#none", composite=False):
    """a replayable description of one call (JSON-able)"""
    name = step or rng.choice(STEP_NAMES)
    kinds, lits = STEPS[name]
    nleaves = rng.randint(2, 4)
    nfun = rng.randint(1, 3)
    funs = []
    for _ in range(nfun):
        ci = rng.randrange(len(LEAF_CLASSES))
        hist = []
        for _ in range(rng.choice([0, 0, 1, 1, 2, 3])):
            r = rng.random()
            if r < 0.5:
                hist.append(dict(op="oracle", x=combo(rng, range(nleaves))))
            elif r < 0.8:
                hist.append(dict(op="add_point", x=combo(rng, range(nleaves)), g=combo(rng, range(nleaves)),
                                 fresh_g=rng.random() < 0.3))
            else:
                hist.append(dict(op="constraint", a=rng.randrange(nleaves), b=rng.randrange(nleaves),
                                 c=rng.choice([0, 1, 0.5, -2]), eq=rng.random() < 0.3))
        funs.append(dict(cls=ci, hist=hist))
    call = []
    nfargs = 0
    for k in kinds:
        if k == "P":
            r = rng.random()
            # with some probability, re-query a point the function was already evaluated on
            prior = [h["x"] for f in funs for h in f["hist"] if h["op"] in ("oracle", "add_point")]
            if r < 0.3 and prior:
                call.append(dict(kind="P", pt=rng.choice(prior)))
            elif r < 0.5:
                call.append(dict(kind="P", pt=dict(terms=[[rng.randrange(nleaves), 1]], times_zero=False)))
            else:
                # steps whose point arguments are gradients / directions: badly scaled ones (g / L) more often
                wp = 0.4 if name in ("linear_optimization_step", "bregman_gradient_step", "bregman_proximal_step") else 0.15
                call.append(dict(kind="P", pt=combo(rng, range(nleaves), wide_p=wp)))
        elif k == "F":
            fi = rng.randrange(nfun)
            call.append(dict(kind="F", f=fi))
            nfargs += 1
        elif k == "S":
            call.append(dict(kind="S", v=rand_scal(rng)))
        elif k == "L":
            call.append(dict(kind="L", pts=[combo(rng, range(nleaves), 2) for _ in range(rng.randint(1, 3))]))
        elif k == "O":
            if opt == "#none":
                o = rng.choice(lits + lits + ["#default", "bogus"])
            else:
                o = opt
            call.append(dict(kind="O", v=o))
    case = dict(step=name, nleaves=nleaves, funs=funs, call=call)
    if name == "inexact_proximal_step":
        o = [c for c in call if c["kind"] == "O"][0]["v"]
        if o == "PD_gapIII":
            for c in call:
                if c["kind"] == "S":
                    # division by gamma: power of two keeps float arithmetic exact; sometimes 0 (ZeroDivisionError)
                    c["v"] = 0 if rng.random() < 0.1 else rand_scal(rng, power_of_two=True)
    if name == "inexact_gradient_step":
        o = [c for c in call if c["kind"] == "O"][0]["v"]
        sc = [c for c in call if c["kind"] == "S"]
        if o == "relative" and magnitude(sc[1]["v"]) == "tiny":
            # epsilon^2 |g|^2 is subtracted from |g - d|^2 on the same keys: 1 - eps^2 is not a float for a tiny eps
            sc[1]["v"] = rng.choice([2.0 ** -10, 2.0 ** -20, 0.5, 3])
    return case


# ----------------------------------------------------------------------------- implementation side
class Ctx(object):
    pass


def setup_case(case):
    """fresh PEP, leaves, leaf functions with their history.  Returns a context"""
    from PEPit import PEP, Point, Expression
    import PEPit.functions as PF
    pep = PEP()
    c = Ctx()
    c.pep = pep
    c.leaves = [Point() for _ in range(case["nleaves"])]
    c.funs = []
    for fd in case["funs"]:
        cname, kw = LEAF_CLASSES[fd["cls"]]
        f = pep.declare_function(getattr(PF, cname), **kw)
        for h in fd["hist"]:
            if h["op"] == "oracle":
                f.oracle(build_point(h["x"], c.leaves))
            elif h["op"] == "add_point":
                g = Point() if h["fresh_g"] else build_point(h["g"], c.leaves)
                f.add_point((build_point(h["x"], c.leaves), g, Expression()))
            else:
                e = c.leaves[h["a"]] * c.leaves[h["b"]] - h["c"]
                with warnings.catch_warnings():
                    warnings.simplefilter("ignore")
                    f.add_constraint((e == 0) if h["eq"] else (e <= 0))
        c.funs.append(f)
    return c


def call_args(case, c):
    """python arguments of the call, plus the model-side view: points, function ids, scalars, directions, option"""
    args, kwargs = [], {}
    pts, fids, scs, dirs, opt = [], [], [], [], ""
    for a in case["call"]:
        if a["kind"] == "P":
            p = build_point(a["pt"], c.leaves)
            args.append(p)
            pts.append(p)
        elif a["kind"] == "F":
            args.append(c.funs[a["f"]])
            fids.append(a["f"])
        elif a["kind"] == "S":
            args.append(xf(a["v"]) if isinstance(a["v"], float) else a["v"])
            scs.append(a["v"])
        elif a["kind"] == "L":
            ds = [build_point(p, c.leaves) for p in a["pts"]]
            args.append(ds)
            dirs = ds
        else:
            if a["v"] != "#default":
                args.append(a["v"])
            opt = a["v"]
    return args, pts, fids, scs, dirs, opt


def dump_frec(f, pid, xid):
    return [bool(f.reuse_gradient),
            [[T.dump_pdict(x.decomposition_dict, pid), T.dump_pdict(g.decomposition_dict, pid),
              T.dump_edict(v.decomposition_dict, pid, xid)] for (x, g, v) in f.list_of_points],
            [T.dump_constraint(k, pid, xid) for k in f.list_of_constraints]]


def coq_frec(d):
    return "mkFrec %s %s %s" % (
        "true" if d[0] else "false",
        coq_list(["(%s, %s, %s)" % (coq_pd(s[0]), coq_pd(s[1]), coq_ed(s[2])) for s in d[1]]),
        coq_list(["(%s, %s)" % (coq_ed(k[0]), "Equ" if k[1] else "Ineq") for k in d[2]]))


def run_impl(case):
    """run the real step.  Returns (coq input literal, expected dump, info) """
    from PEPit import Point, Expression
    XF.inexact = 0
    c = setup_case(case)
    args, pts, fids, scs, dirs, opt = call_args(case, c)
    pid, xid = leaf_maps()
    pre = [dump_frec(f, pid, xid) for f in c.funs]
    pre_pts = [T.dump_pdict(p.decomposition_dict, pid) for p in pts]
    pre_dirs = [T.dump_pdict(p.decomposition_dict, pid) for p in dirs]
    pc, xc = Point.counter, Expression.counter
    n_stat = [len(f.list_of_stationary_points) for f in c.funs]
    n_pts = [len(f.list_of_points) for f in c.funs]
    name = case["step"]
    optlit = ("default_%s" % name) if opt == "#default" else coq_str(opt)
    lit = "mkCase (step_program %s %s) (mk_args %s %s %s %s) (mk_state %s %s %s) %s %s" % (
        coq_str(name), optlit,
        coq_list([coq_pd(p) for p in pre_pts]), coq_list([coq_nat(k) for k in fids]),
        coq_list([coq_q(s) for s in scs]), coq_list([coq_pd(p) for p in pre_dirs]),
        coq_nat(pc), coq_nat(xc), coq_list([coq_frec(d) for d in pre]), coq_nat(len(c.funs)), coq_nat(len(pts)))
    err = None
    ret = None
    dirs_given = list(dirs)
    try:
        with warnings.catch_warnings():
            warnings.simplefilter("ignore")
            ret = step_fn(name)(*args)
    except (ValueError, ZeroDivisionError) as e:
        err = type(e).__name__
    pid, xid = leaf_maps()
    if err is not None:
        res = ["err", err]
    elif ret is None:
        res = ["none"]
    else:
        items = []
        for o in (ret if isinstance(ret, tuple) else (ret,)):
            if type(o).__name__ == "Point":
                items.append(["P", T.dump_pdict(o.decomposition_dict, pid)])
            else:
                items.append(["X", T.dump_edict(o.decomposition_dict, pid, xid)])
        res = ["ok", items]
    post = [dump_frec(f, pid, xid) for f in c.funs]
    dump = [res, [T.dump_pdict(p.decomposition_dict, pid) for p in pts], Point.counter, Expression.counter, post]
    # list_of_stationary_points is not modelled: it must stay the sub-list of samples with an empty gradient
    stat_ok = True
    for f, ns, npt in zip(c.funs, n_stat, n_pts):
        new_stat = f.list_of_stationary_points[ns:]
        want = [t for t in f.list_of_points[npt:] if t[1].decomposition_dict == dict()]
        if len(new_stat) != len(want) or any(a is not b for a, b in zip(new_stat, want)):
            stat_ok = False
    mags = sorted(set(magnitude(v) for v in scs) |
                  set(magnitude(w) for a in case["call"] if a["kind"] in ("P", "L")
                      for sp in ([a["pt"]] if a["kind"] == "P" else a["pts"]) for _, w in sp["terms"]))
    info = dict(dirs_ok=(len(dirs) == len(dirs_given) and all(a is b for a, b in zip(dirs, dirs_given))),
                exact=(XF.inexact == 0), magnitudes=mags, result_kind=res[0], error=err, stat_ok=stat_ok, ctx=c, ret=ret, pts=pts, dirs=dirs, fids=fids,
                scs=scs, opt=opt, n_pts=n_pts, n_cons=[len(d[2]) for d in pre], pc=pc, xc=xc)
    return lit, dump, info


# ----------------------------------------------------------------------------- composite functions (Model/StepsFunc.v)
# The real steps applied to sums / scaled sums of leaf functions: F = w1*f1 + w2*f2 (+ w3*f3), possibly nested
# (G = f3 + 2*F).  The expected dump has the shape of Model/StepsFunc.v [dump_run]: result, point arguments after
# the call, counters, and for EVERY function (leaf or composite) its Model/Func.v record (is_leaf, reuse_gradient,
# weights over function ids, list_of_points, list_of_stationary_points) and its list_of_constraints.
COMP_WEIGHTS = [1, 1, 2, 2.0, 0.5, -1, 4, 0.25, -2, -0.5, 3, 1.5, 2.0 ** -20, 2.0 ** 12]


def _comp_weights(terms, nleaf, comps):
    """weights over leaf indices of  w1*t1 + w2*t2 + ...  (exact), or None when some weight cancels to zero"""
    acc = {}
    for i, w in terms:
        sub = {i: Fraction(1)} if i < nleaf else comps[i - nleaf]["w"]
        for k, v in sub.items():
            acc[k] = acc.get(k, Fraction(0)) + to_fraction(w) * v
    if not acc or any(v == 0 for v in acc.values()):
        return None
    return acc


def gen_comp_case(rng, step=None, opt="#none"):
    """a replayable description of one world with composite functions and 1-2 step calls (JSON-able)"""
    nleaves = rng.randint(2, 4)
    nleaf = rng.randint(2, 3)
    funs = [dict(cls=rng.randrange(len(LEAF_CLASSES))) for _ in range(nleaf)]
    comps = []
    for c in range(rng.randint(1, 2)):
        while True:
            k = rng.choice([1, 2, 2, 2, 3, 3])
            idx = rng.sample(range(nleaf), min(k, nleaf))
            terms = [[i, rng.choice(COMP_WEIGHTS)] for i in idx]
            if comps and rng.random() < 0.35:
                terms.insert(rng.randrange(len(terms) + 1), [nleaf + rng.randrange(len(comps)), rng.choice([1, 2, 0.5, -1])])
            if len(terms) == 1 and terms[0][1] == 1:
                terms[0][1] = 2            # a bare alias  F = f  is not a composite
            w = _comp_weights(terms, nleaf, comps)
            if w is not None:
                break
        comps.append(dict(terms=terms, w=w))
    nfun = nleaf + len(comps)
    hist = []
    for _ in range(rng.choice([0, 0, 1, 1, 2, 3])):
        r = rng.random()
        f = rng.randrange(nfun)
        if r < 0.45:
            hist.append(dict(op="oracle", f=f, x=combo(rng, range(nleaves), wide_p=0.05)))
        elif r < 0.6:
            hist.append(dict(op="value", f=f, x=combo(rng, range(nleaves), wide_p=0.05)))
        elif r < 0.8:
            hist.append(dict(op="add_point", f=f, x=combo(rng, range(nleaves), wide_p=0.05),
                             g=combo(rng, range(nleaves), wide_p=0.05), fresh_g=rng.random() < 0.4))
        elif r < 0.9:
            hist.append(dict(op="stationary", f=f))
        else:
            hist.append(dict(op="constraint", f=f, a=rng.randrange(nleaves), b=rng.randrange(nleaves),
                             c=rng.choice([0, 1, 0.5, -2]), eq=rng.random() < 0.3))
    prior = [h["x"] for h in hist if h["op"] in ("oracle", "value", "add_point")]
    calls = []
    for ci in range(1 if rng.random() < 0.6 else 2):
        name = (step if (step and ci == 0) else rng.choice(STEP_NAMES))
        kinds, lits = STEPS[name]
        call = []
        for k in kinds:
            if k == "P":
                r = rng.random()
                if ci == 1 and r < 0.45:
                    call.append(dict(kind="P", ret=rng.randrange(3)))     # a Point returned by the first call
                elif r < 0.6 and prior:
                    call.append(dict(kind="P", pt=rng.choice(prior)))    # a point some function was evaluated on
                elif r < 0.75:
                    call.append(dict(kind="P", pt=dict(terms=[[rng.randrange(nleaves), 1]], times_zero=False)))
                else:
                    call.append(dict(kind="P", pt=combo(rng, range(nleaves), wide_p=0.1)))
            elif k == "F":
                call.append(dict(kind="F", f=(nleaf + rng.randrange(len(comps))) if rng.random() < 0.75
                                 else rng.randrange(nleaf)))
            elif k == "S":
                call.append(dict(kind="S", v=rand_scal(rng, wide=rng.random() < 0.3)))
            elif k == "L":
                call.append(dict(kind="L", pts=[combo(rng, range(nleaves), 2) for _ in range(rng.randint(1, 3))]))
            elif k == "O":
                call.append(dict(kind="O", v=(rng.choice(lits + lits + ["#default", "bogus"])
                                              if (opt == "#none" or ci > 0) else opt)))
        o = [c["v"] for c in call if c["kind"] == "O"]
        if name == "inexact_proximal_step" and o[0] == "PD_gapIII":
            for c in call:
                if c["kind"] == "S":
                    c["v"] = 0 if rng.random() < 0.1 else rand_scal(rng, power_of_two=True, wide=False)
        if name == "inexact_gradient_step" and o[0] == "relative":
            sc = [c for c in call if c["kind"] == "S"]
            if magnitude(sc[1]["v"]) == "tiny":
                sc[1]["v"] = rng.choice([2.0 ** -10, 0.5, 3])
        calls.append(dict(step=name, call=call))
    return dict(nleaves=nleaves, funs=funs, comps=[c["terms"] for c in comps], hist=hist, calls=calls)


def setup_comp_case(case):
    from PEPit import PEP, Point, Expression
    import PEPit.functions as PF
    pep = PEP()
    c = Ctx()
    c.pep = pep
    c.leaves = [Point() for _ in range(case["nleaves"])]
    c.funs = []
    for fd in case["funs"]:
        cname, kw = LEAF_CLASSES[fd["cls"]]
        c.funs.append(pep.declare_function(getattr(PF, cname), **kw))
    for terms in case["comps"]:
        F = None
        for i, w in terms:
            t = c.funs[i] if w == 1 else xf(w) * c.funs[i]
            F = t if F is None else F + t
        c.funs.append(F)
    for h in case["hist"]:
        f = c.funs[h["f"]]
        if h["op"] == "oracle":
            f.oracle(build_point(h["x"], c.leaves))
        elif h["op"] == "value":
            f.value(build_point(h["x"], c.leaves))
        elif h["op"] == "add_point":
            g = Point() if h["fresh_g"] else build_point(h["g"], c.leaves)
            f.add_point((build_point(h["x"], c.leaves), g, Expression()))
        elif h["op"] == "stationary":
            f.stationary_point()
        else:
            e = c.leaves[h["a"]] * c.leaves[h["b"]] - h["c"]
            with warnings.catch_warnings():
                warnings.simplefilter("ignore")
                f.add_constraint((e == 0) if h["eq"] else (e <= 0))
    return c


def dump_func(f, fmap, pid, xid):
    smp = lambda t: [T.dump_pdict(t[0].decomposition_dict, pid), T.dump_pdict(t[1].decomposition_dict, pid),
                     T.dump_edict(t[2].decomposition_dict, pid, xid)]
    return [[bool(f._is_leaf), bool(f.reuse_gradient), [[fmap[k], Q(v)] for k, v in f.decomposition_dict.items()],
             [smp(t) for t in f.list_of_points], [smp(t) for t in f.list_of_stationary_points]],
            [T.dump_constraint(k, pid, xid) for k in f.list_of_constraints]]


def coq_func(d):
    cs = lambda l: coq_list(["(%s, %s, %s)" % (coq_pd(t[0]), coq_pd(t[1]), coq_ed(t[2])) for t in l])
    r = d[0]
    return "Func.mkF %s %s %s %s %s" % ("true" if r[0] else "false", "true" if r[1] else "false", coq_pd(r[2]),
                                         cs(r[3]), cs(r[4]))


def run_impl_comp(case):
    """run the real steps of one world.  Returns a list of (coq input literal, expected dump, info), one per call
    (calls made after a float operation rounded are not returned: not comparable with the exact model)"""
    from PEPit import Point, Expression
    XF.inexact = 0
    c = setup_comp_case(case)
    fmap = T.IdMap(c.funs)
    out = []
    last_ret = None
    for call in case["calls"]:
        name = call["step"]
        args, pts, fids, scs, dirs, opt = [], [], [], [], [], ""
        for a in call["call"]:
            if a["kind"] == "P":
                p = None
                if "ret" in a:
                    rp = [o for o in (last_ret or ()) if type(o).__name__ == "Point"]
                    p = rp[a["ret"] % len(rp)] if rp else c.leaves[0]
                else:
                    p = build_point(a["pt"], c.leaves)
                args.append(p)
                pts.append(p)
            elif a["kind"] == "F":
                args.append(c.funs[a["f"]])
                fids.append(a["f"])
            elif a["kind"] == "S":
                args.append(xf(a["v"]) if isinstance(a["v"], float) else a["v"])
                scs.append(a["v"])
            elif a["kind"] == "L":
                dirs = [build_point(p, c.leaves) for p in a["pts"]]
                args.append(dirs)
            else:
                if a["v"] != "#default":
                    args.append(a["v"])
                opt = a["v"]
        if XF.inexact:
            break
        pid, xid = leaf_maps()
        pre = [dump_func(f, fmap, pid, xid) for f in c.funs]
        pre_pts = [T.dump_pdict(p.decomposition_dict, pid) for p in pts]
        pre_dirs = [T.dump_pdict(p.decomposition_dict, pid) for p in dirs]
        pc, xc = Point.counter, Expression.counter
        optlit = ("default_%s" % name) if opt == "#default" else coq_str(opt)
        clog = ["(%s, (%s, %s))" % (coq_nat(i), coq_ed(k[0]), "Equ" if k[1] else "Ineq")
                for i, d in enumerate(pre) for k in d[1]]
        lit = "mkFCase (step_program %s %s) (mk_args %s %s %s %s) (Func.mkS %s %s %s) %s %s %s" % (
            coq_str(name), optlit,
            coq_list([coq_pd(p) for p in pre_pts]), coq_list([coq_nat(k) for k in fids]),
            coq_list([coq_q(s) for s in scs]), coq_list([coq_pd(p) for p in pre_dirs]),
            coq_nat(pc), coq_nat(xc), coq_list([coq_func(d) for d in pre]), coq_list(clog),
            coq_nat(len(c.funs)), coq_nat(len(pts)))
        err, ret = None, None
        try:
            with warnings.catch_warnings():
                warnings.simplefilter("ignore")
                ret = step_fn(name)(*args)
        except (ValueError, ZeroDivisionError) as e:
            err = type(e).__name__
        if XF.inexact:
            break
        pid, xid = leaf_maps()
        if err is not None:
            res = ["err", err]
        elif ret is None:
            res = ["none"]
        else:
            items = []
            for o in (ret if isinstance(ret, tuple) else (ret,)):
                if type(o).__name__ == "Point":
                    items.append(["P", T.dump_pdict(o.decomposition_dict, pid)])
                else:
                    items.append(["X", T.dump_edict(o.decomposition_dict, pid, xid)])
            res = ["ok", items]
        post = [dump_func(f, fmap, pid, xid) for f in c.funs]
        dump = [res, [T.dump_pdict(p.decomposition_dict, pid) for p in pts], Point.counter, Expression.counter, post]
        farg_comp = [not c.funs[k]._is_leaf for k in fids]
        terms_before = any(len(pre[fmap[t]][0][3]) > 0 for k in fids if not c.funs[k]._is_leaf
                           for t in c.funs[k].decomposition_dict)
        new_on_terms = sum(len(post[i][0][3]) - len(pre[i][0][3]) for i in range(len(c.funs)) if c.funs[i]._is_leaf)
        new_on_comps = sum(len(post[i][0][3]) - len(pre[i][0][3]) for i in range(len(c.funs)) if not c.funs[i]._is_leaf)
        info = dict(step=name, opt=opt, result_kind=res[0], error=err, composite_args=farg_comp,
                    nterms=[len(c.funs[k].decomposition_dict) for k in fids if not c.funs[k]._is_leaf],
                    terms_before=terms_before, new_on_terms=new_on_terms, new_on_comps=new_on_comps,
                    second=(call is not case["calls"][0]), from_return=any("ret" in a for a in call["call"]),
                    classes=sorted(set(LEAF_CLASSES[case["funs"][fmap[t]]["cls"]][0] for k in fids
                                       for t in c.funs[k].decomposition_dict)))
        out.append((lit, dump, info))
        last_ret = ret if isinstance(ret, tuple) else ((ret,) if ret is not None else None)
    return out


# ----------------------------------------------------------------------------- exact real members
def vec(*a):
    return [Fraction(x) for x in a]


def vadd(u, v):
    return [a + b for a, b in zip(u, v)]


def vsub(u, v):
    return [a - b for a, b in zip(u, v)]


def vscal(c, u):
    return [c * a for a in u]


def dot(u, v):
    return sum((a * b for a, b in zip(u, v)), Fraction(0))


def solve_linear(A, b):
    """Gaussian elimination over Fractions (A square, non-singular)"""
    n = len(A)
    M = [list(map(Fraction, A[i])) + [Fraction(b[i])] for i in range(n)]
    for col in range(n):
        piv = next(r for r in range(col, n) if M[r][col] != 0)
        M[col], M[piv] = M[piv], M[col]
        pv = M[col][col]
        M[col] = [x / pv for x in M[col]]
        for r in range(n):
            if r != col and M[r][col] != 0:
                fac = M[r][col]
                M[r] = [x - fac * y for x, y in zip(M[r], M[col])]
    return [M[i][n] for i in range(n)]


class Quadratic(object):
    """F(x) = 1/2 x'Ax + b'x + c,  A symmetric positive semidefinite (convex, differentiable)"""
    differentiable = True

    def __init__(self, A, b, c=0):
        self.A = [[Fraction(x) for x in row] for row in A]
        self.b = [Fraction(x) for x in b]
        self.c = Fraction(c)
        self.dim = len(b)

    def matvec(self, x):
        return [dot(row, x) for row in self.A]

    def val(self, x):
        return dot(x, self.matvec(x)) / 2 + dot(self.b, x) + self.c

    def grad(self, x):
        return vadd(self.matvec(x), self.b)

    def in_dom(self, x):
        return True

    def is_subgrad(self, x, g, tests):
        return g == self.grad(x)

    def prox(self, gamma, x0):
        n = self.dim
        M = [[(1 if i == j else 0) + gamma * self.A[i][j] for j in range(n)] for i in range(n)]
        return solve_linear(M, vsub(x0, vscal(gamma, self.b)))

    def linesearch(self, x0, dirs):
        """argmin over x0 + span(dirs); dirs are made independent first; None if unbounded / not unique"""
        basis = independent(dirs)
        if not basis:
            return list(x0)
        k = len(basis)
        g0 = self.grad(x0)
        G = [[dot(basis[i], self.matvec(basis[j])) for j in range(k)] for i in range(k)]
        rhs = [-dot(basis[i], g0) for i in range(k)]
        try:
            t = solve_linear(G, rhs)
        except StopIteration:
            return None
        x = list(x0)
        for ti, d in zip(t, basis):
            x = vadd(x, vscal(ti, d))
        return x


def independent(dirs):
    basis, red = [], []
    for d in dirs:
        r = list(d)
        for (b, lead) in red:
            if r[lead] != 0:
                r = vsub(r, vscal(r[lead] / b[lead], b))
        lead = next((i for i, x in enumerate(r) if x != 0), None)
        if lead is not None:
            red.append((r, lead))
            basis.append(list(d))
    return basis


class AbsSum(object):
    """F(x) = w * sum |x_i|   (convex, not differentiable)"""
    differentiable = False

    def __init__(self, w, dim):
        self.w = Fraction(w)
        self.dim = dim

    def val(self, x):
        return self.w * sum((abs(a) for a in x), Fraction(0))

    def in_dom(self, x):
        return True

    def is_subgrad(self, x, g, tests):
        for xi, gi in zip(x, g):
            if xi > 0 and gi != self.w:
                return False
            if xi < 0 and gi != -self.w:
                return False
            if xi == 0 and abs(gi) > self.w:
                return False
        return True

    def prox(self, gamma, x0):
        t = gamma * self.w
        return [a - t if a > t else a + t if a < -t else Fraction(0) for a in x0]

    def some_subgrad(self, x):
        return [self.w if a > 0 else -self.w if a < 0 else Fraction(0) for a in x]


class Box(object):
    """indicator of the box [lo, hi]^dim"""
    differentiable = False

    def __init__(self, lo, hi, dim):
        self.lo, self.hi, self.dim = Fraction(lo), Fraction(hi), dim

    def in_dom(self, x):
        return all(self.lo <= a <= self.hi for a in x)

    def val(self, x):
        return Fraction(0)

    def is_subgrad(self, x, g, tests):
        """g in the normal cone at x"""
        if not self.in_dom(x):
            return False
        for xi, gi in zip(x, g):
            if self.lo < xi < self.hi and gi != 0:
                return False
            if xi == self.lo and xi != self.hi and gi > 0:
                return False
            if xi == self.hi and xi != self.lo and gi < 0:
                return False
        return True

    def prox(self, gamma, x0):
        return [min(max(a, self.lo), self.hi) for a in x0]

    def linopt(self, direction):
        """a minimiser of <direction, x> over the box"""
        return [self.lo if d > 0 else self.hi if d < 0 else (self.lo + self.hi) / 2 for d in direction]


def grid(dim, rng, n=12):
    pts = [[Fraction(0)] * dim]
    for _ in range(n):
        pts.append([Fraction(rng.randint(-6, 6), rng.choice([1, 2, 3])) for _ in range(dim)])
    return pts


def subgradient_inequality(F, x, g, fx, tests):
    """the first test point y (in dom F) with F(y) < fx + <g, y - x>, or None; first-principles check"""
    for y in tests:
        if F.in_dom(y) and F.val(y) < fx + dot(g, vsub(y, x)):
            return y
    return None


def rand_quadratic(rng, dim, strictly=False):
    if dim == 1:
        a = Fraction(rng.choice([0, 1, 2, 1, 3]) if not strictly else rng.choice([1, 2, 3]), rng.choice([1, 2]))
        A = [[a]]
    else:
        # A = M'M (+ I when strict convexity is wanted)
        M = [[Fraction(rng.randint(-2, 2), rng.choice([1, 2])) for _ in range(dim)] for _ in range(dim)]
        A = [[sum(M[k][i] * M[k][j] for k in range(dim)) + (1 if (strictly and i == j) else 0) for j in range(dim)]
             for i in range(dim)]
    b = [Fraction(rng.randint(-3, 3), rng.choice([1, 2])) for _ in range(dim)]
    return Quadratic(A, b, Fraction(rng.randint(-2, 2)))


# ----------------------------------------------------------------------------- semantic check on the implementation
class Valuation(object):
    """values of leaf points (vectors of Fractions) and leaf expressions (Fractions), keyed by object identity"""

    def __init__(self, dim):
        self.dim = dim
        self.p, self.x = {}, {}

    def known_p(self, leaf):
        return id(leaf) in self.p

    def set_p(self, leaf, v):
        self.p[id(leaf)] = [Fraction(a) for a in v]

    def set_x(self, leaf, v):
        self.x[id(leaf)] = Fraction(v)

    def unknown_points(self, pt):
        return [k for k, c in pt.decomposition_dict.items() if id(k) not in self.p and to_fraction(c) != 0]

    def unknown_exprs(self, e):
        out = []
        for k, c in e.decomposition_dict.items():
            if type(k).__name__ == "Expression" and id(k) not in self.x and to_fraction(c) != 0:
                out.append(k)
        return out

    def point(self, pt):
        acc = [Fraction(0)] * self.dim
        for k, c in pt.decomposition_dict.items():
            c = to_fraction(c)
            if c != 0:
                acc = vadd(acc, vscal(c, self.p[id(k)]))
        return acc

    def expr(self, e):
        acc = Fraction(0)
        for k, c in e.decomposition_dict.items():
            c = to_fraction(c)
            if c == 0:
                continue
            if isinstance(k, tuple):
                acc += c * dot(self.p[id(k[0])], self.p[id(k[1])])
            elif type(k).__name__ == "Expression":
                acc += c * self.x[id(k)]
            else:
                acc += c
        return acc

    def expr_ready(self, e):
        for k, c in e.decomposition_dict.items():
            if to_fraction(c) == 0:
                continue
            if isinstance(k, tuple):
                if id(k[0]) not in self.p or id(k[1]) not in self.p:
                    return False
            elif type(k).__name__ == "Expression" and id(k) not in self.x:
                return False
        return True

    def solve_point(self, pt, target):
        """give a value to the single unknown leaf of pt so that pt evaluates to target"""
        unk = self.unknown_points(pt)
        if len(unk) != 1:
            return False
        leaf = unk[0]
        c = to_fraction(pt.decomposition_dict[leaf])
        rest = [Fraction(0)] * self.dim
        for k, ck in pt.decomposition_dict.items():
            ck = to_fraction(ck)
            if k is not leaf and ck != 0:
                rest = vadd(rest, vscal(ck, self.p[id(k)]))
        self.set_p(leaf, vscal(1 / c, vsub(target, rest)))
        return True

    def solve_expr(self, e, target):
        unk = self.unknown_exprs(e)
        if len(unk) != 1 or not all(id(k[0]) in self.p and id(k[1]) in self.p
                                    for k in e.decomposition_dict if isinstance(k, tuple)):
            return False
        leaf = unk[0]
        c = to_fraction(e.decomposition_dict[leaf])
        self.set_x(leaf, 0)
        rest = self.expr(e)
        self.set_x(leaf, (Fraction(target) - rest) / c)
        return True


class Combo(object):
    """real composite member  sum_i w_i F_i  of differentiable members"""
    differentiable = True

    def __init__(self, parts):
        self.parts = parts
        self.dim = parts[0][1].dim

    def val(self, x):
        return sum((w * F.val(x) for w, F in self.parts), Fraction(0))

    def grad(self, x):
        g = [Fraction(0)] * self.dim
        for w, F in self.parts:
            g = vadd(g, vscal(w, F.grad(x)))
        return g

    def in_dom(self, x):
        return True

    def is_subgrad(self, x, g, tests):
        return g == self.grad(x)

    def as_quadratic(self):
        n = self.dim
        A = [[sum(w * F.A[i][j] for w, F in self.parts) for j in range(n)] for i in range(n)]
        b = [sum(w * F.b[i] for w, F in self.parts) for i in range(n)]
        return Quadratic(A, b, sum(w * F.c for w, F in self.parts))


def propagate_samples(val, members, start):
    """value the leaves created by oracle calls: for a differentiable member, the gradient / value leaf of a new
    sample whose point is already valued is the real gradient / value there.  members: [(pepit function, real member)]"""
    progress = True
    while progress:
        progress = False
        for f, F in members:
            for (x, g, v) in f.list_of_points[start[id(f)]:]:
                if val.unknown_points(x):
                    continue
                xv = val.point(x)
                if getattr(F, "differentiable", False) and len(val.unknown_points(g)) == 1:
                    progress |= val.solve_point(g, F.grad(xv))
                if len(val.unknown_exprs(v)) == 1 and F.in_dom(xv):
                    progress |= val.solve_expr(v, F.val(xv))


def check_records(val, members, start, cstart, tests):
    """first-principles check of everything the step recorded; returns a description of the first failure"""
    for f, F in members:
        for idx, (x, g, v) in enumerate(f.list_of_points[start[id(f)]:]):
            if val.unknown_points(x) or val.unknown_points(g) or not val.expr_ready(v):
                return dict(kind="recorded-sample-has-an-unvalued-leaf", function=f.get_name(), sample=idx)
            xv, gv, fv = val.point(x), val.point(g), val.expr(v)
            if not F.in_dom(xv):
                return dict(kind="recorded-point-outside-domain", function=f.get_name(), x=xv)
            if fv != F.val(xv):
                return dict(kind="recorded-value-is-not-the-function-value", function=f.get_name(), x=xv,
                            recorded=fv, real=F.val(xv))
            bad = subgradient_inequality(F, xv, gv, fv, tests + [xv])
            if bad is not None:
                return dict(kind="recorded-gradient-is-not-a-subgradient", function=f.get_name(), x=xv, g=gv,
                            violating_point=bad)
            if not F.is_subgrad(xv, gv, tests):
                return dict(kind="recorded-gradient-is-not-a-subgradient", function=f.get_name(), x=xv, g=gv)
        for idx, c in enumerate(f.list_of_constraints[cstart[id(f)]:]):
            if not val.expr_ready(c.expression):
                return dict(kind="recorded-constraint-has-an-unvalued-leaf", function=f.get_name(), constraint=idx)
            cv = val.expr(c.expression)
            ok = (cv == 0) if c.equality_or_inequality == "equality" else (cv <= 0)
            if not ok:
                return dict(kind="recorded-constraint-false-on-a-real-execution", function=f.get_name(),
                            constraint=c.get_name(), value=cv, sense=c.equality_or_inequality)
    return None


def constraints_hold(val, fns, cstart):
    for f in fns:
        for c in f.list_of_constraints[cstart[id(f)]:]:
            cv = val.expr(c.expression)
            if not ((cv == 0) if c.equality_or_inequality == "equality" else (cv <= 0)):
                return False
    return True


# ----------------------------------------------------------------------------- real executions, step by step
def _dy(rng, lo=-4, hi=4, dens=(1, 2, 4)):
    return Fraction(rng.randint(lo, hi), rng.choice(dens))


def _members(rng, dim, kind, composite):
    """-> (pepit function, real member, [(pepit fn, real member)] to check)"""
    from PEPit import PEP
    import PEPit.functions as PF
    pep = _members.pep
    if kind == "smooth":
        if composite:
            f1 = pep.declare_function(PF.SmoothStronglyConvexFunction, mu=0.125, L=64.)
            f2 = pep.declare_function(PF.SmoothStronglyConvexFunction, mu=0.125, L=64.)
            q1, q2 = rand_quadratic(rng, dim, True), rand_quadratic(rng, dim, True)
            a, b = rng.choice([1, 2, 0.5]), rng.choice([1, 0.5, 4, 2])     # powers of two: the division by the last weight is exact
            if rng.random() < 0.5:
                f = a * f1 + b * f2
            else:
                f = f1 * a + f2 * b
            F = Combo([(Fraction(a), q1), (Fraction(b), q2)])
            return f, F, [(f, F), (f1, q1), (f2, q2)]
        f = pep.declare_function(PF.SmoothStronglyConvexFunction, mu=0.125, L=64.)
        q = rand_quadratic(rng, dim, True)
        return f, q, [(f, q)]
    if kind == "abs":
        f = pep.declare_function(PF.ConvexFunction)
        F = AbsSum(rng.choice([1, 2, Fraction(1, 2)]), dim)
        return f, F, [(f, F)]
    f = pep.declare_function(PF.ConvexIndicatorFunction, D=8.)
    F = Box(rng.choice([-1, -2, 0]), rng.choice([1, 2, 3]), dim)
    return f, F, [(f, F)]


def _quad_of(F):
    return F.as_quadratic() if isinstance(F, Combo) else F


def semantic_trial(desc):
    """see _semantic_trial; a trial in which some float operation rounded decides nothing"""
    r = _semantic_trial(desc)
    return None if (r is not None and XF.inexact) else r


def _semantic_trial(desc):
    """run one real execution described by desc = {step, opt, seed, composite}; None if everything recorded is
    satisfied (and tight where a tightness test exists), else a description of the failure"""
    from PEPit import PEP, Point, Expression
    rng = random.Random(desc["seed"])
    name, opt, composite = desc["step"], desc.get("opt"), bool(desc.get("composite"))
    dim = rng.choice([1, 2, 2])
    pep = PEP()
    _members.pep = pep
    val = Valuation(dim)
    leaves = [Point() for _ in range(3)]
    for lf in leaves:
        val.set_p(lf, [_dy(rng) for _ in range(dim)])

    def pt():
        return build_point(combo(rng, leaves, 2), leaves) if rng.random() < 0.7 else leaves[rng.randrange(3)]

    tests = grid(dim, rng)
    gamma = rng.choice([Fraction(1, 2), Fraction(1), Fraction(2), Fraction(1, 4),
                        Fraction(1, 2 ** 30), Fraction(1e-9), Fraction(3, 2 ** 42), Fraction(2 ** 20)])
    if desc.get("gamma") is not None:
        gamma = Fraction(desc["gamma"])

    def fl(v):
        return XF(float(v))
    XF.inexact = 0
    members = []
    step = step_fn(name)

    def snapshot():
        return ({id(f): len(f.list_of_points) for f, _ in members},
                {id(f): len(f.list_of_constraints) for f, _ in members})

    def finish(extra=None):
        if XF.inexact:
            return None          # a float operation rounded: the exact comparison below would be meaningless
        propagate_samples(val, members, start)
        bad = check_records(val, members, start, cstart, tests)
        if bad:
            return bad
        return extra

    with warnings.catch_warnings():
        warnings.simplefilter("ignore")
        if name == "proximal_step":
            kind = "smooth" if composite else rng.choice(["smooth", "abs", "box"])
            f, F, members = _members(rng, dim, kind, composite)
            x0 = pt()
            x0v = val.point(x0)
            start, cstart = snapshot()
            x, gx, fx = step(x0, f, fl(gamma))
            xr = _quad_of(F).prox(gamma, x0v) if kind == "smooth" else F.prox(gamma, x0v)
            val.solve_point(gx, vscal(1 / gamma, vsub(x0v, xr)))
            val.solve_expr(fx, F.val(xr))
            if val.unknown_points(x):
                val.solve_point(x, xr)
            if not val.unknown_points(x) and val.point(x) != xr:
                return dict(kind="returned-point-is-not-the-proximal-point", x0=x0v, gamma=gamma, real=xr,
                            returned=val.point(x))
            bad = finish()
            if bad or XF.inexact or rng.random() < 0.5:
                return bad
            # a second proximal step, from x - gamma gx (a point related to an already recorded sample)
            x0b = x - fl(gamma) * gx
            x0bv = val.point(x0b)
            start, cstart = snapshot()
            x2, g2, f2 = step(x0b, f, fl(gamma))
            xr2 = _quad_of(F).prox(gamma, x0bv) if kind == "smooth" else F.prox(gamma, x0bv)
            if val.unknown_points(g2):
                val.solve_point(g2, vscal(1 / gamma, vsub(x0bv, xr2)))
            if val.unknown_exprs(f2):
                val.solve_expr(f2, F.val(xr2))
            if not val.unknown_points(x2) and val.point(x2) != xr2:
                return dict(kind="returned-point-is-not-the-proximal-point", x0=x0bv, gamma=gamma, real=xr2,
                            returned=val.point(x2), second_call=True)
            return finish()

        if name == "linear_optimization_step":
            f, F, members = _members(rng, dim, "box", False)
            d = pt()
            if rng.random() < 0.4:       # a rescaled direction (the normal cone is a cone)
                d = d * XF(rng.choice([2.0 ** -35, 1e-9, 2.0 ** 30]))
            dv = val.point(d)
            start, cstart = snapshot()
            x, gx, fx = step(d, f)
            xr = F.linopt(dv)
            val.solve_point(x, xr)
            val.solve_expr(fx, 0)
            return finish()

        if name == "inexact_gradient_step":
            f, F, members = _members(rng, dim, "smooth", composite)
            x0 = pt()
            x0v = val.point(x0)
            eps = rng.choice([Fraction(1, 2), Fraction(1), Fraction(3, 2), Fraction(2), Fraction(3)])
            start, cstart = snapshot()
            args = (x0, f, fl(gamma), fl(eps)) + ((opt,) if opt else ())
            x, dx0, fx0 = step(*args)
            notion = opt or "absolute"
            g = F.grad(x0v)
            theta = rng.choice([Fraction(1), Fraction(1), Fraction(1, 2), Fraction(-1), Fraction(0)])
            if notion == "relative":
                err = vscal(theta * eps, g)
            else:
                err = [theta * eps] + [Fraction(0)] * (dim - 1)
            dr = vadd(g, err)
            val.solve_point(dx0, dr)
            propagate_samples(val, members, start)
            if not val.unknown_points(x) and val.point(x) != vsub(x0v, vscal(gamma, dr)):
                return dict(kind="returned-point-is-not-x0-minus-gamma-d", x0=x0v, d=dr, returned=val.point(x))
            bad = finish()
            if bad:
                return bad
            if XF.inexact:
                return None
            # tightness: a direction just outside the accuracy must violate what was recorded
            bound = eps * eps * (dot(g, g) if notion == "relative" else 1)
            import math
            N = 1024          # rational k with k^2 slightly above the bound
            k = Fraction(math.isqrt(int(bound * N * N)) + 1, N)
            over = [k] + [Fraction(0)] * (dim - 1)
            leaf = list(dx0.decomposition_dict)[0]
            keep = val.p[id(leaf)]
            val.set_p(leaf, vadd(g, over))
            if constraints_hold(val, [f], cstart):
                return dict(kind="recorded-constraint-weaker-than-documented", step=name, notion=notion, eps=eps,
                            error_sq=dot(over, over), bound=bound)
            val.set_p(leaf, keep)
            return None

        if name == "exact_linesearch_step":
            f, F, members = _members(rng, dim, "smooth", composite)
            x0 = pt()
            x0v = val.point(x0)
            dirs = [pt() for _ in range(rng.randint(1, 3))]
            dvs = [val.point(d) for d in dirs]
            start, cstart = snapshot()
            dirs_given = list(dirs)
            x, gx, fx = step(x0, f, dirs)
            if len(dirs) != len(dirs_given) or any(a is not b for a, b in zip(dirs, dirs_given)):
                return dict(kind="caller-list-of-directions-modified", before=len(dirs_given), after=len(dirs))
            xr = _quad_of(F).linesearch(x0v, dvs)
            if xr is None:
                return None
            val.solve_point(x, xr)
            bad = finish()
            if bad:
                return bad
            if XF.inexact:
                return None
            # tightness: the documented condition <grad f(x), x - x0> = 0 must be recorded as well.  Move x0 (when it
            # is a single leaf not used by the directions) along the gradient: every <gx, d> = 0 still holds.
            gxv = val.point(gx)
            if dot(gxv, gxv) != 0 and len(x0.decomposition_dict) == 1 and \
                    all(list(x0.decomposition_dict)[0] not in d.decomposition_dict for d in dirs):
                leaf = list(x0.decomposition_dict)[0]
                keep = val.p[id(leaf)]
                val.set_p(leaf, vadd(keep, gxv))
                moved = dot(gxv, vsub(val.point(x), val.point(x0))) != 0
                if moved and constraints_hold(val, [f], cstart):
                    return dict(kind="recorded-constraints-weaker-than-documented", step=name,
                                missing="<gx, x - x0> = 0", gx=gxv)
                val.set_p(leaf, keep)
            return None

        if name == "bregman_gradient_step":
            h, H, members = _members(rng, dim, "smooth", composite)
            gx0, sx0 = pt(), pt()
            g0, s0 = val.point(gx0), val.point(sx0)
            start, cstart = snapshot()
            x, sx, hx = step(gx0, sx0, h, fl(gamma))
            Hq = _quad_of(H)
            xr = solve_linear(Hq.A, vsub(vsub(s0, vscal(gamma, g0)), Hq.b))     # grad H(xr) = s0 - gamma g0
            val.solve_point(x, xr)
            return finish()

        if name == "bregman_proximal_step":
            h, H, mh = _members(rng, dim, "smooth", False)
            f, F, mf = _members(rng, dim, "smooth", composite)
            members = mh + mf
            sx0 = pt()
            s0 = val.point(sx0)
            start, cstart = snapshot()
            x, sx, hx, gx, fx = step(sx0, h, f, fl(gamma))
            Fq, Hq = _quad_of(F), _quad_of(H)
            n = dim
            M = [[gamma * Fq.A[i][j] + Hq.A[i][j] for j in range(n)] for i in range(n)]
            xr = solve_linear(M, vsub(vsub(s0, vscal(gamma, Fq.b)), Hq.b))
            val.solve_point(x, xr)
            val.solve_point(gx, F.grad(xr))
            return finish()

        if name == "epsilon_subgradient_step":
            f, F, members = _members(rng, dim, "smooth", composite)
            x0 = pt()
            x0v = val.point(x0)
            start, cstart = snapshot()
            x, g0, f0, epsv = step(x0, f, fl(gamma))
            yr = [_dy(rng) for _ in range(dim)]
            gr = F.grad(yr)
            slack = rng.choice([Fraction(0), Fraction(0), Fraction(1, 2)])
            er = F.val(x0v) + (dot(gr, yr) - F.val(yr)) - dot(gr, x0v) + slack
            val.solve_point(g0, gr)
            val.solve_expr(epsv, er)
            # the recorded sample carrying g0 is at the point where the conjugate is attained
            for (sx_, sg_, sv_) in f.list_of_points[start[id(f)]:]:
                if sg_ is g0 and val.unknown_points(sx_):
                    val.solve_point(sx_, yr)
            bad = finish()
            if bad:
                return bad
            if XF.inexact:
                return None
            if val.point(x) != vsub(x0v, vscal(gamma, gr)):
                return dict(kind="returned-point-is-not-x0-minus-gamma-g0", returned=val.point(x))
            for z in tests:       # g0 really is an eps-subgradient at x0
                if F.val(z) < F.val(x0v) + dot(gr, vsub(z, x0v)) - er:
                    return dict(kind="not-an-epsilon-subgradient", z=z)
            if slack == 0:        # tightness: a smaller epsilon must violate what was recorded
                leaf = list(epsv.decomposition_dict)[0]
                val.set_x(leaf, er - Fraction(1, 8))
                if constraints_hold(val, [f], cstart):
                    return dict(kind="recorded-constraint-weaker-than-documented", step=name)
                val.set_x(leaf, er)
            return None

        if name == "inexact_proximal_step":
            f, F, members = _members(rng, dim, "smooth", composite)
            x0 = pt()
            x0v = val.point(x0)
            start, cstart = snapshot()
            args = (x0, f, fl(gamma)) + ((opt,) if opt else ())
            x, gx, fx, w, v, fw, epsv = step(*args)
            o = opt or "PD_gapII"
            xr = [_dy(rng) for _ in range(dim)]
            Fq = _quad_of(F)
            if o == "PD_gapI":
                wr = [_dy(rng) for _ in range(dim)]
                vr = F.grad(wr)
            elif o == "PD_gapII":
                wr, vr = xr, F.grad(xr)
            else:
                vr = vscal(1 / gamma, vsub(x0v, xr))
                wr = solve_linear(Fq.A, vsub(vr, Fq.b))
            # the primal-dual gap of the docstring, with f*(v) = <v, w> - f(w)
            phi_p = gamma * F.val(xr) + dot(vsub(xr, x0v), vsub(xr, x0v)) / 2
            phi_d = -gamma * (dot(vr, wr) - F.val(wr)) - dot(vsub(x0v, vscal(gamma, vr)), vsub(x0v, vscal(gamma, vr))) / 2 \
                + dot(x0v, x0v) / 2
            slack = rng.choice([Fraction(0), Fraction(0), Fraction(1, 4)])
            er = phi_p - phi_d + slack
            val.solve_expr(epsv, er)
            if o == "PD_gapI":
                val.solve_point(x, xr)
                val.solve_point(w, wr)
                val.solve_point(v, vr)
                val.solve_point(gx, F.grad(xr))
            elif o == "PD_gapII":
                val.solve_point(gx, F.grad(xr))
                val.solve_point(x, xr)            # determines the error leaf e
            else:
                val.solve_point(x, xr)
                val.solve_point(w, wr)
                val.solve_point(gx, F.grad(xr))
            bad = finish()
            if bad:
                return bad
            if XF.inexact:
                return None
            if val.point(x) != xr or val.point(v) != vr or val.point(w) != wr:
                return dict(kind="returned-objects-are-not-the-real-ones", option=o)
            if slack == 0 and len(epsv.decomposition_dict) == 1:
                leaf = list(epsv.decomposition_dict)[0]
                val.set_x(leaf, er - Fraction(1, 8))
                if constraints_hold(val, [f], cstart):
                    return dict(kind="recorded-constraint-weaker-than-documented", step=name, option=o)
                val.set_x(leaf, er)
            return None
    raise KeyError(name)
