"""C08 support: (1) driving the 8 real primitive steps from seeded random inputs and dumping what they returned /
recorded in the shape of Model/StepsRT.v's [dump_run]; (2) exact-arithmetic (Fraction) real members with
computable steps (quadratics, |.|, boxes) used by the failing-input search."""
import importlib
import random
import warnings
from fractions import Fraction

from . import terms as T
from .classes import coq_pd, coq_ed, leaf_maps
from .common import coq_q, coq_nat, coq_list, coq_str, Q, to_fraction

# step name -> (signature kinds in call order, option literals)
#   P point, F function, S scalar, L list of points, O option
STEPS = {
    "proximal_step": ("PFS", []),
    "inexact_gradient_step": ("PFSSO", ["absolute", "relative"]),
    "exact_linesearch_step": ("PFL", []),
    "linear_optimization_step": ("PF", []),
    "bregman_gradient_step": ("PPFS", []),
    "bregman_proximal_step": ("PFFS", []),
    "epsilon_subgradient_step": ("PFS", []),
    "inexact_proximal_step": ("PFSO", ["PD_gapI", "PD_gapII", "PD_gapIII"]),
}
STEP_NAMES = sorted(STEPS)

LEAF_CLASSES = [("ConvexFunction", {}), ("ConvexFunction", {"reuse_gradient": True}),
                ("SmoothConvexFunction", {"L": 1.0}), ("SmoothStronglyConvexFunction", {"mu": 0.5, "L": 2.0}),
                ("ConvexIndicatorFunction", {"D": 2.0}), ("ConvexLipschitzFunction", {"M": 1.0}),
                ("StronglyConvexFunction", {"mu": 0.5})]


def step_fn(name):
    return getattr(importlib.import_module("PEPit.primitive_steps"), name)


# ----------------------------------------------------------------------------- random inputs
WEIGHTS = [1, 1, -1, 2, 0.5, -0.5, 3, 0.25, -2, 1.5]


def rand_scal(rng, power_of_two=False, allow_zero=True):
    if power_of_two:
        v = rng.choice([1, 2, 0.5, 4, 0.25, -1, -2, -0.5, 2.0, 1.0])
    else:
        v = rng.choice([1, 2, 0.5, 0.25, 3, 1.5, 0.75, -1, -0.5, 4, 0.125, 1.0, 2.0] + ([0, 0.0] if allow_zero else []))
    return v


def combo(rng, leaves, maxterms=3):
    """(spec, builder): spec is a replayable description [[leaf index, weight], ...] (+ flags)"""
    k = rng.randint(1, maxterms)
    spec = [[rng.randrange(len(leaves)), rng.choice(WEIGHTS)] for _ in range(k)]
    zero_tail = rng.random() < 0.08      # unpruned zero entries:  (...) + 0 * leaf  is pruned by +, so scale last
    return dict(terms=spec, times_zero=zero_tail)


def build_point(spec, leaves):
    p = None
    for i, w in spec["terms"]:
        term = leaves[i] if w == 1 else w * leaves[i]
        p = term if p is None else p + term
    if spec.get("times_zero"):
        p = p * 0            # dictionary with explicit zeros (not pruned by a scalar product)
    return p


def gen_case(rng, step=None, opt="#none", composite=False):
    """a replayable description of one call (JSON-able)"""
    name = step or rng.choice(STEP_NAMES)
    kinds, lits = STEPS[name]
    nleaves = rng.randint(2, 4)
    nfun = rng.randint(1, 3)
    funs = []
    for _ in range(nfun):
        ci = rng.randrange(len(LEAF_CLASSES))
        hist = []
        for _ in range(rng.choice([0, 0, 1, 1, 2, 3])):
            r = rng.random()
            if r < 0.5:
                hist.append(dict(op="oracle", x=combo(rng, range(nleaves))))
            elif r < 0.8:
                hist.append(dict(op="add_point", x=combo(rng, range(nleaves)), g=combo(rng, range(nleaves)),
                                 fresh_g=rng.random() < 0.3))
            else:
                hist.append(dict(op="constraint", a=rng.randrange(nleaves), b=rng.randrange(nleaves),
                                 c=rng.choice([0, 1, 0.5, -2]), eq=rng.random() < 0.3))
        funs.append(dict(cls=ci, hist=hist))
    call = []
    nfargs = 0
    for k in kinds:
        if k == "P":
            r = rng.random()
            # with some probability, re-query a point the function was already evaluated on
            prior = [h["x"] for f in funs for h in f["hist"] if h["op"] in ("oracle", "add_point")]
            if r < 0.3 and prior:
                call.append(dict(kind="P", pt=rng.choice(prior)))
            elif r < 0.5:
                call.append(dict(kind="P", pt=dict(terms=[[rng.randrange(nleaves), 1]], times_zero=False)))
            else:
                call.append(dict(kind="P", pt=combo(rng, range(nleaves))))
        elif k == "F":
            fi = rng.randrange(nfun)
            call.append(dict(kind="F", f=fi))
            nfargs += 1
        elif k == "S":
            call.append(dict(kind="S", v=rand_scal(rng)))
        elif k == "L":
            call.append(dict(kind="L", pts=[combo(rng, range(nleaves), 2) for _ in range(rng.randint(1, 3))]))
        elif k == "O":
            if opt == "#none":
                o = rng.choice(lits + lits + ["#default", "bogus"])
            else:
                o = opt
            call.append(dict(kind="O", v=o))
    case = dict(step=name, nleaves=nleaves, funs=funs, call=call)
    if name == "inexact_proximal_step":
        o = [c for c in call if c["kind"] == "O"][0]["v"]
        if o == "PD_gapIII":
            for c in call:
                if c["kind"] == "S":
                    # division by gamma: power of two keeps float arithmetic exact; sometimes 0 (ZeroDivisionError)
                    c["v"] = 0 if rng.random() < 0.1 else rand_scal(rng, power_of_two=True)
    return case


# ----------------------------------------------------------------------------- implementation side
class Ctx(object):
    pass


def setup_case(case):
    """fresh PEP, leaves, leaf functions with their history.  Returns a context"""
    from PEPit import PEP, Point, Expression
    import PEPit.functions as PF
    pep = PEP()
    c = Ctx()
    c.pep = pep
    c.leaves = [Point() for _ in range(case["nleaves"])]
    c.funs = []
    for fd in case["funs"]:
        cname, kw = LEAF_CLASSES[fd["cls"]]
        f = pep.declare_function(getattr(PF, cname), **kw)
        for h in fd["hist"]:
            if h["op"] == "oracle":
                f.oracle(build_point(h["x"], c.leaves))
            elif h["op"] == "add_point":
                g = Point() if h["fresh_g"] else build_point(h["g"], c.leaves)
                f.add_point((build_point(h["x"], c.leaves), g, Expression()))
            else:
                e = c.leaves[h["a"]] * c.leaves[h["b"]] - h["c"]
                with warnings.catch_warnings():
                    warnings.simplefilter("ignore")
                    f.add_constraint((e == 0) if h["eq"] else (e <= 0))
        c.funs.append(f)
    return c


def call_args(case, c):
    """python arguments of the call, plus the model-side view: points, function ids, scalars, directions, option"""
    args, kwargs = [], {}
    pts, fids, scs, dirs, opt = [], [], [], [], ""
    for a in case["call"]:
        if a["kind"] == "P":
            p = build_point(a["pt"], c.leaves)
            args.append(p)
            pts.append(p)
        elif a["kind"] == "F":
            args.append(c.funs[a["f"]])
            fids.append(a["f"])
        elif a["kind"] == "S":
            args.append(a["v"])
            scs.append(a["v"])
        elif a["kind"] == "L":
            ds = [build_point(p, c.leaves) for p in a["pts"]]
            args.append(ds)
            dirs = ds
        else:
            if a["v"] != "#default":
                args.append(a["v"])
            opt = a["v"]
    return args, pts, fids, scs, dirs, opt


def dump_frec(f, pid, xid):
    return [bool(f.reuse_gradient),
            [[T.dump_pdict(x.decomposition_dict, pid), T.dump_pdict(g.decomposition_dict, pid),
              T.dump_edict(v.decomposition_dict, pid, xid)] for (x, g, v) in f.list_of_points],
            [T.dump_constraint(k, pid, xid) for k in f.list_of_constraints]]


def coq_frec(d):
    return "mkFrec %s %s %s" % (
        "true" if d[0] else "false",
        coq_list(["(%s, %s, %s)" % (coq_pd(s[0]), coq_pd(s[1]), coq_ed(s[2])) for s in d[1]]),
        coq_list(["(%s, %s)" % (coq_ed(k[0]), "Equ" if k[1] else "Ineq") for k in d[2]]))


def run_impl(case):
    """run the real step.  Returns (coq input literal, expected dump, info) """
    from PEPit import Point, Expression
    c = setup_case(case)
    args, pts, fids, scs, dirs, opt = call_args(case, c)
    pid, xid = leaf_maps()
    pre = [dump_frec(f, pid, xid) for f in c.funs]
    pre_pts = [T.dump_pdict(p.decomposition_dict, pid) for p in pts]
    pre_dirs = [T.dump_pdict(p.decomposition_dict, pid) for p in dirs]
    pc, xc = Point.counter, Expression.counter
    n_stat = [len(f.list_of_stationary_points) for f in c.funs]
    n_pts = [len(f.list_of_points) for f in c.funs]
    name = case["step"]
    optlit = ("default_%s" % name) if opt == "#default" else coq_str(opt)
    lit = "mkCase (step_program %s %s) (mk_args %s %s %s %s) (mk_state %s %s %s) %s %s" % (
        coq_str(name), optlit,
        coq_list([coq_pd(p) for p in pre_pts]), coq_list([coq_nat(k) for k in fids]),
        coq_list([coq_q(s) for s in scs]), coq_list([coq_pd(p) for p in pre_dirs]),
        coq_nat(pc), coq_nat(xc), coq_list([coq_frec(d) for d in pre]), coq_nat(len(c.funs)), coq_nat(len(pts)))
    err = None
    ret = None
    try:
        with warnings.catch_warnings():
            warnings.simplefilter("ignore")
            ret = step_fn(name)(*args)
    except (ValueError, ZeroDivisionError) as e:
        err = type(e).__name__
    pid, xid = leaf_maps()
    if err is not None:
        res = ["err", err]
    elif ret is None:
        res = ["none"]
    else:
        items = []
        for o in (ret if isinstance(ret, tuple) else (ret,)):
            if type(o).__name__ == "Point":
                items.append(["P", T.dump_pdict(o.decomposition_dict, pid)])
            else:
                items.append(["X", T.dump_edict(o.decomposition_dict, pid, xid)])
        res = ["ok", items]
    post = [dump_frec(f, pid, xid) for f in c.funs]
    dump = [res, [T.dump_pdict(p.decomposition_dict, pid) for p in pts], Point.counter, Expression.counter, post]
    # list_of_stationary_points is not modelled: it must stay the sub-list of samples with an empty gradient
    stat_ok = True
    for f, ns, npt in zip(c.funs, n_stat, n_pts):
        new_stat = f.list_of_stationary_points[ns:]
        want = [t for t in f.list_of_points[npt:] if t[1].decomposition_dict == dict()]
        if len(new_stat) != len(want) or any(a is not b for a, b in zip(new_stat, want)):
            stat_ok = False
    info = dict(result_kind=res[0], error=err, stat_ok=stat_ok, ctx=c, ret=ret, pts=pts, dirs=dirs, fids=fids,
                scs=scs, opt=opt, n_pts=n_pts, n_cons=[len(d[2]) for d in pre], pc=pc, xc=xc)
    return lit, dump, info


# ----------------------------------------------------------------------------- exact real members
def vec(*a):
    return [Fraction(x) for x in a]


def vadd(u, v):
    return [a + b for a, b in zip(u, v)]


def vsub(u, v):
    return [a - b for a, b in zip(u, v)]


def vscal(c, u):
    return [c * a for a in u]


def dot(u, v):
    return sum((a * b for a, b in zip(u, v)), Fraction(0))


def solve_linear(A, b):
    """Gaussian elimination over Fractions (A square, non-singular)"""
    n = len(A)
    M = [list(map(Fraction, A[i])) + [Fraction(b[i])] for i in range(n)]
    for col in range(n):
        piv = next(r for r in range(col, n) if M[r][col] != 0)
        M[col], M[piv] = M[piv], M[col]
        pv = M[col][col]
        M[col] = [x / pv for x in M[col]]
        for r in range(n):
            if r != col and M[r][col] != 0:
                fac = M[r][col]
                M[r] = [x - fac * y for x, y in zip(M[r], M[col])]
    return [M[i][n] for i in range(n)]


class Quadratic(object):
    """F(x) = 1/2 x'Ax + b'x + c,  A symmetric positive semidefinite (convex, differentiable)"""
    differentiable = True

    def __init__(self, A, b, c=0):
        self.A = [[Fraction(x) for x in row] for row in A]
        self.b = [Fraction(x) for x in b]
        self.c = Fraction(c)
        self.dim = len(b)

    def matvec(self, x):
        return [dot(row, x) for row in self.A]

    def val(self, x):
        return dot(x, self.matvec(x)) / 2 + dot(self.b, x) + self.c

    def grad(self, x):
        return vadd(self.matvec(x), self.b)

    def in_dom(self, x):
        return True

    def is_subgrad(self, x, g, tests):
        return g == self.grad(x)

    def prox(self, gamma, x0):
        n = self.dim
        M = [[(1 if i == j else 0) + gamma * self.A[i][j] for j in range(n)] for i in range(n)]
        return solve_linear(M, vsub(x0, vscal(gamma, self.b)))

    def linesearch(self, x0, dirs):
        """argmin over x0 + span(dirs); dirs are made independent first; None if unbounded / not unique"""
        basis = independent(dirs)
        if not basis:
            return list(x0)
        k = len(basis)
        g0 = self.grad(x0)
        G = [[dot(basis[i], self.matvec(basis[j])) for j in range(k)] for i in range(k)]
        rhs = [-dot(basis[i], g0) for i in range(k)]
        try:
            t = solve_linear(G, rhs)
        except StopIteration:
            return None
        x = list(x0)
        for ti, d in zip(t, basis):
            x = vadd(x, vscal(ti, d))
        return x


def independent(dirs):
    basis, red = [], []
    for d in dirs:
        r = list(d)
        for (b, lead) in red:
            if r[lead] != 0:
                r = vsub(r, vscal(r[lead] / b[lead], b))
        lead = next((i for i, x in enumerate(r) if x != 0), None)
        if lead is not None:
            red.append((r, lead))
            basis.append(list(d))
    return basis


class AbsSum(object):
    """F(x) = w * sum |x_i|   (convex, not differentiable)"""
    differentiable = False

    def __init__(self, w, dim):
        self.w = Fraction(w)
        self.dim = dim

    def val(self, x):
        return self.w * sum((abs(a) for a in x), Fraction(0))

    def in_dom(self, x):
        return True

    def is_subgrad(self, x, g, tests):
        for xi, gi in zip(x, g):
            if xi > 0 and gi != self.w:
                return False
            if xi < 0 and gi != -self.w:
                return False
            if xi == 0 and abs(gi) > self.w:
                return False
        return True

    def prox(self, gamma, x0):
        t = gamma * self.w
        return [a - t if a > t else a + t if a < -t else Fraction(0) for a in x0]

    def some_subgrad(self, x):
        return [self.w if a > 0 else -self.w if a < 0 else Fraction(0) for a in x]


class Box(object):
    """indicator of the box [lo, hi]^dim"""
    differentiable = False

    def __init__(self, lo, hi, dim):
        self.lo, self.hi, self.dim = Fraction(lo), Fraction(hi), dim

    def in_dom(self, x):
        return all(self.lo <= a <= self.hi for a in x)

    def val(self, x):
        return Fraction(0)

    def is_subgrad(self, x, g, tests):
        """g in the normal cone at x"""
        if not self.in_dom(x):
            return False
        for xi, gi in zip(x, g):
            if self.lo < xi < self.hi and gi != 0:
                return False
            if xi == self.lo and xi != self.hi and gi > 0:
                return False
            if xi == self.hi and xi != self.lo and gi < 0:
                return False
        return True

    def prox(self, gamma, x0):
        return [min(max(a, self.lo), self.hi) for a in x0]

    def linopt(self, direction):
        """a minimiser of <direction, x> over the box"""
        return [self.lo if d > 0 else self.hi if d < 0 else (self.lo + self.hi) / 2 for d in direction]


def grid(dim, rng, n=12):
    pts = [[Fraction(0)] * dim]
    for _ in range(n):
        pts.append([Fraction(rng.randint(-6, 6), rng.choice([1, 2, 3])) for _ in range(dim)])
    return pts


def subgradient_inequality(F, x, g, fx, tests):
    """the first test point y (in dom F) with F(y) < fx + <g, y - x>, or None; first-principles check"""
    for y in tests:
        if F.in_dom(y) and F.val(y) < fx + dot(g, vsub(y, x)):
            return y
    return None


def rand_quadratic(rng, dim, strictly=False):
    if dim == 1:
        a = Fraction(rng.choice([0, 1, 2, 1, 3]) if not strictly else rng.choice([1, 2, 3]), rng.choice([1, 2]))
        A = [[a]]
    else:
        # A = M'M (+ I when strict convexity is wanted)
        M = [[Fraction(rng.randint(-2, 2), rng.choice([1, 2])) for _ in range(dim)] for _ in range(dim)]
        A = [[sum(M[k][i] * M[k][j] for k in range(dim)) + (1 if (strictly and i == j) else 0) for j in range(dim)]
             for i in range(dim)]
    b = [Fraction(rng.randint(-3, 3), rng.choice([1, 2])) for _ in range(dim)]
    return Quadratic(A, b, Fraction(rng.randint(-2, 2)))
