"""C17 — dual tables report each multiplier at the pair of points it belongs to.

Proof side (coq/Props/C17.v): for every plan item using the generic generators (and the BlockSmooth loop), all
lists: table shape, labels, cell (i, j) = the object generated for that ordered pair (its position in
list_of_class_constraints) or 0, dual table = multiplier of that object; names determine the pair and carry
function id and condition; dictionary lookup by condition name.
Tie: (T) plans regenerated from the sources; (H) harness/classgen_stream.py compares tables_of_constraints (cell by
cell, objects identified by position), labels and get_class_constraints_duals() (after tagging every class
constraint with its position) with the model, for all 24 classes and for direct calls of the generators.
On the implementation itself (problems / search): the dual table must report, at (i, j), the tag of THE constraint
named for that condition and pair, and 0 iff there is none."""
import random

from . import classes as K
from . import classgen_stream as S

GEN_DEPS = ["Classes.v"]
TRUSTED = [
    "Model/ClassGen.v (generators, tables with object positions, duals_table, names, BlockSmooth tables) is written by "
    "hand and tied to PEPit/function.py / block_smooth_convex_function.py by the class-generation stream",
    "a Constraint object is identified with its position in list_of_class_constraints (each generated constraint is "
    "appended exactly once; checked by identity in the stream)",
    "pandas / numpy: DataFrame construction from the nested lists, iterrows(), .values, labels are read back through "
    "the real objects, not modelled",
    "decimal printing of indices: Coq's Numbers.DecimalString / DecimalNat (nat_to_string) vs Python's str.format",
]
ASSUMES = [
    "the solver's assignment of multipliers to Constraint objects (eval_dual) is outside C17: `dual p` is an ARBITRARY "
    "rational function of the position p (any sign: equalities have sign-free multipliers, the accessor is the "
    "identity on what is stored); on the implementation the multipliers are injected tags of both signs, plus two "
    "solved instances",
    "name injectivity is stated for unnamed points (Point_<i>); user-given names may collide",
]


def _direct(meta, func):
    out = []
    for d in S.check_tables(meta["cls"], func):
        if S.known_trigger_c17(meta["cls"], d):
            continue
        out.append(dict(kind="C17-" + d["kind"], detail=d))
        break
    return out


def solved_instances():
    """two really solved PEPs (cvxpy / SCS) whose class conditions are EQUALITIES with sign-free multipliers:
    gradient descent on g(Mx), M a SymmetricLinearOperator ("symmetric_linearity") resp. a LinearOperator with its
    transpose ("adjoint").  After the solve, every entry of get_class_constraints_duals() must be exactly the
    _dual_variable_value the wrapper stored on the Constraint object sitting at that pair (negative ones
    included), 0 where the table holds 0.  Returns (problems, info)."""
    from PEPit import PEP, Point
    from PEPit.functions import SmoothStronglyConvexFunction
    from PEPit.operators import SymmetricLinearOperator, LinearOperator
    problems, info = [], {}
    for kind in ("SymmetricLinearOperator", "LinearOperator"):
        pep = PEP()
        g = pep.declare_function(SmoothStronglyConvexFunction, mu=0.1, L=1.)
        if kind == "SymmetricLinearOperator":
            A = pep.declare_function(SymmetricLinearOperator, mu=0.1, L=1.)
            At = A
        else:
            A = pep.declare_function(LinearOperator, L=1.)
            At = A.T
        x0 = pep.set_initial_point()
        xs = Point()
        ys = A.gradient(xs)
        us, fs = g.oracle(ys)
        vs = At.gradient(us)
        pep.add_constraint(vs ** 2 == 0)
        pep.set_initial_condition((x0 - xs) ** 2 <= 1)
        y0 = A.gradient(x0)
        u0 = g.gradient(y0)
        v0 = At.gradient(u0)
        x1 = x0 - v0
        y1 = A.gradient(x1)
        pep.set_performance_metric(g(y1) - fs)
        try:
            tau = pep.solve(verbose=0)
        except Exception as e:
            info[kind] = "solve raised %r" % (e,)
            continue
        if tau is None:
            info[kind] = "no solution"
            continue
        neg = 0
        for name, func in ((kind, A), ("SmoothStronglyConvexFunction", g)):
            for d in S.check_tables(name, func, injected=False):
                problems.append(dict(kind="C17-solved-" + d["kind"], instance="gradient descent on g(Mx), M " + kind,
                                     function=name, detail=d))
                break
            for c in func.list_of_class_constraints:
                if c.equality_or_inequality == "equality" and c._dual_variable_value is not None \
                        and c._dual_variable_value < -1e-3:
                    neg += 1
        info[kind] = "value %.4f, %d equality multipliers below -1e-3" % (tau, neg)
    return problems, info


def correspondence(tier, seed, corpus):
    st = S.run_stream("c17_classgen", tier, seed + 17, on_case=_direct)
    # regression case of the repaired F-C17b (reported as a violation if it ever fails again)
    reg = S.regression_linear_adjoint()
    solved, info = solved_instances()
    st["problems"] = (reg + solved + st["problems"])[:5]
    st["n_problems"] += len(reg) + len(solved)
    st["evaluations"] += 1 + len(info)
    st["distribution"]["regression_cases"] = {"F-C17b (LinearOperator adjoint equalities named + tabulated)": "fails" if reg else "passes"}
    st["distribution"]["solved_instances"] = info
    st["rule"] += ("; injected dual values are -1/4, 3/4, -5/4, ... by position (both signs, distinct, non-zero) and "
                   "each dual-table entry is compared with the value stored on the object at that pair; plus two solved "
                   "instances with equality tables (negative multipliers)")
    return [st]


def search(tier, seed):
    """after a generation with injected dual values (tag = position), get_class_constraints_duals() must equal the
    table predicted from the pair positions (through the names); unnamed points so that names are unique"""
    rng = random.Random(seed + 171717)
    n = 40 if tier == "quick" else 400
    for name in K.ALL_CLASSES:
        for _ in range(n):
            cs = rng.getrandbits(48)
            inp, dump, meta, func = S.class_case(cs, name)
            for d in S.check_tables(name, func):
                if S.known_trigger_c17(name, d):
                    continue
                return dict(kind="C17-" + d["kind"], detail=d, case=dict(kind="class", cls=name, case_seed=cs, forced=None))
    for _ in range(4 * n):
        cs = rng.getrandbits(48)
        inp, dump, meta, func = S.raw_case(cs)
        for d in S.check_tables(meta["cls"], func):
            return dict(kind="C17-" + d["kind"], detail=d, case=dict(kind="raw", cls=None, case_seed=cs))
    return None


REPLAYS = {}


def known_findings(known):
    out = []
    for k in known:
        fn = REPLAYS.get(k["id"])
        if fn is None:
            continue
        still, what = fn()
        out.append((k["id"], bool(still), k["what"] + " [" + what + "]"))
    return out


def is_known(payload, known):
    ids = {k["id"] for k in known}
    d = payload.get("detail") or {}
    cls = (payload.get("case") or {}).get("cls")
    fid = S.known_trigger_c17(cls, d) if cls else None
    return fid if fid in ids else None


def replay(payload):
    case = payload.get("case")
    if payload.get("kind") == "regression-F-C17b":
        return bool(S.regression_linear_adjoint())
    if payload.get("kind", "").startswith("C17-solved-"):
        return bool(solved_instances()[0])
    if payload.get("kind") == "implementation-raised" and case:
        try:
            S.rebuild(case)
            return False
        except Exception:
            return True
    if case:
        inp, dump, meta, func = S.rebuild(case)
        for d in S.check_tables(meta["cls"], func):
            if not S.known_trigger_c17(meta["cls"], d):
                return True
        return not S.model_agrees(case)
    for b in payload.get("broken", []):
        for m in b.get("first", []):
            if isinstance(m, dict) and m.get("case") and not S.model_agrees(m["case"]):
                return True
    return search("quick", int(payload.get("seed", 0))) is not None
