"""C17 — dual tables report each multiplier at the pair of points it belongs to.

Proof side (coq/Props/C17.v): for every plan item using the generic generators (and the BlockSmooth loop), all
lists: table shape, labels, cell (i, j) = the object generated for that ordered pair (its position in
list_of_class_constraints) or 0, dual table = multiplier of that object; names determine the pair and carry
function id and condition; dictionary lookup by condition name.
Tie: (T) plans regenerated from the sources; (H) harness/classgen_stream.py compares tables_of_constraints (cell by
cell, objects identified by position), labels and get_class_constraints_duals() (after tagging every class
constraint with its position) with the model, for all 24 classes and for direct calls of the generators.
On the implementation itself (problems / search): the dual table must report, at (i, j), the tag of THE constraint
named for that condition and pair, and 0 iff there is none."""
import random

from . import classes as K
from . import classgen_stream as S

GEN_DEPS = ["Classes.v"]
TRUSTED = [
    "Model/ClassGen.v (generators, tables with object positions, duals_table, names, BlockSmooth tables) is written by "
    "hand and tied to PEPit/function.py / block_smooth_convex_function.py by the class-generation stream",
    "a Constraint object is identified with its position in list_of_class_constraints (each generated constraint is "
    "appended exactly once; checked by identity in the stream)",
    "pandas / numpy: DataFrame construction from the nested lists, iterrows(), .values, labels are read back through "
    "the real objects, not modelled",
    "decimal printing of indices: Coq's Numbers.DecimalString / DecimalNat (nat_to_string) vs Python's str.format",
]
ASSUMES = [
    "the solver's assignment of multipliers to Constraint objects (eval_dual) is outside C17: `dual p` is an ARBITRARY "
    "rational function of the position p (any sign: equalities have sign-free multipliers, the accessor is the "
    "identity on what is stored); on the implementation the multipliers are injected tags of both signs, plus two "
    "solved instances",
    "name injectivity is stated for unnamed points (Point_<i>); user-given names may collide",
]


def _direct(meta, func):
    out = []
    for d in S.check_tables(meta["cls"], func):
        if S.known_trigger_c17(meta["cls"], d):
            continue
        out.append(dict(kind="C17-" + d["kind"], detail=d))
        break
    return out


def solved_instances():
    """two really solved PEPs (cvxpy / SCS) whose class conditions are EQUALITIES with sign-free multipliers:
    gradient descent on g(Mx), M a SymmetricLinearOperator ("symmetric_linearity") resp. a LinearOperator with its
    transpose ("adjoint").  After the solve, every entry of get_class_constraints_duals() must be exactly the
    _dual_variable_value the wrapper stored on the Constraint object sitting at that pair (negative ones
    included), 0 where the table holds 0.  Returns (problems, info)."""
    from PEPit import PEP, Point
    from PEPit.functions import SmoothStronglyConvexFunction
    from PEPit.operators import SymmetricLinearOperator, LinearOperator
    problems, info = [], {}
    for kind in ("SymmetricLinearOperator", "LinearOperator"):
        pep = PEP()
        g = pep.declare_function(SmoothStronglyConvexFunction, mu=0.1, L=1.)
        if kind == "SymmetricLinearOperator":
            A = pep.declare_function(SymmetricLinearOperator, mu=0.1, L=1.)
            At = A
        else:
            A = pep.declare_function(LinearOperator, L=1.)
            At = A.T
        x0 = pep.set_initial_point()
        xs = Point()
        ys = A.gradient(xs)
        us, fs = g.oracle(ys)
        vs = At.gradient(us)
        pep.add_constraint(vs ** 2 == 0)
        pep.set_initial_condition((x0 - xs) ** 2 <= 1)
        y0 = A.gradient(x0)
        u0 = g.gradient(y0)
        v0 = At.gradient(u0)
        x1 = x0 - v0
        y1 = A.gradient(x1)
        pep.set_performance_metric(g(y1) - fs)
        try:
            tau = pep.solve(verbose=0)
        except Exception as e:
            info[kind] = "solve raised %r" % (e,)
            continue
        if tau is None:
            info[kind] = "no solution"
            continue
        neg = 0
        for name, func in ((kind, A), ("SmoothStronglyConvexFunction", g)):
            for d in S.check_tables(name, func, injected=False):
                problems.append(dict(kind="C17-solved-" + d["kind"], instance="gradient descent on g(Mx), M " + kind,
                                     function=name, detail=d))
                break
            for c in func.list_of_class_constraints:
                if c.equality_or_inequality == "equality" and c._dual_variable_value is not None \
                        and c._dual_variable_value < -1e-3:
                    neg += 1
        info[kind] = "value %.4f, %d equality multipliers below -1e-3" % (tau, neg)
    return problems, info


# ------------------------------------------------------------------ end to end: the real PEP.solve with a scripted wrapper
def _scripted_wrapper():
    """a Wrapper that records what PEP sends and answers solve() with a fixed feasible-looking point and, as dual
    value of the k-th item it was sent, the signed tag K.dual_tag(k) (a zero matrix for an LMI): no numerical solver,
    but the REAL path  set_class_constraints -> send -> solve -> assign_dual_values -> tables"""
    import numpy as np
    from PEPit import Point, Expression
    from PEPit.wrapper import Wrapper

    class ScriptedWrapper(Wrapper):
        def check_license(self):
            return True

        def set_main_variables(self):
            pass

        def send_constraint_to_solver(self, constraint):
            self._list_of_constraints_sent_to_solver.append(constraint)

        def send_lmi_constraint_to_solver(self, psd_counter, psd_matrix):
            self._list_of_constraints_sent_to_solver.append(psd_matrix)

        def generate_problem(self, objective):
            self.objective = objective
            return None

        def solve(self, **kwargs):
            self.n_solves = getattr(self, "n_solves", 0) + 1
            self.optimal_G = np.identity(Point.counter)
            self.optimal_F = np.zeros(Expression.counter)
            self.optimal_F[self.objective.counter] = 1.0      # check_feasibility asserts value == objective
            return "optimal", "scripted", 1.0

        def _recover_dual_values(self):
            n = self.optimal_G.shape[0]
            duals = []
            for k, it in enumerate(self._list_of_constraints_sent_to_solver):
                if type(it).__name__ == "PSDMatrix":
                    duals.append(np.zeros(it.shape))
                else:
                    duals.append(K.dual_tag(k))
            return [np.zeros((n, n))] + duals, np.zeros((n, n))

        def prepare_heuristic(self, wc_value, tol_dimension_reduction):
            pass

        def heuristic(self, weight):
            pass
    return ScriptedWrapper


VACUOUS = ["unevaluated:LinearOperator", "unevaluated:SymmetricLinearOperator",
           "unevaluated:SkewSymmetricLinearOperator", "A-only:LinearOperator", "T-only:LinearOperator",
           "repeated-point:ConvexFunction", "repeated-point:ConvexLipschitzFunction",
           "repeated-point:ConvexIndicatorFunction", "quadratic", "stationary:ConvexQGFunction"]


def solve_case(desc):
    """one end-to-end case; desc = dict(scenario, case_seed, primal_or_dual, heuristic).  Returns (problems, info)."""
    import warnings
    from PEPit import PEP, Point, Function
    from PEPit.constraint import Constraint
    from . import recording
    rng = random.Random(desc["case_seed"])
    sc = desc["scenario"]
    if sc.startswith("repeated-point:"):
        # two subgradients at ONE point of a non-differentiable class: the two conditions between them read 0 <= 0
        name = sc.split(":")[1]
        pep = PEP()
        func = K.declare(pep, rng, name, K.draw_params(rng, name), False)
        x, y = Point(), Point()
        func.oracle(x)
        func.oracle(x)
        func.oracle(y)
    elif sc == "quadratic":
        # the (x*, x*) value / symmetry conditions of the quadratic class are 0 == 0
        name = "SmoothStronglyConvexQuadraticFunction"
        pep = PEP()
        func = K.declare(pep, rng, name, K.draw_params(rng, name), False)
        func.oracle(Point())
        func.oracle(Point())
    elif sc.startswith("unevaluated:") or sc in ("A-only:LinearOperator", "T-only:LinearOperator"):
        # an operator class with an LMI and NO sample in (one of) its lists: no 0 x 0 LMI may reach the solver
        mode, name = sc.split(":")
        pep = PEP()
        func = K.declare(pep, rng, name, K.draw_params(rng, name), False)
        if mode == "A-only":
            func.gradient(Point())
            func.gradient(Point())
        elif mode == "T-only":
            func.T.gradient(Point())
    elif sc.startswith("stationary:"):
        name = sc.split(":")[1]
        pep = PEP()
        func = K.declare(pep, rng, name, K.draw_params(rng, name), False)
        func.stationary_point()
        func.oracle(Point())
    else:
        name = sc
        func, ctx = K.build_function(rng, name)
        pep = ctx["pep"]
    x0 = Point()
    pep.set_initial_condition(x0 ** 2 <= 1)
    pep.set_performance_metric(x0 ** 2)
    last = recording.install(_scripted_wrapper())
    problems = []
    with warnings.catch_warnings():
        warnings.simplefilter("ignore")
        try:
            kw = dict(wrapper=recording.NAME, verbose=0, return_primal_or_dual=desc["primal_or_dual"])
            if desc["heuristic"]:
                kw["dimension_reduction_heuristic"] = desc["heuristic"]
            out = pep.solve(**kw)
        except Exception as e:
            return [dict(kind="C17-solve-raised", error=repr(e)[:300])], {}
    w = last()
    sent_w = w._list_of_constraints_sent_to_solver
    sent_p = pep._list_of_constraints_sent_to_wrapper
    n_tab = n_vac = 0
    for f in [g for g in Function.list_of_functions if g.get_is_leaf()]:
        if not f.tables_of_constraints:
            continue
        try:
            duals = f.get_class_constraints_duals()
        except Exception as e:
            problems.append(dict(kind="C17-dual-tables-accessor-raised-after-solve", function=K.function_id(f),
                                 error=repr(e)[:200],
                                 without_multiplier=sum(1 for c in f.list_of_class_constraints
                                                        if c._dual_variable_value is None)))
            break
        for key, df in f.tables_of_constraints.items():
            cells, dv = df.values, duals[key].values
            for i in range(cells.shape[0]):
                for j in range(cells.shape[1]):
                    el = cells[i][j]
                    if not isinstance(el, Constraint):
                        if K.T.to_fraction(dv[i][j]) != 0:
                            problems.append(dict(kind="C17-dual-nonzero-without-constraint", condition=key, i=i, j=j))
                        continue
                    n_tab += 1
                    if not el.expression.decomposition_dict or \
                            all(v == 0 for v in el.expression.decomposition_dict.values()):
                        n_vac += 1
                    pos_w = [k for k, it in enumerate(sent_w) if it is el]
                    pos_p = [k for k, it in enumerate(sent_p) if it is el]
                    if len(pos_w) != 1 or len(pos_p) != 1:
                        problems.append(dict(kind="C17-tabulated-constraint-sent-%d-times" % len(pos_w), condition=key,
                                             i=i, j=j, name=el.get_name()))
                    elif K.T.to_fraction(dv[i][j]) != K.T.to_fraction(K.dual_tag(pos_w[0])):
                        problems.append(dict(kind="C17-entry-is-not-the-multiplier-returned-for-that-constraint",
                                             condition=key, i=i, j=j, got=str(dv[i][j]), sent_at=pos_w[0],
                                             want=str(K.dual_tag(pos_w[0]))))
                    if problems:
                        break
                if problems:
                    break
            if problems:
                break
        if problems:
            break
    return problems[:1], dict(tabulated=n_tab, vacuous=n_vac, sent=len(sent_w), solves=getattr(w, "n_solves", 0))


def solve_descs(tier, seed):
    rng = random.Random(seed * 7 + 1717)
    out = []
    reps = 1 if tier == "quick" else 6
    combos = [("dual", None), ("primal", None), ("dual", "trace"), ("primal", "logdet2")]
    for _ in range(reps):
        for sc in VACUOUS + K.ALL_CLASSES:
            for pd, h in (combos if sc in VACUOUS else [rng.choice(combos[:2]), rng.choice(combos)]):
                out.append(dict(scenario=sc, case_seed=rng.getrandbits(48), primal_or_dual=pd, heuristic=h))
    return out


def solve_stream(tier, seed):
    import time
    t0 = time.time()
    problems, n, tab, vac, hist = [], 0, 0, 0, {}
    samples = []
    for desc in solve_descs(tier, seed):
        pr, info = solve_case(desc)
        n += 1
        tab += info.get("tabulated", 0)
        vac += info.get("vacuous", 0)
        key = "%s/%s" % (desc["primal_or_dual"], desc["heuristic"])
        hist[key] = hist.get(key, 0) + 1
        for p in pr:
            problems.append(dict(case=desc, **p))
        if len(samples) < 2:
            samples.append(dict(case=desc, info=info))
    return dict(name="c17_solve_path", evaluations=n, distinct_nontrivial=n,
                rule="one evaluation = one real PEP.solve(wrapper=<scripted wrapper>) on a class scenario (all 24 "
                     "classes, plus scenarios with vacuous conditions 0 <= 0 / 0 == 0), return_primal_or_dual in "
                     "{dual, primal}, dimension_reduction_heuristic in {None, trace, logdet2}; the wrapper returns the "
                     "signed tag of the send position as multiplier; every tabulated constraint must have been sent "
                     "exactly once and its dual-table entry must be the tag of that position; distinct by case seed",
                mismatches=[], n_mismatch=0, problems=problems[:5], n_problems=len(problems), samples=samples,
                distribution=dict(options=hist, tabulated_constraints=tab, vacuous_tabulated_constraints=vac,
                                  seconds=round(time.time() - t0, 1)))


def correspondence(tier, seed, corpus):
    st = S.run_stream("c17_classgen", tier, seed + 17, on_case=_direct)
    # regression case of the repaired F-C17b (reported as a violation if it ever fails again)
    reg = S.regression_linear_adjoint()
    solved, info = solved_instances()
    st["problems"] = (reg + solved + st["problems"])[:5]
    st["n_problems"] += len(reg) + len(solved)
    st["evaluations"] += 1 + len(info)
    st["distribution"]["regression_cases"] = {"F-C17b (LinearOperator adjoint equalities named + tabulated)": "fails" if reg else "passes"}
    st["distribution"]["solved_instances"] = info
    st["rule"] += ("; injected dual values are -1/4, 3/4, -5/4, ... by position (both signs, distinct, non-zero) and "
                   "each dual-table entry is compared with the value stored on the object at that pair; plus two solved "
                   "instances with equality tables (negative multipliers)")
    return [st, solve_stream(tier, seed)]


def search(tier, seed):
    """after a generation with injected dual values (tag = position), get_class_constraints_duals() must equal the
    table predicted from the pair positions (through the names); unnamed points so that names are unique"""
    rng = random.Random(seed + 171717)
    n = 40 if tier == "quick" else 400
    for name in K.ALL_CLASSES:
        for _ in range(n):
            cs = rng.getrandbits(48)
            inp, dump, meta, func = S.class_case(cs, name)
            for d in S.check_tables(name, func):
                if S.known_trigger_c17(name, d):
                    continue
                return dict(kind="C17-" + d["kind"], detail=d, case=dict(kind="class", cls=name, case_seed=cs, forced=None))
    for _ in range(4 * n):
        cs = rng.getrandbits(48)
        inp, dump, meta, func = S.raw_case(cs)
        for d in S.check_tables(meta["cls"], func):
            return dict(kind="C17-" + d["kind"], detail=d, case=dict(kind="raw", cls=None, case_seed=cs))
    return None


REPLAYS = {}


def known_findings(known):
    out = []
    for k in known:
        fn = REPLAYS.get(k["id"])
        if fn is None:
            continue
        still, what = fn()
        out.append((k["id"], bool(still), k["what"] + " [" + what + "]"))
    return out


def is_known(payload, known):
    ids = {k["id"] for k in known}
    d = payload.get("detail") or {}
    cls = (payload.get("case") or {}).get("cls")
    fid = S.known_trigger_c17(cls, d) if cls else None
    return fid if fid in ids else None


def replay(payload):
    case = payload.get("case")
    if payload.get("kind") == "regression-F-C17b":
        return bool(S.regression_linear_adjoint())
    if case and "scenario" in case:
        return bool(solve_case(case)[0])
    if payload.get("kind", "").startswith("C17-solved-"):
        return bool(solved_instances()[0])
    if payload.get("kind") == "implementation-raised" and case:
        try:
            S.rebuild(case)
            return False
        except Exception:
            return True
    if case:
        inp, dump, meta, func = S.rebuild(case)
        for d in S.check_tables(meta["cls"], func):
            if not S.known_trigger_c17(meta["cls"], d):
                return True
        return not S.model_agrees(case)
    for b in payload.get("broken", []):
        for m in b.get("first", []):
            if isinstance(m, dict) and m.get("case") and not S.model_agrees(m["case"]):
                return True
    return search("quick", int(payload.get("seed", 0))) is not None
