"""C16 — no number without a solution: failures are reported, not fabricated.

Proof side: Props/C16.v over Gen/Handlers.v (control structure of every eval / eval_dual, the tail of
_solve_with_wrapper, the option checks).
Streams (all on the real PEPit):
  accessors-vs-model   malformed stream: every accessor (eval, eval_dual) on every object kind (leaf / derived point of any
                       depth, leaf / derived expression incl. inner products, constants only, ill-formed keys, constraint,
                       PSDMatrix) in every state (before any solve, after an unbounded / infeasible solve, after a successful
                       solve, after new leaves were added, after PEP() was re-created); the object graph is snapshotted
                       (which _value is set, vector lengths), Model.Accessors predicts the CLASS of the outcome
                       (value | exception class), compared exactly.  Property oracle on the implementation: an object
                       that reaches a value-less leaf must raise ValueError.
  solve-outcomes       unbounded / infeasible / well-posed models with cvxpy+SCS under default and crippled iteration
                       limits: solve() returns None exactly when cvxpy reports an infeasible/unbounded status, and then no
                       leaf has a value and no constraint a dual.
  options              every invalid option value; exception class vs. Model.Accessors.check_option.
"""
import random
import subprocess
import sys
import os
import json

from . import histlib as H
from .common import run_cases, model_output, coq_str, VERIF, CoqError

GEN_DEPS = ["Handlers.v", "tr_handlers", "Entry.v"]
TRUSTED = [
    "translator/tr_entry.py: PEP.solve (back-end selection, forwarding of every option, defaults of both signatures) -> Gen/Entry.v",
    "translator/tr_handlers.py: the three accessor shapes, the plan of the tail of _solve_with_wrapper (grammar in its docstring)",
    "Model/Accessors.v: Python's try/except matching (run_try), numpy's (in-place or out-of-place, as generated) add and dot on 1-D arrays reduced to their "
    "lengths; only the CLASS of an outcome is modelled (a number / a vector / a matrix vs. an exception class)",
    "`assert` statements are modelled as raising AssertionError (python -O is outside the model)",
    "cvxpy: variables and expression values are None when the status is infeasible / unbounded (*_inaccurate included)",
    "option validation: generated facts for PEP.solve's two string options (Gen/Handlers.v opt_return, opt_heuristic) and for "
    "the primitive steps' option dispatches (step_option_dispatches: else branch raises ValueError, no return precedes the "
    "dispatch; theorem C16_step_options); the wrappers' check of a constraint's sense and every crossing with numeric "
    "boundary values rest on the api-options stream alone",
]
ASSUMES = [
    "C16_none: the wrapper reports `no finite optimum` by returning None as value (CvxpyWrapper: cvxpy's objective.value); "
    "MosekWrapper never does (finding F-C16b, observed on the MOSEK stand-in only)",
    "objects are built through the API (keys of an expression: leaf expressions, pairs of leaf points, 1) for C16_unsolved's "
    "expression / constraint / LMI clauses; the point clause needs no such assumption",
]

IMPORTS = ["From PV Require Import Model.Accessors Gen.Handlers."]
EXN_NAME = ("fun e : exn => match e with ValueError => \"ValueError\" | TypeError => \"TypeError\" "
            "| AssertionError => \"AssertionError\" | RuntimeError => \"RuntimeError\" | KeyError => \"KeyError\" "
            "| AttributeError => \"AttributeError\" | Exception => \"Exception\" | OtherExn s => s end")
RES = "(fun r : result => match r with Value _ => DS \"value\" | Raise e => DS ((%s) e) end)" % EXN_NAME
# input: (dim, (which accessor on which object))
RUN = ("fun t : nat * (point + expr + (constraint * bool) + (psd * bool)) => let dim := fst t in "
       "match snd t with "
       "| inl (inl (inl p)) => %(R)s (eval_point h_Point_eval dim p) "
       "| inl (inl (inr e)) => %(R)s (eval_expr h_Point_eval h_Expression_eval dim e) "
       "| inl (inr (c, false)) => %(R)s (eval_constraint h_Point_eval h_Expression_eval h_Constraint_eval dim c) "
       "| inl (inr (c, true)) => %(R)s (eval_dual_constraint h_Constraint_eval_dual c) "
       "| inr (m, false) => %(R)s (eval_psd h_Point_eval h_Expression_eval h_PSDMatrix_eval dim m) "
       "| inr (m, true) => %(R)s (eval_dual_psd h_PSDMatrix_eval_dual m) end") % dict(R=RES)
INPUT_TYPE = "(nat * (point + expr + (constraint * bool) + (psd * bool)))"


# ------------------------------------------------------------------------------------------ snapshots
def _len(v):
    try:
        return int(v.shape[0]) if getattr(v, "shape", None) else None
    except Exception:
        return None


def snap_point(p, depth=0):
    """('PLeaf', n|None) | ('PLin', n|None, [..])"""
    n = None if p._value is None else (_len(p._value) if _len(p._value) is not None else 1)
    if p.get_is_leaf():
        return ("PLeaf", n)
    assert depth < 12
    return ("PLin", n, [snap_point(k, depth + 1) for k in p.decomposition_dict])


def snap_expr(e, depth=0):
    from PEPit import Expression, Point
    if e.get_is_leaf():
        return ("ELeaf", e._value is not None)
    terms = []
    for k in e.decomposition_dict:
        if type(k) == Expression:
            terms.append(("TExpr", snap_expr(k, depth + 1)))
        elif type(k) == tuple and len(k) == 2 and all(isinstance(x, Point) for x in k):
            terms.append(("TInner", snap_point(k[0]), snap_point(k[1])))
        elif not isinstance(k, (Expression, tuple)) and k == 1:
            terms.append(("TConst",))
        else:
            terms.append(("TBad",))
    return ("ELin", e._value is not None, terms)


def coq_point(s):
    if s[0] == "PLeaf":
        return "PLeaf %s" % ("None" if s[1] is None else "(Some %d%%nat)" % s[1])
    return "PLin %s [%s]" % ("None" if s[1] is None else "(Some %d%%nat)" % s[1], "; ".join(coq_point(t) for t in s[2]))


def coq_expr(s):
    if s[0] == "ELeaf":
        return "ELeaf %s" % ("true" if s[1] else "false")
    ts = []
    for t in s[2]:
        if t[0] == "TExpr":
            ts.append("TExpr (%s)" % coq_expr(t[1]))
        elif t[0] == "TInner":
            ts.append("TInner (%s) (%s)" % (coq_point(t[1]), coq_point(t[2])))
        else:
            ts.append(t[0])
    return "ELin %s [%s]" % ("true" if s[1] else "false", "; ".join(ts))


def pending_p(s):
    if s[0] == "PLeaf":
        return s[1] is None
    return s[1] is None and any(pending_p(t) for t in s[2])


def pending_e(s):
    if s[0] == "ELeaf":
        return not s[1]
    if s[1]:
        return False
    for t in s[2]:
        if t[0] == "TExpr" and t[1] == ("ELeaf", False):
            return True
        if t[0] == "TInner" and (pending_p(t[1]) or pending_p(t[2])):
            return True
    return False


def wf_e(s):
    if s[0] == "ELeaf":
        return True
    for t in s[2]:
        if t[0] == "TBad":
            return False
        if t[0] == "TExpr" and t[1][0] != "ELeaf":
            return False
        if t[0] == "TInner" and (t[1][0] != "PLeaf" or t[2][0] != "PLeaf"):
            return False
    return True


def has_leaf_p(s):
    """mentions a leaf point, caches ignored"""
    return s[0] == "PLeaf" or any(has_leaf_p(t) for t in s[2])


def has_leaf_e(s):
    """mentions a leaf, caches ignored"""
    return s[0] == "ELeaf" or any(t[0] in ("TExpr", "TInner") for t in s[2])


def outcome(f):
    try:
        r = f()
    except BaseException as e:      # the CLASS is what is compared
        return type(e).__name__
    return "value"


class Case(object):
    """one accessor call on one object: builds the model input BEFORE the call (eval caches)"""

    def __init__(self, label, obj, dual=False, never_solved=False):
        """never_solved: nothing has been solved successfully since the process-wide reset that created the object's
        leaves -- then even a cache must not answer (a cache can only have been filled by a fabricated value)"""
        from PEPit import Point, Expression, Constraint, PSDMatrix
        self.label, self.dual = label, dual
        dim = Point.counter
        if isinstance(obj, Point):
            s = snap_point(obj)
            self.kind, lit = "point", "inl (inl (inl (%s)))" % coq_point(s)
            self.must_raise = pending_p(s) or (never_solved and has_leaf_p(s))
        elif isinstance(obj, Expression):
            s = snap_expr(obj)
            self.kind, lit = "expression", "inl (inl (inr (%s)))" % coq_expr(s)
            self.must_raise = wf_e(s) and (pending_e(s) or (never_solved and has_leaf_e(s)))
        elif isinstance(obj, Constraint):
            s = snap_expr(obj.expression)
            rec = "{| c_cached := %s ; c_dual := %s ; c_expr := %s |}" % (
                "true" if obj._value is not None else "false",
                "true" if obj._dual_variable_value is not None else "false", coq_expr(s))
            self.kind, lit = "constraint", "inl (inr (%s, %s))" % (rec, "true" if dual else "false")
            self.must_raise = (never_solved or obj._dual_variable_value is None) if dual else \
                ((obj._value is None and wf_e(s) and pending_e(s)) or (never_solved and wf_e(s) and has_leaf_e(s)))
        elif isinstance(obj, PSDMatrix):
            n0, n1 = obj.shape
            ss = [[snap_expr(obj[i, j]) for j in range(n1)] for i in range(n0)]
            rec = "{| m_cached := %s ; m_dual := %s ; m_entries := [%s] |}" % (
                "true" if obj._value is not None else "false",
                "true" if obj._dual_variable_value is not None else "false",
                "; ".join("[" + "; ".join(coq_expr(s) for s in row) + "]" for row in ss))
            self.kind, lit = "psd", "inr (%s, %s)" % (rec, "true" if dual else "false")
            flat = [s for row in ss for s in row]
            # the public attribute entries_dual_variable_value is a dual too: None until a solve succeeded
            self.entries_dual_set = getattr(obj, "entries_dual_variable_value", None) is not None
            self.entries_dual_must_be_none = never_solved
            self.must_raise = (never_solved or obj._dual_variable_value is None) if dual else \
                (all(wf_e(s) for s in flat) and ((obj._value is None and any(pending_e(s) for s in flat))
                                                 or (never_solved and any(has_leaf_e(s) for s in flat))))
        else:
            raise TypeError(obj)
        if not hasattr(self, "entries_dual_set"):
            self.entries_dual_set, self.entries_dual_must_be_none = False, False
        self.snapshot = lit
        self.input = "(%d%%nat, %s)" % (dim, lit)
        self.got = outcome(obj.eval_dual if dual else obj.eval)


# ------------------------------------------------------------------------------------------ object zoo
def zoo(rng, points, exprs, tag):
    """objects of every kind over the given leaf points / leaf expressions; returns [(label, object)]"""
    from PEPit import Point, Expression, Constraint, PSDMatrix
    P, X = points, exprs
    out = []
    x, y = rng.choice(P), rng.choice(P)
    z = rng.choice(P)
    e, f = rng.choice(X), rng.choice(X)
    out += [("leaf point", x), ("derived point", x - y), ("derived point", (x - y) / 2 + 0.5 * z),
            ("derived point zero weight", 0 * x), ("derived point no leaf", x - x)]
    # arbitrary depth through the constructor (the code accepts any Point as key)
    d = x - y
    for depth in range(rng.randint(1, 4)):
        d = Point(is_leaf=False, decomposition_dict={d: 0.5, rng.choice(P): 2.})
    out.append(("nested point", d))
    out.append(("nested point over x-x", Point(is_leaf=False, decomposition_dict={(x - x): 1.})))
    out += [("leaf expression", e), ("derived expression", e + 1), ("inner product", x * y),
            ("squared norm", (x - y) ** 2), ("derived expression", 2 * e - f / 4 + x * z - 3),
            ("constants only", Expression(is_leaf=False, decomposition_dict={1: 3.})),
            ("constants only", e - e), ("constant first", 1 + e), ("inner product first", x * y + e)]
    # ill-formed keys (the constructor accepts any dict)
    out += [("bad key", Expression(is_leaf=False, decomposition_dict={"k": 1.})),
            ("bad key after leaf", Expression(is_leaf=False, decomposition_dict={e: 1., 2: 1.})),
            ("non-leaf expression key", Expression(is_leaf=False, decomposition_dict={(e + 1): 1.})),
            ("non-leaf point key", Expression(is_leaf=False, decomposition_dict={(x - y, z): 1.})),
            ("non-leaf point key", Expression(is_leaf=False, decomposition_dict={(z, x - y): 1., 1: 2.}))]
    out += [("constraint", e <= 1), ("constraint", (x - y) ** 2 <= 1), ("constraint", e == f + x * y),
            ("constraint constants only", (e - e) <= 1), ("constraint", 1 >= x * y),
            ("constraint bad key", Constraint(Expression(is_leaf=False, decomposition_dict={"k": 1.}), "inequality"))]
    t = rng.choice(X)
    out += [("psd", PSDMatrix([[e, 1], [1, f]])), ("psd", PSDMatrix([[x ** 2, x * y], [x * y, y ** 2]])),
            ("psd", PSDMatrix([[(x - y) ** 2, t, 0], [t, 1., e], [0, e, 2]])),
            ("psd constants and one leaf", PSDMatrix([[1., 0], [0, t]])),
            ("psd constants only", PSDMatrix([[e - e + 1, 0], [0, e - e + 2]]))]
    return [("%s / %s" % (tag, l), o) for l, o in out]


def cases_of(objs, never_solved=False, twice=True):
    """every accessor on every object, each a second time (a failed first call must not leave a value behind)"""
    from PEPit import Constraint, PSDMatrix
    cs = []
    for label, o in objs:
        cs.append(Case(label, o, never_solved=never_solved))
        if isinstance(o, (Constraint, PSDMatrix)):
            cs.append(Case(label + " (dual)", o, dual=True, never_solved=never_solved))
    if twice:
        for label, o in objs:
            cs.append(Case(label + " (second call)", o, never_solved=never_solved))
            if isinstance(o, (Constraint, PSDMatrix)):
                cs.append(Case(label + " (dual, second call)", o, dual=True, never_solved=never_solved))
    return cs


def model_of(kind, rng):
    """a small model; returns (pep, points, exprs)"""
    from PEPit import PEP, Point, Expression
    from PEPit.functions import SmoothConvexFunction, SmoothStronglyConvexFunction
    pep = PEP()
    cls, params = rng.choice([(SmoothConvexFunction, dict(L=1.)), (SmoothConvexFunction, dict(L=2.)),
                              (SmoothStronglyConvexFunction, dict(mu=0.5, L=2.))])
    f = pep.declare_function(cls, **params)
    xs = f.stationary_point()
    x0 = pep.set_initial_point()
    if kind == "infeasible":
        # infeasible through a constraint over variables, or through a requirement that cancels to a FALSE CONSTANT
        # (seed C16-9: constant constraints silently dropped, the model then has a finite value)
        sub = rng.choice(["negative-radius", "constant", "cancelled-square", "cancelled-values", "zero-step"])
        if sub == "negative-radius":
            pep.set_initial_condition((x0 - xs) ** 2 <= -1)
        else:
            pep.set_initial_condition((x0 - xs) ** 2 <= 1)
            if sub == "constant":
                pep.add_constraint(Expression(is_leaf=False, decomposition_dict={1: 1.}) <= 0)
            elif sub == "cancelled-square":
                pep.add_constraint((x0 - x0) ** 2 == 2)
            elif sub == "cancelled-values":
                f.add_constraint(f(x0) - f(x0) >= 0.5)
            else:
                pep.add_constraint(((x0 - 0 * f.gradient(x0)) - x0) ** 2 >= 1)
    elif kind == "solvable":
        pep.set_initial_condition((x0 - xs) ** 2 <= 1)
    x = x0
    gs = []
    for _ in range(rng.randint(1, 2)):
        g, fx = f.oracle(x)
        gs.append(g)
        x = x - 0.5 * g
    t = Expression()
    if rng.random() < 0.5:
        pep.add_psd_matrix([[(x - xs) ** 2, t], [t, 1]])
    if kind == "unbounded":
        pep.set_performance_metric((x0 - xs) ** 2)
    else:
        pep.set_performance_metric(f(x) - f(xs))
    return pep, [x0, xs] + gs, [f(x), f(xs), t]


def scenario(name, rng):
    """returns (cases, problems) for one scenario instance"""
    from PEPit import PEP, Point, Expression
    problems = []
    H.register()
    if name == "before":
        PEP()
        P = [Point() for _ in range(rng.randint(2, 4))]
        X = [Expression() for _ in range(rng.randint(2, 3))]
        return cases_of(zoo(rng, P, X, "before any solve"), never_solved=True), problems
    if name == "built":
        pep, P, X = model_of("solvable", rng)
        return cases_of(zoo(rng, P, X, "model built, not solved"), never_solved=True), problems
    if name in ("unbounded", "infeasible"):
        pep, P, X = model_of(name, rng)
        objs = zoo(rng, P, X, "after %s solve" % name)
        with H.captured_output():
            ret = pep.solve(verbose=rng.choice([0, 1]))
        if ret is not None:
            problems.append(dict(kind="number-for-%s-model" % name, returned=ret, status=pep.wrapper.prob.status))
        valued = [p.counter for p in Point.list_of_leaf_points if p._value is not None] + \
                 [e.counter for e in Expression.list_of_leaf_expressions if e._value is not None]
        duals = [c.counter for c in pep._list_of_constraints_sent_to_wrapper if c._dual_variable_value is not None]
        duals += ["lmi %d" % m.counter for m in pep._list_of_psd_sent_to_wrapper
                  if m._dual_variable_value is not None or getattr(m, "entries_dual_variable_value", None) is not None]
        if ret is None and (valued or duals):
            problems.append(dict(kind="failed-solve-assigned", model=name, valued_leaves=valued, duals=duals))
        objs += [("after %s solve / objective" % name, pep.objective)]
        objs += [("after %s solve / sent constraint" % name, c) for c in pep._list_of_constraints_sent_to_wrapper[:4]]
        objs += [("after %s solve / sent psd" % name, m) for m in pep._list_of_psd_sent_to_wrapper[:2]]
        return cases_of(objs, never_solved=(ret is None)), problems
    if name in ("solved", "solved_new_leaves", "recreated"):
        pep, P, X = model_of("solvable", rng)
        held = zoo(rng, P, X, "held since before the solve")
        with H.captured_output():
            ret = pep.solve(verbose=0)
        if ret is None:
            return [], problems
        cs = cases_of(held[:12])                      # these now have values (and get cached)
        if name == "solved":
            cs += cases_of(zoo(rng, P, X, "after a successful solve"))
            cs += cases_of([("sent constraint", c) for c in pep._list_of_constraints_sent_to_wrapper[:4]])
            cs += cases_of([("sent psd", m) for m in pep._list_of_psd_sent_to_wrapper[:2]])
            return cs, problems
        if name == "solved_new_leaves":
            newP = [Point() for _ in range(rng.randint(1, 2))]
            newX = [Expression()]
            cs += cases_of(zoo(rng, P + newP, X + newX, "solved, then new leaves (mixed)"))
            cs += cases_of(zoo(rng, newP, newX, "solved, then new leaves (new only)"))
            cs += cases_of(held[12:20])
            return cs, problems
        # recreated: a NEW PEP(); objects of the old model keep their values (reported as behaviour, C12/C13 territory)
        PEP()
        newP = [Point() for _ in range(rng.randint(1, 3))]
        newX = [Expression() for _ in range(2)]
        cs += cases_of(zoo(rng, newP, newX, "new model after PEP() re-created"))
        cs += cases_of(zoo(rng, P, X, "old model's leaves after PEP() re-created"))
        cs += cases_of(zoo(rng, P + newP, X + newX, "old and new leaves mixed"))
        return cs, problems
    raise KeyError(name)


SCENARIOS = ["before", "built", "unbounded", "infeasible", "solved", "solved_new_leaves", "recreated"]


def stream_accessors(tier, seed, extra=()):
    rng = random.Random(seed * 6700417 + 16)
    reps = 2 if tier == "quick" else 14
    cases, problems = [], []
    hist_kind, hist_out, hist_scen = {}, {}, {}
    for rep in range(reps):
        for name in SCENARIOS:
            try:
                cs, pr = scenario(name, rng)
            except Exception as e:
                problems.append(dict(kind="scenario-crashed", scenario=name, error=repr(e)))
                continue
            problems += pr
            hist_scen[name] = hist_scen.get(name, 0) + len(cs)
            for c in cs:
                cases.append(c)
                hist_kind[c.kind + (" dual" if c.dual else "")] = hist_kind.get(c.kind + (" dual" if c.dual else ""), 0) + 1
                hist_out[c.got] = hist_out.get(c.got, 0) + 1
                if c.must_raise and c.got != "ValueError":
                    problems.append(dict(kind="unsolved-accessor", object_kind=c.kind, label=c.label, dual=c.dual,
                                         got=c.got, snapshot=c.input, scenario=name))
                if c.entries_dual_must_be_none and c.entries_dual_set:
                    problems.append(dict(kind="unsolved-accessor", object_kind="psd entries_dual_variable_value",
                                         label=c.label, dual=True, got="value", snapshot=c.input, scenario=name))
    try:
        bad = run_cases("c16a", IMPORTS, RUN, [(c.input, c.got) for c in cases], input_type=INPUT_TYPE)
        unavailable = None
    except CoqError as e:       # the model does not build (a generated definition is missing): reported as a broken stream
        bad, unavailable = [], str(e)[-1500:]
    mism = []
    if unavailable:
        mism.append(dict(kind="model-unavailable", error=unavailable))
    for i in bad[:5]:
        c = cases[i]
        mism.append(dict(kind="model-differs", label=c.label, object_kind=c.kind, dual=c.dual, input=c.input,
                         implementation=c.got, model=model_output(IMPORTS, RUN, c.input)))
    old_valued = sum(1 for c in cases if "old model's leaves" in c.label and c.got == "value")
    return dict(name="accessors-vs-model", evaluations=len(cases),
                distinct_nontrivial=len(set((c.input, c.dual) for c in cases if c.kind != "point" or "PLin" in c.input)),
                rule="one evaluation = one accessor call on one object in one state; compared: the class of the outcome "
                     "(value | exception class) predicted by Model.Accessors on the snapshot of the object graph; "
                     "non-trivial = not a bare leaf; distinct by snapshot and accessor",
                samples=[dict(label=c.label, input=c.input, outcome=c.got) for c in cases[3:5]],
                n_mismatch=len(bad) + (1 if unavailable else 0), mismatches=mism, problems=problems[:5],
                n_problems=len(problems),
                distribution=dict(object_kinds=hist_kind, outcomes=hist_out, per_scenario=hist_scen,
                                  must_raise_ValueError=sum(1 for c in cases if c.must_raise),
                                  psd_entries_dual_checked_None=sum(1 for c in cases if c.entries_dual_must_be_none),
                                  psd_entries_dual_set_after_solve=sum(1 for c in cases if c.entries_dual_set),
                                  behaviour_old_objects_keep_values_after_new_PEP=old_valued,
                                  behaviour_leafless_objects_have_a_value=sum(
                                      1 for c in cases if ("constants only" in c.label or "no leaf" in c.label) and c.got == "value")))


# ------------------------------------------------------------------------------------------ solve outcomes
INF_OR_UNB = {"infeasible", "infeasible_inaccurate", "unbounded", "unbounded_inaccurate", "infeasible_or_unbounded"}


def stream_solve(tier, seed):
    from PEPit import Point, Expression
    rng = random.Random(seed * 2147483647 + 1616)
    n = 18 if tier == "quick" else 120
    problems, samples = [], []
    stat = {}
    evaluations = 0
    for i in range(n):
        kind = ["unbounded", "infeasible", "solvable"][i % 3]
        iters = rng.choice([None, None, None, 3, 10, 30, 100])
        pep, P, X = model_of(kind, rng)
        kw = {} if iters is None else dict(max_iters=iters)
        with H.captured_output():
            try:
                ret = pep.solve(verbose=rng.choice([0, 1]), **kw)
                err = None
            except Exception as e:
                ret, err = None, type(e).__name__
        evaluations += 1
        status = getattr(getattr(pep.wrapper, "prob", None), "status", None)
        key = "%s/%s/%s" % (kind, "default" if iters is None else "max_iters", status if err is None else err)
        stat[key] = stat.get(key, 0) + 1
        if err is not None:
            # cvxpy raises SolverError when SCS fails outright: an error, not a number
            continue
        valued = [p.counter for p in Point.list_of_leaf_points if p._value is not None] + \
                 [e.counter for e in Expression.list_of_leaf_expressions if e._value is not None]
        duals = [c.counter for c in pep._list_of_constraints_sent_to_wrapper if c._dual_variable_value is not None]
        rec = dict(model=kind, max_iters=iters, status=status, returned=ret)
        if status in INF_OR_UNB:
            if ret is not None:
                problems.append(dict(kind="number-without-solution", **rec))
            if valued or duals:
                problems.append(dict(kind="failed-solve-assigned", valued_leaves=valued, duals=duals, **rec))
            for lab, o in [("leaf point", P[0]), ("objective", pep.objective),
                           ("constraint", pep._list_of_constraints_sent_to_wrapper[0])]:
                got = outcome(o.eval)
                if got != "ValueError":
                    problems.append(dict(kind="unsolved-accessor", object_kind=lab, got=got, **rec))
        elif iters is None and kind != "solvable":
            # default solver settings: an unbounded / infeasible model must not produce a number
            problems.append(dict(kind="number-without-solution", **rec))
        if len(samples) < 2:
            samples.append(rec)
    return dict(name="solve-outcomes", evaluations=evaluations, distinct_nontrivial=len(stat),
                rule="one evaluation = one PEP.solve (cvxpy/SCS) of an unbounded, infeasible or well-posed model under "
                     "default or crippled iteration limits; checked: None is returned and nothing is assigned exactly when "
                     "cvxpy's status is infeasible/unbounded(_inaccurate); distinct = (model kind, limit, status)",
                samples=samples, n_mismatch=0, mismatches=[], problems=problems[:5], n_problems=len(problems),
                distribution=dict(model_limit_status=stat))


# ------------------------------------------------------------------------------------------ options
def stream_options(tier, seed):
    from PEPit import PEP, Expression, Constraint
    rng = random.Random(seed + 1600)
    problems, rows, cases = [], [], []
    behaviour = {}

    def solve_with(**kw):
        pep, P, X = model_of("solvable", rng)
        with H.captured_output():
            return pep.solve(verbose=0, **kw)

    # return_primal_or_dual / dimension_reduction_heuristic: string options checked by the model
    for opt, var, values in (
            ("opt_return", "return_primal_or_dual", ["both", "Dual", "PRIMAL", "", "dual ", "primal_dual", "dual", "primal"]),
            ("opt_heuristic", "dimension_reduction_heuristic", ["rank", "Trace", "log", "tracee", "LOGDET2", "trace", "logdet1"])):
        for v in values:
            got = outcome(lambda: solve_with(**{var: v}))
            rows.append(dict(option=var, value=v, outcome=got))
            if var == "dimension_reduction_heuristic" and v == "":
                continue
            cases.append(("(%s, %s)" % (opt, coq_str(v)), got))
    try:
        bad = run_cases("c16o", IMPORTS,
                        "fun t : option_check * string => %s (check_option (fst t) (snd t))" % RES, cases,
                        input_type="(option_check * string)")
        mism = [dict(kind="model-differs", input=cases[i][0], implementation=cases[i][1]) for i in bad[:5]]
    except CoqError as e:
        bad, mism = [0], [dict(kind="model-unavailable", error=str(e)[-1500:])]
    # values that must be rejected with SOME error (class reported as behaviour), and silent acceptances
    others = [
        ("return_primal_or_dual=None", lambda: solve_with(return_primal_or_dual=None), True),
        ("return_primal_or_dual=1", lambda: solve_with(return_primal_or_dual=1), True),
        ("dimension_reduction_heuristic='logdet'", lambda: solve_with(dimension_reduction_heuristic="logdet"), True),
        ("dimension_reduction_heuristic='logdetx'", lambda: solve_with(dimension_reduction_heuristic="logdetx"), True),
        ("dimension_reduction_heuristic='logdet1.5'", lambda: solve_with(dimension_reduction_heuristic="logdet1.5"), True),
        ("dimension_reduction_heuristic=5", lambda: solve_with(dimension_reduction_heuristic=5), True),
        ("dimension_reduction_heuristic='' (falsy: treated as None)", lambda: solve_with(dimension_reduction_heuristic=""), False),
        ("dimension_reduction_heuristic='logdet-1' (no iteration)", lambda: solve_with(dimension_reduction_heuristic="logdet-1"), False),
        ("wrapper='no_such_solver' (documented fallback to cvxpy)", lambda: solve_with(wrapper="no_such_solver"), False),
        ("wrapper='numpy' (installed package, not a wrapper)", lambda: solve_with(wrapper="numpy"), True),
        ("wrapper=3", lambda: solve_with(wrapper=3), True),
        ("Constraint(sense='lower')", lambda: Constraint(Expression(), "lower"), True),
        ("Constraint(sense=None)", lambda: Constraint(Expression(), None), True),
        ("declare_block_partition(d=0)", lambda: PEP().declare_block_partition(d=0), True),
        ("declare_block_partition(d=-2)", lambda: PEP().declare_block_partition(d=-2), True),
        ("declare_block_partition(d=1.5)", lambda: PEP().declare_block_partition(d=1.5), True),
        ("declare_block_partition(d='2')", lambda: PEP().declare_block_partition(d="2"), True),
        ("declare_block_partition(d=True) (bool is an int)", lambda: PEP().declare_block_partition(d=True), False),
        ("add_constraint(3)", lambda: PEP().add_constraint(3), True),
        ("set_performance_metric(1.0)", lambda: PEP().set_performance_metric(1.0), True),
    ]
    for label, f, must_fail in others:
        got = outcome(f)
        behaviour[label] = got
        rows.append(dict(option=label, outcome=got))
        if must_fail and got == "value":
            problems.append(dict(kind="invalid-option-accepted", option=label, outcome=got))
    for r in rows:
        if r.get("option") in ("return_primal_or_dual", "dimension_reduction_heuristic") and \
                r["value"] not in ("dual", "primal", "trace", "logdet1") and r["outcome"] != "ValueError":
            problems.append(dict(kind="invalid-option-accepted", option=r["option"], value=r["value"], outcome=r["outcome"]))
    return dict(name="options", evaluations=len(rows), distinct_nontrivial=len(rows),
                rule="one evaluation = one call with one option value; the two string options are compared with "
                     "Model.Accessors.check_option over the generated accept lists; every other invalid value must end in "
                     "an exception (its class is reported)",
                samples=rows[:2], n_mismatch=len(bad), mismatches=mism, problems=problems[:5], n_problems=len(problems),
                distribution=dict(behaviour=behaviour,
                                  note="an invalid return_primal_or_dual / heuristic is detected only AFTER the solver ran"))


# ------------------------------------------------------------------------------------------ options of the whole public API
INVALID_STRINGS = ["relativ", "Absolute", "ABSOLUTE", " absolute", "absolute ", "", None, 0, 1, 2.5, "PD_gapiii", "pd_gapI",
                   "PD_gap", "PD_gapIV", True, ("absolute",), "relative\n"]
NUMERIC_BOUNDARY = [0, 0.0, -1, -0.5, 1, 1.0, 0.25, 1e9, 1e-12]


def documented_value_errors():
    """every docstring under PEPit/ (examples excluded) that mentions ValueError, and every `raise ValueError` site"""
    import ast
    import glob
    from .common import REPO
    root = os.path.join(REPO, "PEPit")
    doc, sites = [], []
    for p in sorted(glob.glob(os.path.join(root, "**", "*.py"), recursive=True)):
        rel = os.path.relpath(p, root)
        if rel.split(os.sep)[0] == "examples":
            continue
        tree = ast.parse(open(p).read())
        for n in ast.walk(tree):
            if isinstance(n, (ast.FunctionDef, ast.ClassDef)):
                d = ast.get_docstring(n) or ""
                if "ValueError" in d and isinstance(n, ast.FunctionDef):
                    doc.append("%s:%s" % (rel, n.name))
                if isinstance(n, ast.FunctionDef):
                    for r in ast.walk(n):
                        if isinstance(r, ast.Raise) and r.exc is not None and "ValueError" in ast.unparse(r.exc)[:12]:
                            sites.append("%s:%s" % (rel, n.name))
    return sorted(set(doc)), sorted(set(sites))


def stream_api_options(tier, seed):
    """every option parameter of the public API that is validated with a ValueError (PEP.solve: return_primal_or_dual,
    dimension_reduction_heuristic; inexact_gradient_step: notion; inexact_proximal_step: opt; the wrappers' check of a
    constraint's sense), invalid values CROSSED with boundary values of the numeric parameters and with the other options:
    an invalid value must raise ValueError on every combination, a valid one must not raise."""
    from PEPit import PEP, Point, Expression, Constraint
    from PEPit.functions import SmoothConvexFunction, ConvexFunction
    from PEPit import primitive_steps as ps
    rng = random.Random(seed * 31337 + 160)
    problems, rows = [], {}
    n = 0

    def record(api, kind, got):
        rows.setdefault(api, {}).setdefault(kind, {})
        rows[api][kind][got] = rows[api][kind].get(got, 0) + 1

    def fresh(smooth=True):
        pep = PEP()
        f = pep.declare_function(SmoothConvexFunction, L=1.) if smooth else pep.declare_function(ConvexFunction)
        x0 = pep.set_initial_point()
        return pep, f, x0

    # ---- inexact_gradient_step(x0, f, gamma, epsilon, notion)
    for notion in INVALID_STRINGS + ["absolute", "relative"]:
        valid = notion in ("absolute", "relative") and isinstance(notion, str)
        for eps in NUMERIC_BOUNDARY:
            for gamma in ([0, 1, -1, 1e6, 0.5] if tier != "quick" else [0, 1, -1, 1e6]):
                pep, f, x0 = fresh()
                before = (len(f.list_of_points), Point.counter)
                got = outcome(lambda: ps.inexact_gradient_step(x0, f, gamma=gamma, epsilon=eps, notion=notion))
                n += 1
                record("inexact_gradient_step(notion)", "valid" if valid else "invalid", got)
                if (not valid and got != "ValueError") or (valid and got != "value"):
                    problems.append(dict(kind="invalid-option-accepted" if not valid else "valid-option-rejected",
                                         api="inexact_gradient_step", option="notion", value=repr(notion), epsilon=eps,
                                         gamma=gamma, outcome=got))
    # ---- inexact_proximal_step(x0, f, gamma, opt)
    for opt in INVALID_STRINGS + ["PD_gapI", "PD_gapII", "PD_gapIII"]:
        valid = opt in ("PD_gapI", "PD_gapII", "PD_gapIII") and isinstance(opt, str)
        for gamma in NUMERIC_BOUNDARY:
            for smooth in (True, False):
                pep, f, x0 = fresh(smooth)
                got = outcome(lambda: ps.inexact_proximal_step(x0, f, gamma, opt=opt))
                n += 1
                record("inexact_proximal_step(opt)", "valid" if valid else "invalid", got)
                if not valid and got != "ValueError":
                    problems.append(dict(kind="invalid-option-accepted", api="inexact_proximal_step", option="opt",
                                         value=repr(opt), gamma=gamma, outcome=got))
                if valid and got != "value" and gamma != 0:
                    problems.append(dict(kind="valid-option-rejected", api="inexact_proximal_step", option="opt",
                                         value=repr(opt), gamma=gamma, outcome=got))
    # ---- the wrappers' check of a constraint's sense (the constructor asserts; the attribute can be overwritten)
    for sense in ["lower", "Equality", "", None, 0, "inequality", "equality"]:
        valid = sense in ("inequality", "equality")
        pep, P, X = model_of("solvable", rng)
        c = (P[0] ** 2 <= 4)
        c.equality_or_inequality = sense
        pep.add_constraint(c)
        with H.captured_output():
            got = outcome(lambda: pep.solve(verbose=0))
        n += 1
        record("wrapper.send_constraint_to_solver(sense)", "valid" if valid else "invalid", got)
        if not valid and got != "ValueError":
            problems.append(dict(kind="invalid-option-accepted", api="CvxpyWrapper.send_constraint_to_solver",
                                 option="equality_or_inequality", value=repr(sense), outcome=got))
    # ---- PEP.solve: each string option crossed with the other options
    combos = []
    for v in ["both", "Dual", "", None, 1]:
        for other in (dict(), dict(dimension_reduction_heuristic="trace"), dict(wrapper="no_such_solver"), dict(verbose=1)):
            combos.append(("return_primal_or_dual", v, other))
    for v in ["rank", "Trace", "log", 7]:
        for other in (dict(return_primal_or_dual="primal"), dict(return_primal_or_dual="dual", verbose=1)):
            combos.append(("dimension_reduction_heuristic", v, other))
    if tier == "quick":
        combos = combos[::2]
    for var, v, other in combos:
        pep, P, X = model_of("solvable", rng)
        kw = dict(other)
        kw[var] = v
        kw.setdefault("verbose", 0)
        with H.captured_output():
            got = outcome(lambda: pep.solve(**kw))
        n += 1
        record("PEP.solve(%s)" % var, "invalid", got)
        ok = got == "ValueError" or (var == "dimension_reduction_heuristic" and v == 7 and got == "AttributeError")
        if not ok:
            problems.append(dict(kind="invalid-option-accepted", api="PEP.solve", option=var, value=repr(v), others=other,
                                 outcome=got))
    doc, sites = documented_value_errors()
    return dict(name="api-options", evaluations=n, distinct_nontrivial=n,
                rule="one evaluation = one call of one API entry with one (option value, numeric boundary values, other "
                     "options) combination; an invalid option value must raise ValueError, a valid one must not raise",
                samples=[dict(api="inexact_gradient_step", notion="relativ", epsilon=0, gamma=1,
                              outcome=rows.get("inexact_gradient_step(notion)", {}).get("invalid"))],
                n_mismatch=0, mismatches=[], problems=problems[:5], n_problems=len(problems),
                distribution=dict(outcomes=rows, docstrings_mentioning_ValueError=doc, raise_ValueError_sites=sites,
                                  invalid_values=[repr(v) for v in INVALID_STRINGS],
                                  numeric_boundary=NUMERIC_BOUNDARY,
                                  note="a number as heuristic raises AttributeError (`.startswith`), also an error"))


def correspondence(tier, seed, corpus=()):
    problems = []
    for payload in corpus or []:
        if replay(payload):
            problems.append(dict(kind="corpus-case-fails", case=payload))
    out = []
    for name, fn in (("accessors-vs-model", stream_accessors), ("solve-outcomes", stream_solve), ("options", stream_options),
                     ("api-options", stream_api_options)):
        try:
            s = fn(tier, seed)
        except Exception:       # one stream dying must not hide what the others found
            import traceback
            s = dict(name=name, evaluations=0, distinct_nontrivial=0, rule="(stream crashed)", samples=["(stream crashed)"],
                     n_mismatch=1, mismatches=[dict(kind="stream-crashed", error=traceback.format_exc()[-1500:])],
                     problems=[], distribution={})
        out.append(s)
    out[0]["problems"] = (problems + out[0]["problems"])[:5]
    return out


# ------------------------------------------------------------------------------------------ search / findings / replay
def search(tier, seed):
    """more scenario instances, implementation only: any unsolved object that returns a number or raises another class"""
    rng = random.Random(seed + 161616)
    for rep in range(6 if tier == "quick" else 60):
        for name in SCENARIOS:
            try:
                cs, pr = scenario(name, rng)
            except Exception as e:
                return dict(kind="scenario-crashed", scenario=name, error=repr(e))
            if pr:
                return pr[0]
            for c in cs:
                if c.must_raise and c.got != "ValueError":
                    return dict(kind="unsolved-accessor", object_kind=c.kind, label=c.label, dual=c.dual, got=c.got,
                                snapshot=c.input, scenario=name)
                if c.entries_dual_must_be_none and c.entries_dual_set:
                    return dict(kind="unsolved-accessor", object_kind="psd entries_dual_variable_value", label=c.label,
                                dual=True, got="value", snapshot=c.input, scenario=name)
    s = stream_solve("quick", seed + 3)
    if s["problems"]:
        return s["problems"][0]
    s = stream_options("quick", seed + 3)
    if s["problems"]:
        return s["problems"][0]
    s = stream_api_options("quick", seed + 3)
    if s["problems"]:
        return s["problems"][0]
    return None


def mosek_standin_outcome():
    """unbounded / infeasible model through wrapper='mosek' on the MOSEK stand-in, in a separate process (the stand-in
    must not leak into this one).  Returns dict or None when the stand-in is unavailable."""
    code = (
        "import json\n"
        "from harness import moseklib\n"
        "moseklib.install()\n"
        "from PEPit import PEP\n"
        "from PEPit.functions import SmoothConvexFunction\n"
        "out = {}\n"
        "for kind in ('unbounded', 'infeasible'):\n"
        "    pep = PEP(); f = pep.declare_function(SmoothConvexFunction, L=1.)\n"
        "    xs = f.stationary_point(); x0 = pep.set_initial_point()\n"
        "    if kind == 'infeasible': pep.set_initial_condition((x0 - xs) ** 2 <= -1)\n"
        "    pep.set_performance_metric((x0 - xs) ** 2)\n"
        "    try:\n"
        "        with moseklib.quiet(): r = pep.solve(wrapper='mosek', verbose=0)\n"
        "        out[kind] = dict(ret=r, wrapper=pep.wrapper_name)\n"
        "    except Exception as e:\n"
        "        out[kind] = dict(raised=type(e).__name__)\n"
        "print('@@' + json.dumps(out))\n")
    try:
        p = subprocess.run([sys.executable, "-W", "ignore", "-c", code], capture_output=True, text=True, timeout=300,
                           env=dict(os.environ), cwd=VERIF)
        line = [l for l in p.stdout.split("\n") if l.startswith("@@")]
        return json.loads(line[-1][2:]) if line else None
    except Exception:
        return None


def known_findings(known):
    out = []
    for k in known:
        if k["id"] == "F-C16b":
            try:
                r = mosek_standin_outcome()
            except Exception:
                r = None
            if r is None:
                out.append((k["id"], True, "MOSEK stand-in unavailable; by source inspection MosekWrapper.solve returns xx[-2] "
                            "without looking at the problem status"))
            else:
                still = any(v.get("wrapper") == "mosek" and v.get("ret") is not None for v in r.values())
                out.append((k["id"], still, "wrapper='mosek' (MOSEK stand-in; real MOSEK is not installed): solve() of an unbounded "
                            "model returns %r, of an infeasible model %r instead of None"
                            % (r.get("unbounded", {}).get("ret"), r.get("infeasible", {}).get("ret"))))
        else:
            out.append((k["id"], False, "no replay known for this id"))
    return out


def is_known(payload, known):
    if payload.get("kind") == "number-without-solution" and payload.get("wrapper") == "mosek" \
            and any(k["id"] == "F-C16b" for k in known):
        return "F-C16b"
    return None


def replay(payload):
    kind = payload.get("kind")
    if kind in ("unsolved-accessor", "scenario-crashed", "failed-solve-assigned", "number-for-unbounded-model",
                "number-for-infeasible-model") and payload.get("scenario") in SCENARIOS + [None]:
        names = [payload["scenario"]] if payload.get("scenario") else SCENARIOS
        rng = random.Random(int(payload.get("seed", 0)) + 161616)
        for rep in range(8):
            for name in names:
                try:
                    cs, pr = scenario(name, rng)
                except Exception:
                    return True
                if pr:
                    return True
                for c in cs:
                    if c.must_raise and c.got != "ValueError" and \
                            (payload.get("object_kind") in (None, c.kind)):
                        return True
                    if c.entries_dual_must_be_none and c.entries_dual_set:
                        return True
        if kind != "unsolved-accessor" or payload.get("scenario"):
            return False
    if kind in ("number-without-solution", "unsolved-accessor", "failed-solve-assigned"):
        return bool(stream_solve("quick", int(payload.get("seed", 0)))["problems"])
    if kind in ("invalid-option-accepted", "valid-option-rejected") and payload.get("api") == "inexact_gradient_step":
        from PEPit import PEP
        from PEPit.functions import SmoothConvexFunction
        from PEPit import primitive_steps as ps
        pep = PEP()
        f = pep.declare_function(SmoothConvexFunction, L=1.)
        x0 = pep.set_initial_point()
        v = eval(payload["value"], {})
        got = outcome(lambda: ps.inexact_gradient_step(x0, f, gamma=payload["gamma"], epsilon=payload["epsilon"], notion=v))
        return got != ("ValueError" if kind == "invalid-option-accepted" else "value")
    if kind in ("invalid-option-accepted", "valid-option-rejected") and payload.get("api"):
        return bool(stream_api_options("quick", int(payload.get("seed", 0)))["problems"])
    if kind == "invalid-option-accepted":
        return bool(stream_options("quick", int(payload.get("seed", 0)))["problems"])
    if kind == "model-differs":
        bad = run_cases("c16r", IMPORTS, RUN, [(payload["input"], payload["implementation"])], input_type=INPUT_TYPE)
        return bool(bad)
    if "broken" in payload:
        from .p_c12 import _obligations_broken
        return _obligations_broken("C16", GEN_DEPS)
    return False
