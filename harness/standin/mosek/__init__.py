"""Stand-in for the (absent) MOSEK Optimizer API for Python -- verification harness ONLY.

This package is put on sys.path by harness/moseklib.py inside the C11 check and nowhere else.  It
implements exactly the API surface PEPit's MosekWrapper uses, with MOSEK's documented Optimizer-API
semantics, RECORDS every call (name, arguments, return value; numpy arrays converted to lists) and
solves the recorded problem with cvxpy + SCS in `Task.optimize`.

MOSEK itself cannot be consulted here.  Everything below is therefore an ASSUMPTION of property C11,
written down so it can be read and challenged:

A1 (problem denoted by a task; MOSEK Optimizer API manual, "Semidefinite optimization")
      maximize | minimize     sum_j c_j x_j + sum_j <Cbar_j, Xbar_j>
      subject to   lc_i <= sum_j a_ij x_j + sum_j <Abar_ij, Xbar_j> <= uc_i        (rows, `appendcons`)
                   lx_j <= x_j <= ux_j                                              (`appendvars`)
                   Xbar_j symmetric positive semidefinite                            (`appendbarvars`)
   * `appendvars(n)`: the new variables are FIXED AT ZERO until `putvarbound` says otherwise.
   * `appendcons(n)`: the new rows are free (no bound) until `putconbound`, all coefficients zero.
   * bound keys: fr (none), up (only uc), lo (only lc), fx (lc = uc = the given lower bound), ra (both).
   * `appendsparsesymmat(dim, subi, subj, val)` stores a symmetric dim x dim matrix given by
     lower-triangular triples: (i, j, v) with i > j stands for v at (i, j) AND at (j, i); (i, i, v)
     for v on the diagonal; an upper-triangular triple, an out-of-range index or a repeated position
     is an error.  It returns the index of the stored matrix (0, 1, 2, ... in creation order).
   * `putbaraij(i, j, sub, w)` SETS (replaces, does not add) Abar_ij := sum_k w[k] * E[sub[k]];
     the dimension of each E[sub[k]] must equal the dimension of bar variable j, row i and bar
     variable j must exist.  `putbarcj(j, sub, w)` likewise SETS Cbar_j.
   * `putaijlist(subi, subj, val)` SETS a[subi[k], subj[k]] := val[k]; `putclist(subj, val)` SETS c.
   * `getmaxnumvar()`: PEPit asserts `getmaxnumvar() == Expression.counter + 1` right after one
     `appendvars(Expression.counter + 1)` on a fresh task and its authors ran that with real MOSEK,
     so the stand-in returns the number of variables.
   * `getbarxj / getbarsj(whichsol, j)`: the lower triangle, columns stored one after the other
     ((0,0),(1,0),...,(n-1,0),(1,1),...): n(n+1)/2 numbers.
   * integer index arguments are converted to the API's native 32-bit int; a value that does not
     fit raises (OverflowError, as numpy does).

A2 (dual solution and its signs; MOSEK manual "Duality for semidefinite optimization" + "A
   primal-dual optimal solution ... maximization problems").  For BOTH objective senses
        y_i       = (slc)_i - (suc)_i
        A^T y + slx - sux = c                 (so  sum_i y_i a_ij = c_j  on every FREE variable j)
        Sbar_j    = Cbar_j - sum_i y_i Abar_ij
   and the objective sense only decides the cone of the slacks: minimisation  slc,suc,slx,sux >= 0,
   Sbar_j PSD;  MAXIMISATION  slc,suc,slx,sux <= 0,  Sbar_j NEGATIVE semidefinite.
   Consequences for a maximisation problem (PEPit's): the multiplier of an upper-bounded row
   (boundkey.up) is y_i = -(suc)_i >= 0, of an fx row is a free-signed y_i, and -Sbar_j is PSD.
   This is what PEPit's `_recover_dual_values` relies on (it takes y[row] as is and NEGATES getbarsj)
   and what tests/test_wrappers.py::TestWrapperMOSEK (test_dual_sign_in_equality_constraints,
   test_proof_consistency, test_recover_dual_values) expects: with these signs
        objective - tau  =  sum_rows y_row * (row expression)  -  <(-Sbar_0), G>  -  sum_k <(-Sbar_k), M_k>
   holds identically, y >= 0 on inequalities, -Sbar PSD.
   Entry rows of an LMI (e_ij - M[i][j] == -alpha): by the same dual equation Sbar_M = - sum_ij y_ij * coupling_ij
   = sym(y), so PEPit's `entries_dual_variable_value = -y[first:first+n*n]` has symmetric part -Sbar_M, the reported
   dual.  The SIGN of y on these rows is taken from MOSEK's documented dual equation as implemented here, not from
   the real solver (absent).
   `optimize` obtains y from cvxpy's multipliers (cvxpy's convention, checked at import time of the
   harness on a 2-variable LP: for Maximize, `lhs <= u` and `lhs == b` give y = dual_value, `l <= lhs`
   gives y = -dual_value; for Minimize all signs flip) and then DEFINES
   Sbar_j := Cbar_j - sum_i y_i Abar_ij from the recorded data, i.e. by MOSEK's own dual equation.

A3 (status) after `optimize` an interior-point solution is always defined: for an infeasible or
   unbounded problem MOSEK stores a Farkas certificate and `getxx/getbarxj/gety/getbarsj` still
   return numbers (no exception, no None); `getprosta` tells which case.  The stand-in returns
   zeros for the certificate (its numerical content is never used by the check).
"""
import numpy as np

__standin__ = True
__version__ = "0.standin"

LOG = []             # every call of every Env / Task since the last reset(): (obj_id, name, args, ret)
OPTS = dict(eps_abs=1e-9, eps_rel=1e-9, max_iters=200000)    # SCS options used by Task.optimize
LAST_TASK = [None]
SCRIPTED = [False]      # harness switch: optimize() stores a scripted solution (xx = 1, 2, 3, ...; barx = dyadic PSD; y, bars = distinct dyadic numbers)


def reset():
    del LOG[:]
    LAST_TASK[0] = None


class Error(Exception):
    """mosek.Error: raised on every API misuse (rescode kept as `.errno`, message as `.msg`)."""

    def __init__(self, errno, msg=""):
        Exception.__init__(self, "%s: %s" % (errno, msg))
        self.errno = errno
        self.msg = msg


class _Enum(object):
    def __init__(self, kind, name):
        self.kind, self.name = kind, name

    def __repr__(self):
        return "%s.%s" % (self.kind, self.name)


def _enum(kind, names):
    cls = type(kind, (object,), {})
    for n in names:
        setattr(cls, n, _Enum(kind, n))
    return cls


boundkey = _enum("boundkey", ["lo", "up", "fx", "fr", "ra"])
soltype = _enum("soltype", ["itr", "bas", "itg"])
objsense = _enum("objsense", ["minimize", "maximize"])
streamtype = _enum("streamtype", ["log", "msg", "err", "wrn"])
feature = _enum("feature", ["pts", "pton"])
prosta = _enum("prosta", ["unknown", "prim_and_dual_feas", "prim_feas", "dual_feas", "prim_infeas", "dual_infeas",
                          "prim_and_dual_infeas", "ill_posed", "prim_infeas_or_unbounded"])
solsta = _enum("solsta", ["unknown", "optimal", "prim_feas", "dual_feas", "prim_and_dual_feas", "prim_infeas_cer",
                          "dual_infeas_cer", "prim_illposed_cer", "dual_illposed_cer", "integer_optimal"])
rescode = _enum("rescode", ["ok", "trm_stall", "trm_max_iterations"])

_I32 = np.iinfo(np.int32)


def _plain(x):
    """argument -> JSON-like value for the log"""
    if isinstance(x, _Enum):
        return repr(x)
    if isinstance(x, np.ndarray):
        return [_plain(v) for v in x.tolist()]
    if isinstance(x, (list, tuple)):
        return [_plain(v) for v in x]
    if isinstance(x, np.generic):
        return x.item()
    if callable(x):
        return "<callable>"
    return x


def _idx(x, what):
    """a scalar index argument in the API's native int (int32); raises as numpy does when it does not fit"""
    if isinstance(x, (bool, np.bool_)) or not isinstance(x, (int, np.integer)):
        raise TypeError("%s: integer expected, got %r" % (what, type(x)))
    return int(np.array(int(x), dtype=np.int32))       # OverflowError when out of bounds for int32


def _idx_array(a, what):
    a = np.asarray(a)
    if a.ndim != 1:
        raise ValueError("%s: one-dimensional array expected" % what)
    if a.size == 0:
        return []
    if a.dtype.kind not in "iu":
        raise TypeError("%s: integer array expected, got dtype %s" % (what, a.dtype))
    out = []
    for v in a.tolist():
        if v < _I32.min or v > _I32.max:
            raise OverflowError("Python integer %d out of bounds for int32" % v)
        out.append(int(v))
    return out


def _val_array(a, what):
    a = np.asarray(a, dtype=float)
    if a.ndim != 1:
        raise ValueError("%s: one-dimensional array expected" % what)
    return [float(v) for v in a.tolist()]


def _scripted_psd(d, salt):
    """a dense dyadic PSD matrix B B^T (harness switch SCRIPTED only), different at every optimize"""
    B = np.array([[((3 * i + 5 * j + salt) % 7 - 3) / 4.0 for j in range(d)] for i in range(d)]).reshape(d, d)
    return B @ B.T


def _scripted_sym(d, j):
    """a dyadic symmetric matrix, different for every bar variable (harness switch SCRIPTED only)"""
    return np.array([[((a + 1) * (b + 1) + 2 * j + abs(a - b)) / 8.0 for b in range(d)] for a in range(d)]).reshape(d, d)


class Env(object):
    def __init__(self, *a, **k):
        self._id = "env"
        LOG.append((self._id, "Env", [], None))

    def _rec(self, name, args, ret=None):
        LOG.append((self._id, name, [_plain(a) for a in args], _plain(ret)))
        return ret

    def Task(self, maxnumcon=0, maxnumvar=0):
        t = Task(self, maxnumcon, maxnumvar)
        return t

    def checkoutlicense(self, feat):
        self._rec("checkoutlicense", [feat])

    def checkinlicense(self, feat):
        self._rec("checkinlicense", [feat])

    def expirylicenses(self):
        return self._rec("expirylicenses", [], 3650)

    def __enter__(self):
        return self

    def __exit__(self, *a):
        return False


class Task(object):
    _count = [0]

    def __init__(self, env=None, maxnumcon=0, maxnumvar=0):
        Task._count[0] += 1
        self._id = "task%d" % Task._count[0]
        self.calls = []             # this task's own log: (name, args, ret)
        self.barvar = []            # dimensions
        self.varbound = []          # per variable (key, lo, up)
        self.conbound = []          # per row (key, lo, up)
        self.symmat = []            # (dim, {(i,j): v})  lower-triangular
        self.barA = {}              # (row, barvar) -> [(symmat index, weight)]
        self.A = {}                 # (row, var) -> value
        self.c = {}                 # var -> value
        self.barC = {}              # barvar -> [(symmat index, weight)]
        self.sense = objsense.minimize        # MOSEK's default objective sense
        self.sol = None
        self.streams = {}
        self.diagnostics = {}
        self.objective_history = []
        LAST_TASK[0] = self
        self._rec("Task", [])

    def _rec(self, name, args, ret=None):
        entry = (name, [_plain(a) for a in args], _plain(ret))
        self.calls.append(entry)
        LOG.append((self._id,) + entry)
        return ret

    def __enter__(self):
        return self

    def __exit__(self, *a):
        return False

    # ------------------------------------------------------------------ building the problem
    def set_Stream(self, whichstream, func):
        self._rec("set_Stream", [whichstream, func])
        self.streams[whichstream.name] = func

    def appendbarvars(self, dim):
        self._rec("appendbarvars", [dim])
        for d in _idx_array(dim, "appendbarvars(dim)"):
            if d < 0:
                raise Error("err_barvar_dim", "negative dimension")
            self.barvar.append(d)

    def appendvars(self, num):
        self._rec("appendvars", [num])
        n = _idx(num, "appendvars(num)")
        if n < 0:
            raise Error("err_too_small_maxnumvar", "negative number of variables")
        self.varbound += [("fx", 0.0, 0.0)] * n            # fixed at zero

    def appendcons(self, num):
        self._rec("appendcons", [num])
        n = _idx(num, "appendcons(num)")
        if n < 0:
            raise Error("err_too_small_maxnumcon", "negative number of constraints")
        self.conbound += [("fr", 0.0, 0.0)] * n            # free

    def getnumcon(self):
        return self._rec("getnumcon", [], len(self.conbound))

    def getnumvar(self):
        return self._rec("getnumvar", [], len(self.varbound))

    def getnumbarvar(self):
        return self._rec("getnumbarvar", [], len(self.barvar))

    def getmaxnumvar(self):
        return self._rec("getmaxnumvar", [], len(self.varbound))

    def putvarbound(self, j, bkx, blx, bux):
        self._rec("putvarbound", [j, bkx, blx, bux])
        j = _idx(j, "putvarbound(j)")
        if not 0 <= j < len(self.varbound):
            raise Error("err_index_is_too_large", "variable index %d out of range" % j)
        self.varbound[j] = (bkx.name, float(blx), float(bux))

    def putconbound(self, i, bkc, blc, buc):
        self._rec("putconbound", [i, bkc, blc, buc])
        i = _idx(i, "putconbound(i)")
        if not 0 <= i < len(self.conbound):
            raise Error("err_index_is_too_large", "constraint index %d out of range" % i)
        self.conbound[i] = (bkc.name, float(blc), float(buc))

    def appendsparsesymmat(self, dim, subi, subj, valij):
        # the return value is known before validation only when validation passes: record at the end
        args = [dim, subi, subj, valij]
        try:
            d = _idx(dim, "appendsparsesymmat(dim)")
            si = _idx_array(subi, "appendsparsesymmat(subi)")
            sj = _idx_array(subj, "appendsparsesymmat(subj)")
            vv = _val_array(valij, "appendsparsesymmat(valij)")
            if not (len(si) == len(sj) == len(vv)):
                raise Error("err_arg_is_too_small", "subi, subj, valij of different lengths")
            ent = {}
            for i, j, v in zip(si, sj, vv):
                if not (0 <= i < d and 0 <= j < d):
                    raise Error("err_index_is_too_large", "symmetric matrix index (%d,%d) outside dimension %d" % (i, j, d))
                if i < j:
                    raise Error("err_sym_mat_not_lower_tringular", "entry (%d,%d) is above the diagonal" % (i, j))
                if (i, j) in ent:
                    raise Error("err_sym_mat_duplicate", "entry (%d,%d) given twice" % (i, j))
                ent[(i, j)] = v
        except Exception:
            self._rec("appendsparsesymmat", args, "raised")
            raise
        self.symmat.append((d, ent))
        return self._rec("appendsparsesymmat", args, len(self.symmat) - 1)

    def _combination(self, j, sub, weights, what):
        s = _idx_array(sub, what + "(sub)")
        w = _val_array(weights, what + "(weights)")
        if len(s) != len(w):
            raise Error("err_arg_is_too_small", "sub and weights of different lengths")
        if not 0 <= j < len(self.barvar):
            raise Error("err_index_is_too_large", "%s: bar variable index %d out of range (%d bar variables)"
                        % (what, j, len(self.barvar)))
        for k in s:
            if not 0 <= k < len(self.symmat):
                raise Error("err_index_is_too_large", "symmetric matrix index %d out of range" % k)
            if self.symmat[k][0] != self.barvar[j]:
                raise Error("err_invalid_sym_mat_dim", "%s: matrix of dimension %d for bar variable %d of dimension %d"
                            % (what, self.symmat[k][0], j, self.barvar[j]))
        return list(zip(s, w))

    def putbaraij(self, i, j, sub, weights):
        self._rec("putbaraij", [i, j, sub, weights])
        i = _idx(i, "putbaraij(i)")
        j = _idx(j, "putbaraij(j)")
        if not 0 <= i < len(self.conbound):
            raise Error("err_index_is_too_large", "constraint index %d out of range" % i)
        self.barA[(i, j)] = self._combination(j, sub, weights, "putbaraij")       # SET

    def putbarcj(self, j, sub, weights):
        self._rec("putbarcj", [j, sub, weights])
        j = _idx(j, "putbarcj(j)")
        self.barC[j] = self._combination(j, sub, weights, "putbarcj")             # SET

    def putaijlist(self, subi, subj, valij):
        self._rec("putaijlist", [subi, subj, valij])
        si = _idx_array(subi, "putaijlist(subi)")
        sj = _idx_array(subj, "putaijlist(subj)")
        vv = _val_array(valij, "putaijlist(valij)")
        if not (len(si) == len(sj) == len(vv)):
            raise Error("err_arg_is_too_small", "subi, subj, valij of different lengths")
        for i, j, v in zip(si, sj, vv):
            if not 0 <= i < len(self.conbound):
                raise Error("err_index_is_too_large", "constraint index %d out of range" % i)
            if not 0 <= j < len(self.varbound):
                raise Error("err_index_is_too_large", "variable index %d out of range" % j)
            self.A[(i, j)] = v

    def putclist(self, subj, val):
        self._rec("putclist", [subj, val])
        sj = _idx_array(subj, "putclist(subj)")
        vv = _val_array(val, "putclist(val)")
        if len(sj) != len(vv):
            raise Error("err_arg_is_too_small", "subj, val of different lengths")
        for j, v in zip(sj, vv):
            if not 0 <= j < len(self.varbound):
                raise Error("err_index_is_too_large", "variable index %d out of range" % j)
            self.c[j] = v

    def putobjsense(self, sense):
        self._rec("putobjsense", [sense])
        self.sense = sense

    def solutionsummary(self, whichstream):
        self._rec("solutionsummary", [whichstream])

    # ------------------------------------------------------------------ the denoted problem
    def dense_symmat(self, k):
        d, ent = self.symmat[k]
        M = np.zeros((d, d))
        for (i, j), v in ent.items():
            M[i, j] = v
            M[j, i] = v
        return M

    def dense_combination(self, j, comb):
        M = np.zeros((self.barvar[j], self.barvar[j]))
        for k, w in comb:
            M = M + w * self.dense_symmat(k)
        return M

    def denoted(self):
        """the SDP this task denotes under A1, as plain data (used by the harness to compare with the model)"""
        rows = []
        for i, (bk, lo, up) in enumerate(self.conbound):
            lin = sorted((j, v) for (r, j), v in self.A.items() if r == i)
            bar = sorted((j, self.dense_combination(j, comb).tolist()) for (r, j), comb in self.barA.items() if r == i)
            rows.append(dict(bound=(bk, lo, up), lin=lin, bar=bar))
        return dict(barvar=list(self.barvar), varbound=list(self.varbound), rows=rows,
                    c=sorted(self.c.items()), barc=sorted((j, self.dense_combination(j, comb).tolist())
                                                          for j, comb in self.barC.items()),
                    sense=self.sense.name)

    # ------------------------------------------------------------------ solving
    def optimize(self, *args, **kwargs):
        self._rec("optimize", list(args) + ([kwargs] if kwargs else []))
        if args or kwargs:
            # the real Task.optimize() takes no argument
            raise TypeError("optimize() takes 1 positional argument but %d were given" % (1 + len(args) + len(kwargs)))
        nvar, ncon = len(self.varbound), len(self.conbound)
        # the objective this optimize() is handed, under A1 (for the harness: one entry per solve)
        self.objective_history.append(dict(sense=self.sense.name, c=sorted(self.c.items()),
                                           barc={j: self.dense_combination(j, comb) for j, comb in self.barC.items()}))
        if SCRIPTED[0]:
            self.diagnostics = dict(status="scripted")
            self.sol = dict(prosta=prosta.prim_and_dual_feas, solsta=solsta.optimal, obj=0.0,
                            xx=np.arange(1, nvar + 1, dtype=float),
                            y=np.array([(3 * i + 1) / 16.0 for i in range(ncon)]),
                            barx=[_scripted_psd(d, len(self.calls)) for d in self.barvar],
                            bars=[_scripted_sym(d, j) for j, d in enumerate(self.barvar)])
            return rescode.ok
        import cvxpy as cp
        maximize = (self.sense is objsense.maximize)
        x = cp.Variable(nvar) if nvar else None
        X = [cp.Variable((d, d), PSD=True) if d > 0 else None for d in self.barvar]
        cons = []
        row_con = []         # per row: list of (cvxpy constraint, factor turning its multiplier into y for MAXIMISE)

        def row_expr(i):
            e = 0
            for (r, j), v in self.A.items():
                if r == i and v != 0:
                    e = e + v * x[j]
            for (r, j), comb in self.barA.items():
                if r == i and self.barvar[j] > 0:
                    e = e + cp.sum(cp.multiply(self.dense_combination(j, comb), X[j]))
            return e

        for i, (bk, lo, up) in enumerate(self.conbound):
            e = row_expr(i)
            mine = []
            if isinstance(e, int):          # an empty row: the constant 0
                e = cp.Constant(0.0)
            if bk == "fx":
                k = (e == lo)
                mine.append((k, 1.0))
            if bk in ("up", "ra"):
                k = (e <= up)
                mine.append((k, 1.0))
            if bk in ("lo", "ra"):
                k = (lo <= e)
                mine.append((k, -1.0))
            cons += [k for k, _ in mine]
            row_con.append(mine)
        for j, (bk, lo, up) in enumerate(self.varbound):
            if bk == "fx":
                cons.append(x[j] == lo)
            if bk in ("up", "ra"):
                cons.append(x[j] <= up)
            if bk in ("lo", "ra"):
                cons.append(lo <= x[j])
        obj = 0
        for j, v in self.c.items():
            if v != 0:
                obj = obj + v * x[j]
        for j, comb in self.barC.items():
            if self.barvar[j] > 0:
                obj = obj + cp.sum(cp.multiply(self.dense_combination(j, comb), X[j]))
        if isinstance(obj, (int, float)):
            obj = cp.Constant(0.0)
        prob = cp.Problem(cp.Maximize(obj) if maximize else cp.Minimize(obj), cons)
        try:
            prob.solve(solver="SCS", **OPTS)
            status = prob.status
        except cp.error.SolverError as e:
            status = "solver_error: %s" % e
        self.diagnostics = dict(status=status, sense=self.sense.name)
        zeros = dict(xx=np.zeros(nvar), y=np.zeros(ncon),
                     barx=[np.zeros((d, d)) for d in self.barvar], bars=[np.zeros((d, d)) for d in self.barvar])
        if status in ("optimal", "optimal_inaccurate"):
            sign = 1.0 if maximize else -1.0
            y = np.zeros(ncon)
            for i, mine in enumerate(row_con):
                for k, f in mine:
                    dv = k.dual_value
                    y[i] += sign * f * float(np.asarray(dv).reshape(-1)[0] if dv is not None else 0.0)
            bars = []
            for j, d in enumerate(self.barvar):
                S = self.dense_combination(j, self.barC.get(j, []))
                for (r, jj), comb in self.barA.items():
                    if jj == j:
                        S = S - y[r] * self.dense_combination(j, comb)
                bars.append(S)
            xx = np.array(x.value, dtype=float).reshape(-1) if nvar else np.zeros(0)
            # validation of A2 on this solve: stationarity on the free variables
            aty = np.zeros(nvar)
            for (r, j), v in self.A.items():
                aty[j] += y[r] * v
            cvec = np.zeros(nvar)
            for j, v in self.c.items():
                cvec[j] = v
            free = [j for j, b in enumerate(self.varbound) if b[0] == "fr"]
            self.diagnostics["stationarity_free_vars"] = float(max([abs(aty[j] - cvec[j]) for j in free] + [0.0]))
            self.diagnostics["bars_definite"] = float(max([np.max(np.linalg.eigvalsh((1 if maximize else -1) * S))
                                                            for S in bars if S.size] + [0.0]))
            self.sol = dict(prosta=prosta.prim_and_dual_feas, solsta=solsta.optimal, xx=xx, y=y,
                            barx=[np.array(Xj.value) if Xj is not None else np.zeros((0, 0)) for Xj in X], bars=bars,
                            obj=float(prob.value))
        elif status in ("infeasible", "infeasible_inaccurate"):
            self.sol = dict(prosta=prosta.prim_infeas, solsta=solsta.prim_infeas_cer, obj=0.0, **zeros)
        elif status in ("unbounded", "unbounded_inaccurate"):
            self.sol = dict(prosta=prosta.dual_infeas, solsta=solsta.dual_infeas_cer, obj=0.0, **zeros)
        else:
            self.sol = dict(prosta=prosta.unknown, solsta=solsta.unknown, obj=0.0, **zeros)
        return rescode.ok

    def _need_sol(self, whichsol):
        if whichsol is not soltype.itr or self.sol is None:
            raise Error("err_undef_solution", "the interior-point solution is not defined")
        return self.sol

    @staticmethod
    def _tril(M):
        n = M.shape[0]
        return [float(M[i, j]) for j in range(n) for i in range(j, n)]       # columns one after the other

    def getbarxj(self, whichsol, j):
        self._rec("getbarxj", [whichsol, j],
                  self._tril(self.sol["barx"][j]) if self.sol is not None and isinstance(j, int)
                  and 0 <= j < len(self.barvar) else None)
        s = self._need_sol(whichsol)
        j = _idx(j, "getbarxj(j)")
        if not 0 <= j < len(self.barvar):
            raise Error("err_index_is_too_large", "bar variable index %d out of range" % j)
        return self._tril(s["barx"][j])

    def getbarsj(self, whichsol, j):
        self._rec("getbarsj", [whichsol, j],
                  self._tril(self.sol["bars"][j]) if self.sol is not None and isinstance(j, int)
                  and 0 <= j < len(self.barvar) else None)
        s = self._need_sol(whichsol)
        j = _idx(j, "getbarsj(j)")
        if not 0 <= j < len(self.barvar):
            raise Error("err_index_is_too_large", "bar variable index %d out of range" % j)
        return self._tril(s["bars"][j])

    def getxx(self, whichsol):
        xx = [float(v) for v in self._need_sol(whichsol)["xx"]] if self.sol is not None else None
        self._rec("getxx", [whichsol], xx)
        return [float(v) for v in self._need_sol(whichsol)["xx"]]

    def gety(self, whichsol):
        self._rec("gety", [whichsol], [float(v) for v in self.sol["y"]] if self.sol is not None else None)
        return [float(v) for v in self._need_sol(whichsol)["y"]]

    def getprosta(self, whichsol):
        self._rec("getprosta", [whichsol])
        return self._need_sol(whichsol)["prosta"]

    def getsolsta(self, whichsol):
        self._rec("getsolsta", [whichsol])
        return self._need_sol(whichsol)["solsta"]

    def getprimalobj(self, whichsol):
        self._rec("getprimalobj", [whichsol])
        return self._need_sol(whichsol)["obj"]
