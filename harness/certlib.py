"""Shared helpers of the C01 / C14 checks: seeded random declared models built through real PEPit objects,
a CvxpyWrapper whose `solve` is scripted (no solver: synthetic duals tagged by the position of the cvxpy
constraint, injected with cvxpy's own `Constraint.save_dual_value`, and an injected rational PSD Gram matrix),
canonical dumps of what the real post-solve code exposes, and the Coq literals of the same case.

Everything of PEPit that is exercised is the real code: PEP._solve_with_wrapper from its first line (send order),
CvxpyWrapper.set_main_variables / send_* / generate_problem / _recover_dual_values / prepare_heuristic / heuristic,
Wrapper.assign_dual_values, PEP._eval_points_and_function_values, PEP.check_feasibility.  Only
`CvxpyWrapper.solve` is replaced (subclass defined here, nothing in /repo is touched)."""
import io
import contextlib
from fractions import Fraction

import numpy as np

from . import terms as T
from .common import Q, coq_q, coq_nat, coq_list, to_fraction

DEN = 8


# ------------------------------------------------------------------------------------------ model generator
def rnd_coef(rng, zero_ok=True):
    # badly scaled rows are part of the stream (seed C01-9: rows "equilibrated" when a coefficient exceeds 1e3 and
    # their multipliers never scaled back): numerators up to 2^17 over 8, i.e. coefficients up to 16384, and tiny
    # ones (1/8 next to them), all exactly representable
    if rng.random() < 0.06:
        return rng.choice([1 << 13, -(1 << 14), 3 << 13, 1 << 17, -(5 << 12)])
    while True:
        c = rng.choice([-16, -12, -8, -5, -4, -3, -2, -1, 0, 1, 2, 3, 4, 6, 8, 8, 12, 16])
        if c or (zero_ok and rng.random() < 0.5):
            return c


def gen_expr(rng, npts, nf, nterms=None, const=True):
    """an expression as a list of terms ["F", k, c] | ["G", i, j, c] | ["C", c]  (c = numerator over 8)"""
    n = nterms if nterms is not None else rng.choice([1, 1, 2, 2, 3, 4, 5])
    out = []
    for _ in range(n):
        r = rng.random()
        if r < 0.35 and nf > 0:
            out.append(["F", rng.randrange(nf), rnd_coef(rng)])
        elif r < 0.85:
            out.append(["G", rng.randrange(npts), rng.randrange(npts), rnd_coef(rng)])
        elif const:
            out.append(["C", rnd_coef(rng)])
        else:
            out.append(["G", rng.randrange(npts), rng.randrange(npts), rnd_coef(rng)])
    return out


def mirror(e):
    return [["G", t[2], t[1], t[3]] if t[0] == "G" else list(t) for t in e]


def gen_matrix(rng, npts, nf, kind=None):
    """kind: 'sym-same' (entry objects shared), 'sym-rebuilt' (equal dictionaries, other key order),
    'sym-gram' (mirrored inner products: equal only on symmetric G), 'asym'"""
    n = rng.choice([1, 2, 2, 3, 3, 4])
    kind = kind or rng.choice(["sym-same", "sym-rebuilt", "sym-gram", "asym", "asym"])
    m = [[None] * n for _ in range(n)]
    for i in range(n):
        for j in range(i, n):
            if rng.random() < 0.15 and (i, j) != (0, 0):   # (an all-numeric matrix is rejected by PSDMatrix._store)
                m[i][j] = ["num", rnd_coef(rng)]         # a bare Python number entry (PSDMatrix._store wraps it)
            else:
                m[i][j] = gen_expr(rng, npts, nf, nterms=rng.choice([1, 1, 2, 3]))
    for i in range(n):
        for j in range(i):
            u = m[j][i]
            if kind == "asym":
                m[i][j] = gen_expr(rng, npts, nf, nterms=rng.choice([1, 2])) if rng.random() < 0.7 else u
            elif u[0] == "num":
                m[i][j] = ["num", u[1]]
            elif kind == "sym-same":
                m[i][j] = ["same", j, i]
            elif kind == "sym-rebuilt":
                m[i][j] = list(reversed(u))
            else:
                m[i][j] = mirror(u)
    return dict(kind=kind, rows=m)


def gen_cons(rng, npts, nf):
    return dict(e=gen_expr(rng, npts, nf), how=rng.choice(["le", "le", "ge", "eq"]))


def gen_spec(rng, max_scalars=30, max_lmis=4, lmi_kind=None):
    npts = rng.choice([1, 2, 2, 3, 3, 4, 5])
    nf = rng.choice([0, 1, 2, 3, 4])
    n_sc = rng.choice([0, 1, 2, 3, 5, 8, 12, 20, max_scalars])
    n_lmi = rng.choice([0, 1, 1, 2, 3, max_lmis])
    nfun = rng.choice([0, 1, 2, 3])
    # distribute scalars / lmis over the blocks: metrics, pep-level, functions
    blocks = [dict(cons=[], psd=[]) for _ in range(1 + nfun)]
    n_metric = min(n_sc, rng.choice([0, 1, 1, 2]))
    metrics = [gen_expr(rng, npts, nf) for _ in range(n_metric)]
    for _ in range(n_sc - n_metric):
        blocks[rng.randrange(len(blocks))]["cons"].append(gen_cons(rng, npts, nf))
    for _ in range(n_lmi):
        blocks[rng.randrange(len(blocks))]["psd"].append(gen_matrix(rng, npts, nf, lmi_kind))
    d = rng.choice([1, 2, 3])
    # the very same Constraint / PSDMatrix OBJECT registered several times (twice in one list, or in two lists)
    dups = []
    if rng.random() < 0.3:
        for _ in range(rng.choice([1, 1, 2])):
            src = [(b, i) for b, blk in enumerate(blocks) for i in range(len(blk["cons"]))]
            if src and rng.random() < 0.7:
                b, i = rng.choice(src)
                dups.append(["cons", b, i, rng.randrange(len(blocks))])
            elif blocks[0]["psd"]:
                dups.append(["psd", rng.randrange(len(blocks[0]["psd"]))])
    # a function whose CLASS constraints contain an LMI that is not symmetric as written
    classes = []
    if rng.random() < 0.3:
        # ConvexQGFunction / RsiEbFunction without a declared stationary point create one (a leaf point AND a leaf
        # expression) while the class constraints are generated, i.e. AFTER the objective leaf: the objective is then
        # not the last entry of F (seed C14-10)
        classes.append(dict(cls=rng.choice(["SymmetricLinearOperator", "SmoothStronglyConvexQuadraticFunction",
                                            "SkewSymmetricLinearOperator", "ConvexQGFunction", "RsiEbFunction",
                                            "ConvexQGFunction"]),
                            L=rng.choice([1.0, 2.0]), mu=rng.choice([0.0, 0.25, 0.5]),
                            pts=[rng.randrange(npts) for _ in range(rng.choice([1, 2, 2]))]))
    return dict(np=npts, nf=nf, metrics=metrics, pep=blocks[0], funcs=blocks[1:], dups=dups, classes=classes,
                pts=[[rng.randint(-2, 2) for _ in range(npts)] for _ in range(d)],
                fvals=[rng.randint(-8, 8) for _ in range(nf + 1)],
                dual_seed=rng.randrange(1 << 30))


# ------------------------------------------------------------------------------------------ building real objects
def build_expr(e, P, X, cache=None):
    from PEPit import Expression
    acc = None
    for t in e:
        if t[0] == "F":
            term = (t[2] / DEN) * X[t[1]]
        elif t[0] == "G":
            term = (t[3] / DEN) * (P[t[1]] * P[t[2]])
        else:
            term = None
        if term is None:
            acc = (Expression(is_leaf=False, decomposition_dict={1: t[1] / DEN}) if acc is None else acc + t[1] / DEN)
        else:
            acc = term if acc is None else acc + term
    return acc


def build_matrix(m, P, X):
    n = len(m["rows"])
    out = [[None] * n for _ in range(n)]
    for i in range(n):
        for j in range(i, n):
            u = m["rows"][i][j]
            out[i][j] = (u[1] / DEN) if u[0] == "num" else build_expr(u, P, X)
    for i in range(n):
        for j in range(i):
            u = m["rows"][i][j]
            if u[0] == "num":
                out[i][j] = u[1] / DEN
            elif u[0] == "same":
                out[i][j] = out[u[1]][u[2]]
            else:
                out[i][j] = build_expr(u, P, X)
    return out


def build_cons(c, P, X):
    e = build_expr(c["e"], P, X)
    if c["how"] == "le":
        return e <= 0
    if c["how"] == "ge":
        return e >= 0
    return e == 0


def build_pep(spec):
    """declare the model of `spec` with the real classes; returns (pep, P, X)"""
    from PEPit import PEP, Point, Expression
    from PEPit.functions import ConvexFunction
    pep = PEP()
    P = [Point() for _ in range(spec["np"])]
    X = [Expression() for _ in range(spec["nf"])]
    for e in spec["metrics"]:
        pep.set_performance_metric(build_expr(e, P, X))
    cons_objs = {}
    for i, c in enumerate(spec["pep"]["cons"]):
        cons_objs[(0, i)] = build_cons(c, P, X)
        pep.add_constraint(cons_objs[(0, i)])
    # names of LMIs are labels only: several LMIs may share one, or carry the default label of ANOTHER LMI (seed C01-12:
    # multipliers looked up by name)
    naming = spec["dual_seed"] % 3
    for j, m in enumerate(spec["pep"]["psd"]):
        nm = [None, "lmi", "PSDMatrix_%d" % (j + 2)][naming]
        pep.add_psd_matrix(build_matrix(m, P, X), name=nm) if nm else pep.add_psd_matrix(build_matrix(m, P, X))
    funcs = []
    for b, blk in enumerate(spec["funcs"]):
        f = pep.declare_function(ConvexFunction)
        funcs.append(f)
        for i, c in enumerate(blk["cons"]):
            cons_objs[(b + 1, i)] = build_cons(c, P, X)
            f.add_constraint(cons_objs[(b + 1, i)])
        for m in blk["psd"]:
            f.add_psd_matrix(build_matrix(m, P, X), name="lmi") if naming == 1 else f.add_psd_matrix(build_matrix(m, P, X))
    class_functions = []
    pep._harness_class_functions = class_functions
    for c in spec.get("classes", []):
        import PEPit.functions as PF
        import PEPit.operators as PO
        cls = getattr(PO, c["cls"], None) or getattr(PF, c["cls"])
        kw = dict(L=c["L"]) if c["cls"] in ("SkewSymmetricLinearOperator", "ConvexQGFunction") else dict(L=c["L"], mu=c["mu"])
        g = pep.declare_function(cls, **kw)
        for i in c["pts"]:
            g.gradient(P[i])
        class_functions.append(g)
    for d in spec.get("dups", []):
        if d[0] == "cons":
            obj = cons_objs[(d[1], d[2])]
            if d[3] == 0:
                pep.set_initial_condition(obj)
            else:
                funcs[d[3] - 1].add_constraint(obj)
        else:
            pep.add_psd_matrix(pep.list_of_psd[d[1]])      # the same PSDMatrix object once more
    return pep, P, X


def gen_modifications(rng, spec):
    """what is done to the model between two solves of the same PEP object: every op shifts the positions (hence the
    position tags) of the constraints that survive"""
    npts, nf = spec["np"], spec["nf"]
    ops = []
    for _ in range(rng.choice([1, 1, 2])):
        kind = rng.choice(["metric", "cons", "psd", "fcons", "sample"])
        if kind == "metric":
            ops.append(["metric", gen_expr(rng, npts, nf)])
        elif kind == "cons":
            ops.append(["cons", gen_cons(rng, npts, nf)])
        elif kind == "psd":
            ops.append(["psd", gen_matrix(rng, npts, nf)])
        elif kind == "fcons" or not spec.get("classes"):
            ops.append(["fcons", gen_cons(rng, npts, nf)])
        else:
            ops.append(["sample", 0, rng.randrange(npts)])
    return ops


def apply_modifications(pep, P, X, ops):
    from PEPit.functions import ConvexFunction
    for op in ops:
        if op[0] == "metric":
            pep.set_performance_metric(build_expr(op[1], P, X))
        elif op[0] == "cons":
            pep.add_constraint(build_cons(op[1], P, X))
        elif op[0] == "psd":
            pep.add_psd_matrix(build_matrix(op[1], P, X))
        elif op[0] == "fcons":
            f = pep.declare_function(ConvexFunction)
            f.add_constraint(build_cons(op[1], P, X))
        elif op[0] == "sample":
            g = pep._harness_class_functions[op[1]]
            g.gradient((op[2] + 1) * 0.5 * P[op[2]] + P[0])       # one more sample of the class function
        else:
            raise ValueError(op)


# ------------------------------------------------------------------------------------------ scripted solve
def make_wrapper_class():
    from PEPit.wrappers.cvxpy_wrapper import CvxpyWrapper

    class ScriptedSolveWrapper(CvxpyWrapper):
        """the real cvxpy wrapper, except that `solve` consults a script instead of a solver"""

        def __init__(self, script, verbose=0):
            super().__init__(verbose=verbose)
            self.script = script
            self.calls = []          # one snapshot per solve call
            self.events, self.prepare_args, self.weights = [], [], []

        def solve(self, **kwargs):
            k = len(self.calls)
            self.events.append([0, k + 1])
            snap = self.script(self, k)
            self.calls.append(snap)
            self.solver_name = "scripted"
            return "optimal", "scripted", snap["wc_value"]

        # recording only: the real methods do the work
        def assign_dual_values(self):
            self.events.append([1, len(self.calls)])
            return super().assign_dual_values()

        def get_primal_variables(self):
            self.events.append([2, len(self.calls)])
            return super().get_primal_variables()

        def prepare_heuristic(self, wc_value, tol_dimension_reduction):
            self.events.append([3, len(self.calls)])
            self.prepare_args.append((wc_value, tol_dimension_reduction))
            return super().prepare_heuristic(wc_value, tol_dimension_reduction)

        def heuristic(self, weight):
            w = np.array(weight, dtype=float)
            self.events.append([4, 0 if np.array_equal(w, np.identity(w.shape[0])) else 1])
            self.weights.append(w)
            return super().heuristic(weight)

    return ScriptedSolveWrapper


def synthetic_duals(prob, seed, solve_index):
    """one dual per cvxpy constraint, tagged by position (and by the index of the solve call); returns the
    values (python float | ndarray) in constraint order."""
    import random
    rng = random.Random(seed * 31 + solve_index)
    out = []
    for p, c in enumerate(prob.constraints):
        sign = rng.choice([1, 1, -1])
        if type(c).__name__ == "PSD":
            n, m = c.args[0].shape
            v = np.array([[sign * (64 * p + 8 * i + j + 512 * solve_index) / 16.0 * rng.choice([1, 1, 0, -1])
                           for j in range(m)] for i in range(n)])
        else:
            v = float(sign * (8 * p + rng.randrange(8) + 1024 * solve_index) / 16.0)
            if rng.random() < 0.1:
                v = 0.0
        out.append(v)
    return out


def full_pts(spec, n):
    """coordinates of the n leaf points: the spec's, completed deterministically for the leaf points created by class
    constraints / oracles"""
    d = len(spec["pts"])
    out = np.zeros((d, n))
    for r in range(d):
        for c in range(n):
            out[r, c] = spec["pts"][r][c] if c < len(spec["pts"][r]) else ((3 * r + 2 * c) % 5) - 2
    return out


def full_fvals(spec, n):
    return np.array([spec["fvals"][k] if k < len(spec["fvals"]) else ((5 * k) % 17) - 8 for k in range(n)], dtype=float) / 4.0


def tagged_point(spec, wrapper):
    """(G, F, [M_k]) rational values given to the cvxpy variables when rows are evaluated"""
    pts = full_pts(spec, wrapper.G.shape[0])
    G = pts.T @ pts
    nF = wrapper.F.shape[0]
    F = np.array([(3 * k + 1) / 4.0 for k in range(nF)])
    Ms = []
    k = 0
    for c in wrapper._list_of_solver_constraints[1:]:
        if type(c).__name__ == "PSD":
            n, m = c.args[0].shape
            Ms.append(np.array([[(100 * (k + 1) + 10 * i + j) / 2.0 for j in range(m)] for i in range(n)]))
            k += 1
    return G, F, Ms


def psd_variables(wrapper):
    return [c.variables()[0] for c in wrapper._list_of_solver_constraints[1:] if type(c).__name__ == "PSD"]


def dump_rows(constraints, wrapper, G, F, Ms):
    """each cvxpy constraint: [0, n, m] for a PSD constraint, [1, value] for an Inequality (value of lhs - rhs
    at the tagged point), [2, value] for an Equality"""
    wrapper.G.save_value(G)
    wrapper.F.save_value(F)
    for var, val in zip(psd_variables(wrapper), Ms):
        var.save_value(val)
    out = []
    for c in constraints:
        kind = type(c).__name__
        if kind == "PSD":
            out.append([0, int(c.args[0].shape[0]), int(c.args[0].shape[1])])
        elif kind == "Inequality":
            out.append([1, Q(float(c.expr.value))])
        elif kind == "Equality":
            out.append([2, Q(float(c.expr.value))])
        else:
            out.append([9])
    return out


def dump_dval(v):
    if isinstance(v, np.ndarray) and v.ndim == 2:
        return [1, [[Q(float(x)) for x in row] for row in v]]
    return [0, Q(float(v))]


# ------------------------------------------------------------------------------------------ Coq literals
def coq_edict_from_dump(d):
    items = []
    for k, v in d:
        if k[0] == 0:
            ks = "KF %s" % coq_nat(k[1])
        elif k[0] == 1:
            ks = "KG %s %s" % (coq_nat(k[1]), coq_nat(k[2]))
        else:
            ks = "K1"
        items.append("(%s, %s)" % (ks, coq_q(v.v)))
    return coq_list(items)


def coq_qmat(A):
    return coq_list([coq_list([coq_q(float(x)) for x in row]) for row in A])


def coq_dval(v):
    if isinstance(v, np.ndarray) and v.ndim == 2:
        return "VM %s" % coq_qmat(v)
    return "VS %s" % coq_q(float(v))


def object_ids(wrapper):
    """for each position of the tracked list, the position of the first occurrence of the object sitting there"""
    first = {}
    out = []
    for k, o in enumerate(wrapper._list_of_constraints_sent_to_solver):
        first.setdefault(id(o), k)
        out.append(first[id(o)])
    return out


def dump_exposed(o):
    """[eval_dual(), entries_dual_variable_value] as the object shows them"""
    u = getattr(o, "entries_dual_variable_value", None)
    return [dump_dval(o.eval_dual()), [] if u is None else [[[Q(float(x)) for x in row] for row in np.array(u)]]]


def sent_items(wrapper, pid, xid):
    """the tracked list of the wrapper as model items (dumps of the real decomposition dictionaries)"""
    from PEPit.constraint import Constraint
    items = []
    for o in wrapper._list_of_constraints_sent_to_solver:
        if isinstance(o, Constraint):
            items.append(("SC", T.dump_edict(o.expression.decomposition_dict, pid, xid),
                          {"inequality": 0, "equality": 1}[o.equality_or_inequality]))
        else:
            n, m = o.shape
            items.append(("LMI", [[T.dump_edict(o[i, j].decomposition_dict, pid, xid) for j in range(m)]
                                  for i in range(n)]))
    return items


def coq_item(it):
    if it[0] == "SC":
        return "SC %s %s" % (coq_edict_from_dump(it[1]), "Ineq" if it[2] == 0 else "Equ")
    return "LMI %s" % coq_list([coq_list([coq_edict_from_dump(e) for e in row]) for row in it[1]])


def coq_sent(items):
    return coq_list([coq_item(it) for it in items])


def lmi_symmetric(it):
    """'symmetric as written': e_ij - e_ji vanishes on every symmetric G and every F"""
    rows = it[1]
    n = len(rows)

    def canon(e):
        acc = {}
        for k, v in e:
            kk = tuple(k)
            if kk[0] == 1 and kk[1] > kk[2]:
                kk = (1, kk[2], kk[1])
            acc[kk] = acc.get(kk, 0) + v.v
        return {k: v for k, v in acc.items() if v != 0}
    return all(canon(rows[i][j]) == canon(rows[j][i]) for i in range(n) for j in range(i))


def quiet(fn, *a, **kw):
    buf = io.StringIO()
    with contextlib.redirect_stdout(buf):
        r = fn(*a, **kw)
    return r, buf.getvalue()


class DictRecorder(object):
    """records the argument / result of PEPit.pep.prune_dict (the call of check_feasibility line 771): the pruned
    symmetrised dictionary is a local variable of check_feasibility; it is observed from outside by wrapping
    the name `prune_dict` in the module namespace of PEPit.pep with a function that calls the real one."""

    def __enter__(self):
        import PEPit.pep as pepmod
        self.mod = pepmod
        self.real = pepmod.prune_dict
        self.last = None

        def recording(d):
            r = self.real(d)
            self.last = r
            return r
        pepmod.prune_dict = recording
        return self

    def __exit__(self, *a):
        self.mod.prune_dict = self.real


def frac_list(xs):
    return [str(to_fraction(float(x))) for x in xs]


# ------------------------------------------------------------------------------------------ really solved models
SOLVER_KW = dict(solver="SCS", eps_abs=1e-8, eps_rel=1e-8, max_iters=100000)


def solvable_specs(rng, n, asym_every=6):
    """bounded, feasible models: n gradient steps on an L-smooth mu-strongly convex function, optionally with a
    user LMI tying a leaf expression t to the last iterate (metric t): 'sym' [[|x-xs|^2, t],[t, 1]],
    'sym3' the same bordered to 3x3 with a second block, 'asym' [[|x-xs|^2, t],[s+1, 1]] (NOT symmetric as written:
    known finding F-C01a); optional second metric and a function-level 1x1 LMI."""
    out = []
    for k in range(n):
        lmi = rng.choice(["none", "sym", "sym", "sym3", "none"])
        if asym_every and k % asym_every == asym_every - 1:
            lmi = "asym"
        out.append(dict(family=rng.choice(["gd", "gd", "gd", "symlin", "quad"]),
                        L=rng.choice([1.0, 2.0, 4.0]), mu=rng.choice([0.0, 0.125, 0.25, 0.5]),
                        n=rng.choice([1, 1, 2, 3]), gamma_num=rng.choice([2, 3, 4, 6]), lmi=lmi,
                        metric=rng.choice(["dist", "fval"]), second_metric=rng.random() < 0.3,
                        fun_lmi=rng.random() < 0.3, equality=rng.random() < 0.3))
    return out




ASYM_TRIGGER = dict(family="gd", L=1.0, mu=0.1, n=1, gamma_num=4, lmi="asym", metric="dist", second_metric=False,
                    fun_lmi=False, equality=False)
SYMLIN_TIGHT = dict(family="symlin", L=1.0, mu=0.25, n=1, gamma_num=4, lmi="none", metric="dist", second_metric=False,
                    fun_lmi=False, equality=False)
QUAD_GD = dict(family="quad", L=1.0, mu=0.25, n=2, gamma_num=4, lmi="none", metric="fval", second_metric=False,
               fun_lmi=False, equality=False)


def build_solvable(spec):
    from PEPit import PEP, Expression
    from PEPit.functions import SmoothStronglyConvexFunction, SmoothStronglyConvexQuadraticFunction
    from PEPit.operators import SymmetricLinearOperator
    pep = PEP()
    L = spec["L"]
    family = spec.get("family", "gd")
    if family == "symlin":
        # x_{k+1} = x_k - gamma A x_k with mu <= A <= L symmetric (class LMI not symmetric as written); x* = 0
        A = pep.declare_function(SymmetricLinearOperator, L=L, mu=min(spec["mu"], L / 2))
        x0 = pep.set_initial_point()
        pep.set_initial_condition(x0 ** 2 <= 1)
        gamma = spec["gamma_num"] / (4.0 * L)
        x = x0
        for _ in range(spec["n"]):
            x = x - gamma * A.gradient(x)
        pep.set_performance_metric(x ** 2)
        return pep
    cls = SmoothStronglyConvexQuadraticFunction if family == "quad" else SmoothStronglyConvexFunction
    f = pep.declare_function(cls, L=L, mu=min(spec["mu"], L / 2))
    xs = f.stationary_point()
    fs = f(xs)
    x0 = pep.set_initial_point()
    pep.set_initial_condition((x0 - xs) ** 2 <= 1)
    gamma = spec["gamma_num"] / (4.0 * L)
    x = x0
    for _ in range(spec["n"]):
        x = x - gamma * f.gradient(x)
    base = (x - xs) ** 2 if spec["metric"] == "dist" or spec["lmi"] != "none" else f(x) - fs
    if spec["lmi"] == "none":
        pep.set_performance_metric(base)
    else:
        t = Expression()
        if spec["lmi"] == "sym":
            pep.add_psd_matrix([[base, t], [t, 1.]])
        elif spec["lmi"] == "sym3":
            pep.add_psd_matrix([[base, t, 0.], [t, 1., 0.], [0., 0., 2 - t]])
        else:
            s = Expression()
            pep.add_psd_matrix([[base, t], [s + 1, 1.]])
        pep.set_performance_metric(t)
    if spec["second_metric"]:
        pep.set_performance_metric(f(x) - fs + 2)
    if spec["fun_lmi"]:
        f.add_psd_matrix([[4 - (x0 - xs) ** 2]])
    if spec["equality"]:
        e = Expression()
        pep.add_constraint(e == (x0 - xs) ** 2)
    return pep


def solve_real(spec, heuristic=None, mode="dual", tol=1e-4):
    """returns (pep, returned value); pep.solver_statuses = the status cvxpy reported for each solve call"""
    import re
    pep = build_solvable(spec)
    val, log = quiet(pep.solve, verbose=1, wrapper="cvxpy", return_primal_or_dual=mode,
                     dimension_reduction_heuristic=heuristic, tol_dimension_reduction=tol, **SOLVER_KW)
    st = re.findall(r"Solver status: (\w+)", log)
    # with a heuristic the last status is printed twice (inside the logdet loop / after the block): keep call order
    pep.solver_statuses = st
    pep.all_optimal = bool(st) and all(x == "optimal" for x in st)
    return pep, val


def measure_certificate(pep, returned):
    """OUR OWN residual of the identity over ALL keys, from the exposed multipliers; the stationarity residual of the
    solver's raw output (entry duals included); signs and eigenvalues."""
    from PEPit.tools.expressions_to_matrices import expression_to_matrices
    from PEPit.constraint import Constraint
    w = pep.wrapper
    tracked = w._list_of_constraints_sent_to_solver
    Gw_o, Fw_o, c_o = expression_to_matrices(pep.objective)
    # identity:  obj - sum lam e + <res,G> + sum <S,E>  ==  tau   (as an affine function of symmetric G and F)
    rF = Fw_o.copy()
    rG = Gw_o + np.array(pep.residual, dtype=float)
    const = c_o
    min_ineq, min_eig = np.inf, np.min(np.linalg.eigvalsh((np.array(pep.residual) + np.array(pep.residual).T) / 2))
    asym = False
    sym_gap = 0.0
    for o in tracked:
        if isinstance(o, Constraint):
            lam = float(o.eval_dual())
            Gw, Fw, c = expression_to_matrices(o.expression)
            rF -= lam * Fw
            rG -= lam * Gw
            const -= lam * c
            if o.equality_or_inequality == "inequality":
                min_ineq = min(min_ineq, lam)
        else:
            S = np.array(o.eval_dual(), dtype=float)
            min_eig = min(min_eig, np.min(np.linalg.eigvalsh((S + S.T) / 2)))
            U = getattr(o, "entries_dual_variable_value", None)
            U = S if U is None else np.array(U, dtype=float)     # what the object shows for its entries
            sym_gap = max(sym_gap, float(np.max(np.abs((S + S.T) / 2 - (U + U.T) / 2))))
            n, m = o.shape
            for i in range(n):
                for j in range(m):
                    Gw, Fw, c = expression_to_matrices(o[i, j])
                    rF += U[i, j] * Fw
                    rG += U[i, j] * Gw
                    const += U[i, j] * c
                    if i < j:
                        Gw2, Fw2, c2 = expression_to_matrices(o[j, i])
                        if not (np.array_equal(Gw, Gw2) and np.array_equal(Fw, Fw2) and c == c2):
                            asym = True
    rG = (rG + rG.T) / 2
    ident_res = max(np.max(np.abs(rF)) if rF.size else 0.0, np.max(np.abs(rG)) if rG.size else 0.0)
    tau_ours = const
    # stationarity of the raw solver output, entry duals included (the solver assumption)
    cons = w.prob.constraints[:len(w._list_of_solver_constraints)]
    duals = [c.dual_value for c in cons]
    kF = Fw_o.copy()
    kG = Gw_o + np.array(duals[0], dtype=float)
    kM = 0.0
    pos = 1
    for o in tracked:
        if isinstance(o, Constraint):
            lam = float(duals[pos])
            Gw, Fw, c = expression_to_matrices(o.expression)
            kF -= lam * Fw
            kG -= lam * Gw
            pos += 1
        else:
            S = np.array(duals[pos], dtype=float)
            pos += 1
            n, m = o.shape
            U = np.zeros((n, m))
            for i in range(n):
                for j in range(m):
                    u = float(duals[pos])
                    U[i, j] = u
                    Gw, Fw, c = expression_to_matrices(o[i, j])
                    kF += u * Fw
                    kG += u * Gw
                    pos += 1
            kM = max(kM, np.max(np.abs((S + S.T) / 2 - (U + U.T) / 2)))
    kG = (kG + kG.T) / 2
    kkt = max(np.max(np.abs(kF)) if kF.size else 0.0, np.max(np.abs(kG)) if kG.size else 0.0, kM)
    return dict(identity_residual=float(ident_res), tau_ours=float(tau_ours), returned=float(returned),
                kkt_residual=float(kkt), min_inequality_dual=float(min_ineq if min_ineq < np.inf else 0.0),
                min_eigenvalue=float(min_eig), asymmetric_lmi=bool(asym), dual_matrix_vs_sym_entries=float(sym_gap), primal=float(pep.objective.eval()),
                n_constraints=len(tracked))


def extract_weight(prob, wrapper):
    """the matrix W of an objective Minimize(sum(multiply(G, W))), read off the cvxpy expression by evaluating it at
    the matrix units"""
    n = wrapper.G.shape[0]
    W = np.zeros((n, n))
    for i in range(n):
        for j in range(n):
            E = np.zeros((n, n))
            E[i, j] = 1.0
            wrapper.G.save_value(E)
            W[i, j] = float(prob.objective.args[0].value)
    return W
