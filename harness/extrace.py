"""Shipped example = program of the op language of Model/Method.v (C09, stream `examples-as-programs`).

Three parts, nothing in /repo is edited:

 * tracer     `trace_example(fn, args, kwargs)` runs a shipped `wc_*` function on the REAL PEPit while monkey patches
              (installed and removed by the context manager `Patches`) record, in order, every bookkeeping call the
              example makes at top level: leaf `Point()` / `Expression()` creations, every `Function` created (class,
              leaf or composite), `Function.oracle / gradient / subgradient / value / __call__ / stationary_point /
              fixed_point / add_point`, `BlockPartition.get_block`, and the eight primitive steps (ONE event per step;
              the oracle / add_point / Point() calls a recorded call makes internally are suppressed).  Point arguments
              are recorded as their decomposition dictionaries over leaf-point counters, copied BEFORE the call.
              `PEP.solve` is intercepted: the state of the real bookkeeping (counters, list_of_points of every leaf
              function, constraints the steps put on functions) is snapshotted before solve does anything, and the
              example is stopped there (no solver runs).
 * converter  `convert(trace)` -> (nf, ops) in the tuple format of p_c09 (`coq_program`), or `Outside(reason)` with
              the FIRST thing the example does that the op language has no op for.  Whether an oracle call is a new
              evaluation (MEval) or a reuse (no op: property C07's model) is decided by the converter's own record
              of the points each op records, NOT by looking at what the implementation did.
 * comparison `expected_dump(trace, ops)` is the real state in the format of MethodDump.dump_mrun; `parse_D` /
              `close_enough` implement the rounding-tolerant comparison used only when the exact one fails.
"""
import functools
import importlib.util
import inspect
import os
import re
import sys
import time
import warnings
from fractions import Fraction

from .common import REPO, to_fraction, coq_nat, coq_q, coq_list, Q
from . import terms as T

STEP_NAMES = ["bregman_gradient_step", "bregman_proximal_step", "exact_linesearch_step", "inexact_gradient_step",
              "inexact_proximal_step", "linear_optimization_step", "proximal_step", "epsilon_subgradient_step"]
FUNCTION_METHODS = ["oracle", "gradient", "subgradient", "value", "__call__", "stationary_point", "fixed_point",
                    "add_point"]


class _Stop(Exception):
    """raised by the intercepted PEP.solve: the example has built its model"""


class Outside(Exception):
    """the example uses something the op language of Model/Method.v has no op for"""


def pdict_of(point):
    """decomposition dictionary of a Point over leaf-point counters, in dictionary order (a copy)"""
    return [(k.counter, v) for k, v in point.decomposition_dict.items()]


class Trace(object):
    def __init__(self):
        self.events = []          # dicts, in call order
        self.functions = []       # every Function object created, in creation order
        self.leaf_functions = []  # the leaf ones, in creation order: the model's function index
        self.step_constraints = {}   # id(function) -> [Constraint] added while a primitive step was running
        self.snapshot = None
        self.n_solves = 0

    def findex(self, f):
        for i, g in enumerate(self.leaf_functions):
            if g is f:
                return i
        return None


class Patches(object):
    """context manager installing the recording patches (class attributes of Point / Expression / Function /
    BlockPartition / PEP and the step names in the example's module globals); everything is restored on exit"""

    def __init__(self, trace, example_globals):
        self.trace = trace
        self.globals = example_globals
        self.depth = 0          # > 0 while a recorded call is running: nested calls are not recorded
        self.in_step = 0
        self.saved = []

    # -- plumbing
    def _set(self, obj, name, new, is_dict=False):
        if is_dict:
            self.saved.append((obj, name, obj[name], True))
            obj[name] = new
        else:
            self.saved.append((obj, name, obj.__dict__[name], False))
            setattr(obj, name, new)

    def __exit__(self, *a):
        for obj, name, old, is_dict in reversed(self.saved):
            if is_dict:
                obj[name] = old
            else:
                setattr(obj, name, old)
        self.saved = []

    def counters(self):
        from PEPit import Point, Expression
        return Point.counter, Expression.counter

    def _fdesc(self, f):
        i = self.trace.findex(f)
        return dict(f=i, leaf=bool(f.get_is_leaf()), cls=type(f).__name__, reuse_gradient=bool(f.reuse_gradient),
                    decomposition=None if f.get_is_leaf() else
                    [(self.trace.findex(g), w) for g, w in f.decomposition_dict.items()])

    def __enter__(self):
        from PEPit import Point, Expression, Function, PEP
        from PEPit.block_partition import BlockPartition
        tr, me = self.trace, self

        # leaf Point / Expression creations at top level
        p_init = Point.__dict__["__init__"]

        @functools.wraps(p_init)
        def point_init(self, is_leaf=True, decomposition_dict=None, name=None):
            p_init(self, is_leaf=is_leaf, decomposition_dict=decomposition_dict, name=name)
            if is_leaf and me.depth == 0:
                tr.events.append(dict(op="fresh", leaf=self.counter))
        self._set(Point, "__init__", point_init)

        e_init = Expression.__dict__["__init__"]

        @functools.wraps(e_init)
        def expr_init(self, is_leaf=True, decomposition_dict=None, name=None):
            e_init(self, is_leaf=is_leaf, decomposition_dict=decomposition_dict, name=name)
            if is_leaf and me.depth == 0:
                tr.events.append(dict(op="fresh_expression", leaf=self.counter))
        self._set(Expression, "__init__", expr_init)

        # every Function created (declare_function, operators on functions, the transpose of a linear operator)
        f_init = Function.__dict__["__init__"]

        @functools.wraps(f_init)
        def func_init(self, *args, **kwargs):
            f_init(self, *args, **kwargs)
            tr.functions.append(self)
            if self.get_is_leaf():
                tr.leaf_functions.append(self)
            tr.events.append(dict(op="declare", depth=me.depth, **me._fdesc(self)))
        self._set(Function, "__init__", func_init)

        # constraints the steps put on functions
        f_addc = Function.__dict__["add_constraint"]

        @functools.wraps(f_addc)
        def func_add_constraint(self, constraint, name=None):
            n0 = len(self.list_of_constraints)
            out = f_addc(self, constraint, name=name)
            if me.in_step and len(self.list_of_constraints) == n0 + 1:
                tr.step_constraints.setdefault(id(self), []).append(self.list_of_constraints[-1])
            elif not me.in_step:
                tr.events.append(dict(op="user_constraint_on_function", **me._fdesc(self)))
            return out
        self._set(Function, "add_constraint", func_add_constraint)

        def wrap_method(name):
            orig = Function.__dict__[name]

            @functools.wraps(orig)
            def method(self, *args, **kwargs):
                if me.depth > 0:
                    return orig(self, *args, **kwargs)
                ev = dict(op=name, **me._fdesc(self))
                if name == "add_point":
                    trip = args[0] if args else kwargs["triplet"]
                    ev["triplet_point"] = pdict_of(trip[0])
                elif name not in ("stationary_point", "fixed_point"):
                    pt = args[0] if args else kwargs["point"]
                    ev["point"] = pdict_of(pt)
                ev["before"] = me.counters()
                me.depth += 1
                try:
                    return orig(self, *args, **kwargs)
                finally:
                    me.depth -= 1
                    ev["after"] = me.counters()
                    tr.events.append(ev)
            return method
        for name in FUNCTION_METHODS:
            self._set(Function, name, wrap_method(name))

        g_block = BlockPartition.__dict__["get_block"]

        @functools.wraps(g_block)
        def get_block(self, *args, **kwargs):
            if me.depth > 0:
                return g_block(self, *args, **kwargs)
            me.depth += 1
            try:
                return g_block(self, *args, **kwargs)
            finally:
                me.depth -= 1
                tr.events.append(dict(op="block_partition"))
        self._set(BlockPartition, "get_block", get_block)

        # the eight primitive steps, as the example module sees them
        def wrap_step(name, orig):
            sig = inspect.signature(orig)

            @functools.wraps(orig)
            def step(*args, **kwargs):
                if me.depth > 0:
                    return orig(*args, **kwargs)
                ba = sig.bind(*args, **kwargs)
                ba.apply_defaults()
                ev = dict(op=name, args={})
                for k, v in ba.arguments.items():
                    if isinstance(v, Point):
                        ev["args"][k] = ("point", pdict_of(v))
                    elif isinstance(v, Function):
                        ev["args"][k] = ("function", me._fdesc(v))
                    elif isinstance(v, (list, tuple)) and all(isinstance(x, Point) for x in v):
                        ev["args"][k] = ("points", [pdict_of(x) for x in v])
                    else:
                        ev["args"][k] = ("scalar", v)
                ev["before"] = me.counters()
                me.depth += 1
                me.in_step += 1
                try:
                    return orig(*args, **kwargs)
                finally:
                    me.in_step -= 1
                    me.depth -= 1
                    ev["after"] = me.counters()
                    tr.events.append(ev)
            return step
        import PEPit.primitive_steps as PS
        for name in STEP_NAMES:
            real = getattr(PS, name)
            for key, val in list(self.globals.items()):
                if val is real:
                    self._set(self.globals, key, wrap_step(name, real), is_dict=True)

        # PEP.solve: snapshot of the real bookkeeping, then stop the example
        def solve(pep, *args, **kwargs):
            tr.n_solves += 1
            tr.snapshot = snapshot(tr)
            raise _Stop()
        self._set(PEP, "solve", solve)
        return self


def snapshot(tr):
    """the real bookkeeping in the format of MethodDump.dump_mrun (without the well-formedness flag)"""
    from PEPit import Point, Expression
    pid = T.IdMap()
    for p in Point.list_of_leaf_points:
        pid.add(p, p.counter)
    xid = T.IdMap()
    for e in Expression.list_of_leaf_expressions:
        xid.add(e, e.counter)
    samples, cons = [], []
    for f in tr.leaf_functions:
        samples.append([[T.dump_pdict(x.decomposition_dict, pid), T.dump_pdict(g.decomposition_dict, pid),
                         T.dump_edict(fx.decomposition_dict, pid, xid)] for x, g, fx in f.list_of_points])
        cons.append([T.dump_constraint(c, pid, xid) for c in tr.step_constraints.get(id(f), [])])
    return dict(np=Point.counter, ne=Expression.counter, samples=samples, cons=cons,
                n_leaf_points=len(Point.list_of_leaf_points), n_leaf_expressions=len(Expression.list_of_leaf_expressions))


# ------------------------------------------------------------------ which examples, with which parameters
def example_files():
    import glob
    root = os.path.join(REPO, "PEPit", "examples")
    return [p for p in sorted(glob.glob(os.path.join(root, "*", "*.py"))) if not os.path.basename(p).startswith("__")]


class _Captured(Exception):
    pass


def test_calls():
    """{example file: (function, args, kwargs)} as tests/test_examples.py (class TestExamplesCVXPY) calls them: the
    module is loaded with every imported `wc_*` name replaced by a stub that records its arguments and stops the test"""
    path = os.path.join(REPO, "tests", "test_examples.py")
    if not os.path.exists(path):
        return {}
    spec = importlib.util.spec_from_file_location("pepit_tests_test_examples", path)
    mod = importlib.util.module_from_spec(spec)
    spec.loader.exec_module(mod)
    calls = {}

    def stub_of(fn):
        def stub(*args, **kwargs):
            calls.setdefault(os.path.realpath(fn.__code__.co_filename), (fn, args, kwargs))
            raise _Captured()
        return stub
    for k, v in list(vars(mod).items()):
        if k.startswith("wc_") and inspect.isfunction(v):
            setattr(mod, k, stub_of(v))
    cls = getattr(mod, "TestExamplesCVXPY", None)
    if cls is None:
        return {}
    for name, meth in cls.__dict__.items():
        if not name.startswith("test"):
            continue
        case = cls(name)
        try:
            case.setUp()
            getattr(case, name)()
        except _Captured:
            pass
        except Exception:
            pass
    return calls


def main_call(path):
    """fallback for an example no test calls: the literal call in its `if __name__ == "__main__":` block"""
    import ast
    import numpy as np
    src = open(path).read()
    tree = ast.parse(src, path)
    ns = {"__name__": "pepit_example_trace"}
    main_block, fname = None, None
    body = []
    for node in tree.body:
        if isinstance(node, ast.If) and isinstance(node.test, ast.Compare) and isinstance(node.test.left, ast.Name) \
                and node.test.left.id == "__name__":
            main_block = node
            continue
        if isinstance(node, ast.FunctionDef) and node.name.startswith("wc_"):
            fname = node.name
        body.append(node)
    tree.body = body
    exec(compile(tree, path, "exec"), ns)
    if fname is None or main_block is None:
        return None
    local = dict(ns, np=np)
    for st in main_block.body:
        for n in ast.walk(st):
            if isinstance(n, ast.Call) and isinstance(n.func, ast.Name) and n.func.id == fname:
                args = [eval(compile(ast.Expression(a), "<main>", "eval"), local) for a in n.args]
                kw = {k.arg: eval(compile(ast.Expression(k.value), "<main>", "eval"), local) for k in n.keywords}
                return ns[fname], tuple(args), kw
        try:
            exec(compile(ast.Module([st], []), "<main>", "exec"), local)
        except Exception:
            return None
    return None


def all_calls():
    """[(relative example path, function, args, kwargs, source of the parameters)] for every shipped example file"""
    tests = test_calls()
    out = []
    root = os.path.join(REPO, "PEPit", "examples")
    for path in example_files():
        rel = os.path.relpath(path, root)
        hit = tests.get(os.path.realpath(path))
        if hit is not None:
            out.append((rel, hit[0], hit[1], hit[2], "tests/test_examples.py"))
            continue
        try:
            mc = main_call(path)
        except Exception:
            mc = None
        if mc is not None:
            out.append((rel, mc[0], mc[1], mc[2], "__main__ block"))
        else:
            out.append((rel, None, (), {}, "no call found"))
    return out


def trace_example(fn, args, kwargs):
    """run the example up to its first PEP.solve; returns (trace, seconds, error or None)"""
    tr = Trace()
    kw = dict(kwargs)
    if "verbose" in inspect.signature(fn).parameters:
        kw["verbose"] = -1
    t0 = time.time()
    err = None
    with warnings.catch_warnings():
        warnings.simplefilter("ignore")
        with Patches(tr, fn.__globals__):
            try:
                fn(*args, **kw)
                err = "the example returned without calling PEP.solve"
            except _Stop:
                pass
            except Exception as e:          # the example itself failed under tracing
                err = "%s: %s" % (type(e).__name__, e)
    return tr, time.time() - t0, err


# ------------------------------------------------------------------ converter: trace -> list mop
def _frac_dict(pd):
    return {k: to_fraction(v) for k, v in pd}


def _pruned(d):
    return {k: v for k, v in d.items() if v != 0}


def _scalar(v, what):
    try:
        return to_fraction(v)
    except TypeError:
        raise Outside("%s is not a number (%s)" % (what, type(v).__name__))


def convert(tr):
    """(nf, ops, info) or raises Outside(first reason).  ops are tuples in the format of p_c09.coq_program.
    info: dict(reused=number of oracle-type calls that are reuses of an evaluation, steps=set of step kinds,
    hypotheses=[violated side hypotheses of the theorems])"""
    if tr.snapshot is None:
        raise Outside("no PEP.solve reached")
    ops = []
    np_, ne_ = 0, 0
    evaluated = {}      # function index -> list of {leaf: Fraction} dictionaries recorded as points so far
    info = dict(reused=0, steps=set(), hypotheses=[], user_constraints_on_functions=0)

    def rec(f, d):
        evaluated.setdefault(f, []).append(_pruned(d))

    def is_evaluated(f, d):
        return any(e == d for e in evaluated.get(f, []))

    def need_leaf_function(fd, what):
        if not fd["leaf"]:
            raise Outside("composite function (%s): %s" % (
                " + ".join("%s*f%s" % (w, i) for i, w in fd["decomposition"]), what))
        if fd["f"] is None:
            raise Outside("function created outside the trace")
        return fd["f"]

    def keys_ok(d, what):
        if any(k >= np_ for k in d):
            info["hypotheses"].append("%s mentions a leaf that does not exist yet" % what)

    for ev in tr.events:
        op = ev["op"]
        if op == "fresh":
            if ev["leaf"] != np_:
                raise Outside("leaf point numbering out of step with the trace (leaf %d, expected %d)" % (ev["leaf"], np_))
            ops.append(("fresh",))
            np_ += 1
        elif op == "fresh_expression":
            raise Outside("Expression() leaf created by the example (no op for a free scalar)")
        elif op == "declare":
            if not ev["leaf"]:
                continue      # only a problem once it is evaluated
            if ev["cls"] == "BlockSmoothConvexFunction":
                raise Outside("block partition (BlockSmoothConvexFunction)")
        elif op == "user_constraint_on_function":
            info["user_constraints_on_functions"] += 1
        elif op == "block_partition":
            raise Outside("block partition (get_block)")
        elif op == "fixed_point":
            raise Outside("fixed_point() (no op: the recorded gradient is the point itself)")
        elif op == "add_point":
            raise Outside("add_point() called by the example")
        elif op == "stationary_point":
            f = need_leaf_function(ev, "stationary_point() of a sum; only used through stationary_point()"
                                   if _only_stationary(tr, ev) else "stationary_point() of a sum")
            ops.append(("stat", f))
            rec(f, {np_: Fraction(1)})
            np_ += 1
            ne_ += 1
        elif op in ("oracle", "gradient", "subgradient", "value", "__call__"):
            f = need_leaf_function(ev, "%s() evaluated" % op)
            d = _frac_dict(ev["point"])
            if is_evaluated(f, _pruned(d)) or is_evaluated(f, d):
                if op in ("value", "__call__") or ev["reuse_gradient"]:
                    info["reused"] += 1      # no new leaf, no new sample: C07's model
                    continue
                raise Outside("new subgradient of a non-differentiable function at an already evaluated point "
                              "(%s(); reuse is C07's model)" % op)
            keys_ok(d, "%s() argument" % op)
            ops.append(("eval", f, list(d.items())))
            rec(f, d)
            np_ += 1
            ne_ += 1
        elif op in STEP_NAMES:
            a = ev["args"]
            info["steps"].add(op)

            def fun(name):
                return need_leaf_function(a[name][1], "%s on it" % op)

            def pt(name):
                return _frac_dict(a[name][1])
            if op == "proximal_step":
                f, p, gamma = fun("f"), pt("x0"), _scalar(a["gamma"][1], "gamma")
                keys_ok(p, op)
                if not gamma > 0:
                    info["hypotheses"].append("proximal_step with step size %s (not positive)" % gamma)
                ops.append(("prox", f, list(p.items()), gamma))
                q = dict(p)
                q[np_] = q.get(np_, 0) - gamma
                rec(f, q)
                np_ += 1
                ne_ += 1
            elif op == "linear_optimization_step":
                f, p = fun("ind"), pt("dir")
                keys_ok(p, op)
                if not _pruned(p):
                    info["hypotheses"].append("linear_optimization_step with the zero direction")
                ops.append(("linopt", f, list(p.items())))
                rec(f, {np_: Fraction(1)})
                np_ += 1
                ne_ += 1
            elif op == "inexact_gradient_step":
                f, p = fun("f"), pt("x0")
                notion = a["notion"][1]
                if notion not in ("absolute", "relative"):
                    raise Outside("inexact_gradient_step notion %r" % (notion,))
                keys_ok(p, op)
                if is_evaluated(f, _pruned(p)):
                    raise Outside("inexact_gradient_step at an already evaluated point (reuse is C07's model)")
                ops.append(("inexact", f, list(p.items()), notion, _scalar(a["epsilon"][1], "epsilon"),
                            _scalar(a["gamma"][1], "gamma")))
                rec(f, p)
                np_ += 2
                ne_ += 1
            elif op == "exact_linesearch_step":
                f, p = fun("f"), pt("x0")
                dirs = [_frac_dict(d) for d in a["directions"][1]]
                keys_ok(p, op)
                for d in dirs:
                    keys_ok(d, op + " direction")
                ops.append(("linesearch", f, list(p.items()), [list(d.items()) for d in dirs]))
                rec(f, {np_: Fraction(1)})
                np_ += 2
                ne_ += 1
            elif op == "epsilon_subgradient_step":
                f, p = fun("f"), pt("x0")
                keys_ok(p, op)
                if is_evaluated(f, _pruned(p)):
                    raise Outside("epsilon_subgradient_step at an already evaluated point (reuse is C07's model)")
                ops.append(("epssub", f, list(p.items()), _scalar(a["gamma"][1], "gamma")))
                rec(f, p)
                rec(f, {np_ + 2: Fraction(1)})
                np_ += 3
                ne_ += 3
            elif op == "bregman_gradient_step":
                h, sx0, gx0, gamma = fun("mirror_map"), pt("sx0"), pt("gx0"), _scalar(a["gamma"][1], "gamma")
                keys_ok(sx0, op)
                keys_ok(gx0, op)
                dual = dict(sx0)
                for k, v in gx0.items():
                    dual[k] = dual.get(k, 0) - gamma * v
                if not _pruned(dual):
                    info["hypotheses"].append("bregman_gradient_step whose dual point is the zero vector")
                ops.append(("breggrad", h, list(sx0.items()), list(gx0.items()), gamma))
                rec(h, {np_: Fraction(1)})
                np_ += 1
                ne_ += 1
            elif op == "bregman_proximal_step":
                h, f, sx0, gamma = fun("mirror_map"), fun("min_function"), pt("sx0"), _scalar(a["gamma"][1], "gamma")
                keys_ok(sx0, op)
                if not gamma > 0:
                    info["hypotheses"].append("bregman_proximal_step with step size %s (not positive)" % gamma)
                ops.append(("bregprox", h, list(sx0.items()), f, gamma))
                rec(f, {np_: Fraction(1)})
                rec(h, {np_: Fraction(1)})
                np_ += 2
                ne_ += 2
            elif op == "inexact_proximal_step":
                f, p, gamma, opt = fun("f"), pt("x0"), _scalar(a["gamma"][1], "gamma"), a["opt"][1]
                if opt not in ("PD_gapI", "PD_gapII", "PD_gapIII"):
                    raise Outside("inexact_proximal_step option %r" % (opt,))
                keys_ok(p, op)
                if not gamma > 0:
                    info["hypotheses"].append("inexact_proximal_step with step size %s (not positive)" % gamma)
                ops.append(("iprox", f, list(p.items()), gamma, opt))
                if opt == "PD_gapI":
                    rec(f, {np_ + 1: Fraction(1)})
                    rec(f, {np_ + 2: Fraction(1)})
                    np_ += 4
                    ne_ += 3
                elif opt == "PD_gapII":
                    q = dict(p)
                    q[np_ + 1] = q.get(np_ + 1, 0) - gamma
                    q[np_] = q.get(np_, 0) + 1
                    rec(f, q)
                    np_ += 2
                    ne_ += 2
                else:
                    rec(f, {np_: Fraction(1)})
                    rec(f, {np_ + 2: Fraction(1)})
                    np_ += 3
                    ne_ += 3
        else:
            raise Outside("unknown event %s" % op)
    return len(tr.leaf_functions), ops, info


def _only_stationary(tr, ev):
    """is every use of composite functions in this trace a stationary_point() call?"""
    for e in tr.events:
        if e.get("leaf") is False and e["op"] in FUNCTION_METHODS and e["op"] != "stationary_point":
            return False
        if e["op"] in STEP_NAMES and any(k == "function" and not d["leaf"] for k, d in e["args"].values()):
            return False
    return True


# ------------------------------------------------------------------ Coq literal of a program
def model_point(comb):
    return coq_list(["(%s, %s)" % (coq_nat(k), coq_q(c)) for k, c in comb])


def coq_ops(ops):
    items = []
    for op in ops:
        k = op[0]
        if k == "fresh":
            items.append("MFresh")
        elif k == "stat":
            items.append("MStat %s" % coq_nat(op[1]))
        elif k == "eval":
            items.append("MEval %s %s" % (coq_nat(op[1]), model_point(op[2])))
        elif k == "prox":
            items.append("MProx %s %s %s" % (coq_nat(op[1]), model_point(op[2]), coq_q(op[3])))
        elif k == "linopt":
            items.append("MLinOpt %s %s" % (coq_nat(op[1]), model_point(op[2])))
        elif k == "linesearch":
            items.append("MLineSearch %s %s %s" % (coq_nat(op[1]), model_point(op[2]),
                                                   coq_list([model_point(d) for d in op[3]])))
        elif k == "inexact":
            items.append("MInexact %s %s %s %s" % (coq_nat(op[1]), model_point(op[2]),
                                                   "true" if op[3] == "relative" else "false", coq_q(op[4])))
        elif k == "iprox":
            items.append("MInexactProx %s %s %s %s" % (coq_nat(op[1]), model_point(op[2]), coq_q(op[3]),
                                                       {"PD_gapI": "PDgapI", "PD_gapII": "PDgapII",
                                                        "PD_gapIII": "PDgapIII"}[op[4]]))
        elif k == "epssub":
            items.append("MEpsSub %s %s" % (coq_nat(op[1]), model_point(op[2])))
        elif k == "breggrad":
            items.append("MBregGrad %s %s %s %s" % (coq_nat(op[1]), model_point(op[3]), model_point(op[2]), coq_q(op[4])))
        elif k == "bregprox":
            items.append("MBregProx %s %s %s %s" % (coq_nat(op[1]), coq_nat(op[3]), model_point(op[2]), coq_q(op[4])))
        else:
            raise ValueError(op)
    return coq_list(items)


def coq_program(nf, ops):
    return "(%s, %s)" % (coq_nat(nf), coq_ops(ops))


def expected_dump(tr, wf=1):
    s = tr.snapshot
    return [s["np"], s["ne"], wf, s["samples"], s["cons"]]


# ------------------------------------------------------------------ rounding-tolerant comparison (fallback only)
_TOK = re.compile(r'\s*(DL|DZ|DQ|DS|\[|\]|;|\(|\)|#|-?\d+|"(?:[^"]|"")*"|%[A-Za-z_]+)')


def parse_D(text):
    """parse a printed term of Model.Dump.D (output of `Eval vm_compute`) into nested lists of int / Fraction / str"""
    m = re.search(r"=\s*(D[LZQS].*?)\s*:\s*D\s*$", text, re.S)
    if not m:
        raise ValueError("no D term in %r" % text[:200])
    toks = [t for t in _TOK.findall(m.group(1)) if not t.startswith("%")]
    pos = [0]

    def peek():
        return toks[pos[0]] if pos[0] < len(toks) else None

    def eat(t=None):
        x = toks[pos[0]]
        if t is not None and x != t:
            raise ValueError("expected %s, got %s" % (t, x))
        pos[0] += 1
        return x

    def integer():
        if peek() == "(":
            eat("(")
            v = integer()
            eat(")")
            return v
        return int(eat())

    def rational():
        if peek() == "(":
            eat("(")
            v = rational()
            eat(")")
            return v
        n = integer()
        if peek() == "#":
            eat("#")
            return Fraction(n, int(eat()))
        return Fraction(n)

    def term():
        if peek() == "(":
            eat("(")
            v = term()
            eat(")")
            return v
        t = eat()
        if t == "DZ":
            return integer()
        if t == "DQ":
            return rational()
        if t == "DS":
            return eat()[1:-1].replace('""', '"')
        if t == "DL":
            eat("[")
            out = []
            while peek() != "]":
                out.append(term())
                if peek() == ";":
                    eat(";")
            eat("]")
            return out
        raise ValueError("unexpected token %s" % t)
    return term()


def plain(o):
    """expected Python dump -> the same nested form parse_D produces"""
    if isinstance(o, Q):
        return o.v
    if isinstance(o, bool):
        return int(o)
    if isinstance(o, int):
        return o
    if isinstance(o, (float, Fraction)):
        return to_fraction(o)
    if isinstance(o, (list, tuple)):
        return [plain(x) for x in o]
    if o is None:
        return []
    return o


def close_enough(a, b, rtol=1e-12):
    """equal up to a relative error rtol on every rational; entries of a dictionary dump [[key, q], ...] whose
    coefficient is below rtol times the largest one are treated as absent (an exact 0 is pruned, a rounded one is not)"""
    if isinstance(a, list) and isinstance(b, list):
        def is_dict(x):
            return bool(x) and all(isinstance(e, list) and len(e) == 2 and isinstance(e[1], Fraction) for e in x)
        if is_dict(a) or is_dict(b):
            if not ((is_dict(a) or a == []) and (is_dict(b) or b == [])):
                return False
            scale = max([abs(e[1]) for e in a + b] + [Fraction(1)])
            a = [e for e in a if abs(e[1]) > rtol * scale]
            b = [e for e in b if abs(e[1]) > rtol * scale]
        return len(a) == len(b) and all(close_enough(x, y, rtol) for x, y in zip(a, b))
    if isinstance(a, Fraction) or isinstance(b, Fraction):
        if isinstance(a, (list, str)) or isinstance(b, (list, str)):
            return False
        a, b = Fraction(a), Fraction(b)
        return abs(a - b) <= rtol * max(abs(a), abs(b))
    return a == b


def describe(ops, limit=40):
    """readable form of a program (for samples in the evidence)"""
    out = []
    for op in ops[:limit]:
        out.append([str(x) if isinstance(x, Fraction) else
                    ([[k, str(c)] for k, c in x] if isinstance(x, list) and x and isinstance(x[0], tuple) else
                     ([[[k, str(c)] for k, c in d] for d in x] if isinstance(x, list) and x and isinstance(x[0], list) else x))
                    for x in op])
    if len(ops) > limit:
        out.append("... %d more ops" % (len(ops) - limit))
    return out
