"""C09 — no real run of a modelled method on a real function beats the returned bound.

Proof side (coq/Props/C09.v): running a recorded method in a world makes every recorded sample genuine
(for every program length), genuine samples satisfy every class constraint (C03), hence with a dual
certificate the performance is bounded by tau (weak duality).
Tie: (H) the oracle-recording model (Model/Method.v) is compared with Function.oracle on random programs; and every
shipped example is traced on the real PEPit (harness/extrace.py), converted to a `list mop` when it stays inside the
op language, and `mrun` of that program is compared with the example's real bookkeeping (stream examples-as-programs).
Search / validation (never the proof): the SOURCE of the shipped examples is re-executed in a concrete
world (harness/concrete.py: real members of the declared classes, exact steps) from feasible starting
points and the achieved performance is compared with the value PEPit returns for the same parameters."""
import glob
import math
import os
import random
import re
import time
import warnings

from . import terms as T
from . import classes as CL
from . import concrete as CW
from .common import run_cases, model_output, coq_nat, coq_q, coq_list, Q, REPO, COQ

GEN_DEPS = ["Classes.v"]     # the composition theorems are about the regenerated class plans
TRUSTED = [
    "Model/Method.v models only the recording of evaluations and proximal steps of LEAF functions at not-yet-"
    "evaluated points (reuse of evaluations and composite functions are property C07's model)",
    "Spec/World.v specifies the proximal operator of a world's function (prox_genuine); that the proximal point of a "
    "convex function meets it is C08's optimality theorem (Proofs/C09Prox.v is_prox_spec)",
    "Spec/World.v: what running a method in a world means (hand-written specification)",
    "Spec/World.v specifies the epsilon-subgradient oracle (epssub_spec: the conjugate is attained at a point y, as in "
    "PEPit's encoding), the mirror map inverse (mirror_genuine) and the Bregman proximal operator (bprox_genuine); that "
    "the real steps meet them is C08's theorems (Proofs/C09Steps.v is_epssub_spec / is_mirror_spec / is_bprox_spec)",
    "Spec/World.v specifies the approximate proximal operator of inexact_proximal_step (iprox_spec: genuine samples and the "
    "criterion of the option with the accuracy returned; it is the primal-dual gap of C08, Proofs/C09Steps.v "
    "iprox_spec_is_pd_gap); the model asks for a positive step size (Python divides by gamma only for 'PD_gapIII')",
    "the link between an example's Python code and the method named in its docstring is informal",
    "harness/extrace.py: the converter from a recorded trace of a shipped example to a list mop is hand-written; what it "
    "emits is checked by comparing mrun of the program with the real state the example built (all leaf functions, counters, "
    "step constraints); examples using composite functions, fixed_point(), block partitions or a step at an already "
    "evaluated point are outside the op language and are only listed",
    "harness/concrete.py (numerical members and exact steps) is used only to search for counterexamples",
]
ASSUMES = [
    "solver assumption of C01 (the SDP solver returns KKT duals); weak duality is conditional on it",
    "class membership definitions of Spec/Classes.v (first-principles; textbook equivalences listed in DESIGN.md 5.3)",
]
IMPORTS = ["From PV Require Import Model.Method Model.MethodDump."]
RUN = "fun c => dump_mrun (fst c) (snd c)"
INPUT_TYPE = "(nat * list mop)"

CLASSES_FOR_RECORDING = ["SmoothConvexFunction", "ConvexFunction", "SmoothStronglyConvexFunction", "MonotoneOperator",
                         "LipschitzOperator", "StronglyConvexFunction"]


# ------------------------------------------------------------------ stream 1: oracle recording
def gen_program(rng):
    """random program of free points, stationary points, oracle calls and primitive steps; one case in five is an
    interleaved proximal-gradient-like run on two functions (see gen_splitting)"""
    if rng.random() < 0.2:
        return gen_splitting(rng)
    nf = rng.randint(1, 3)
    n = rng.randint(1, 9)
    ops = []
    npnt = 0
    seen = [set() for _ in range(nf)]
    for _ in range(n):
        if npnt == 0 or rng.random() < 0.3:
            if rng.random() < 0.3:
                fs = rng.randrange(nf)
                ops.append(("stat", fs))
                seen[fs].add(((npnt, 1),))       # the stationary point itself counts as evaluated on fs
            else:
                ops.append(("fresh",))
            npnt += 1
            continue
        f = rng.randrange(nf)
        for _try in range(20):
            k = rng.randint(1, min(3, npnt))
            keys = rng.sample(range(npnt), k)
            coefs = [rng.choice([1, 1, -1, 2, 0.5, -0.5, 0.25, 3, -2]) for _ in keys]
            key = tuple(sorted(zip(keys, coefs)))
            if key not in seen[f]:
                seen[f].add(key)
                break
        else:
            continue
        r = rng.random()
        if r < 0.08:
            # x, g0, f0, eps = epsilon_subgradient_step(p, f, gamma): a fresh leaf g0, the oracle call f.value(p) (p not
            # yet evaluated on f), a fresh value leaf epsilon, fresh leaves y, fy, the sample (y, g0, fy) and one
            # constraint on f (three point leaves, three value leaves)
            seen[f].add(((npnt + 2, 1),))
            ops.append(("epssub", f, list(zip(keys, coefs)), rng.choice([0.5, 1, 2.0, 0, -1, 0.25])))
            npnt += 3
            continue
        if r < 0.15:
            # x, sx, hx = bregman_gradient_step(gx0, sx0, h, gamma): the recorded point is the fresh leaf x, the recorded
            # gradient sx0 - gamma * gx0 (sometimes the zero vector: an empty dictionary)
            seen[f].discard(key)
            seen[f].add(((npnt, 1),))
            kk = rng.sample(range(npnt), rng.randint(1, min(2, npnt)))
            gx0 = [(q, rng.choice([1, -1, 2, 0.5])) for q in kk]
            sx0 = list(zip(keys, coefs))
            gamma = rng.choice([0.5, 1, 2.0, 0.25, 0, -1, 1.5])
            if rng.random() < 0.1:
                gx0, gamma = list(sx0), 1
            ops.append(("breggrad", f, sx0, gx0, gamma))
            npnt += 1
            continue
        if r < 0.22:
            # x, sx, hx, gx, fx = bregman_proximal_step(sx0, h, f, gamma): fresh leaves x, gx; (x, gx, fx) on f2 and then
            # (x, sx0 - gamma * gx, hx) on the mirror map f (f2 may be f itself)
            f2 = rng.randrange(nf)
            seen[f].discard(key)
            seen[f].add(((npnt, 1),))
            seen[f2].add(((npnt, 1),))
            ops.append(("bregprox", f, list(zip(keys, coefs)), f2, rng.choice([0.5, 1, 2.0, 0.25, 1.5, 4.0, 0, -1])))
            npnt += 2
            continue
        if r < 0.31:
            # x, gx, fx, w, v, fw, eps_var = inexact_proximal_step(p, f, gamma, opt): 'PD_gapI' four point leaves, samples
            # (w, v, fw), (x, gx, fx); 'PD_gapII' two point leaves, the sample (p - gamma * gx + e, gx, fx); 'PD_gapIII'
            # three point leaves, samples (x, gx, fx), (w, (p - x) / gamma, fw); three / two value leaves and one
            # constraint on f.  Step sizes are powers of two (1 / gamma is computed in floating point), 0 and -1 only
            # where Python does not divide by gamma
            opt = rng.choice(["PD_gapI", "PD_gapII", "PD_gapIII"])
            gamma = rng.choice([0.5, 1, 2.0, 0.25, 4.0, 0.125] + ([0, -1] if opt != "PD_gapIII" else [-2.0]))
            comb = list(zip(keys, coefs))
            seen[f].discard(key)
            if opt == "PD_gapI":
                seen[f].add(((npnt + 1, 1),))
                seen[f].add(((npnt + 2, 1),))
                npnt += 4
            elif opt == "PD_gapII":
                seen[f].add(tuple(sorted([(k, c) for k, c in comb] + ([(npnt + 1, -gamma)] if gamma != 0 else [])
                                         + [(npnt, 1)])))
                npnt += 2
            else:
                seen[f].add(((npnt, 1),))
                seen[f].add(((npnt + 2, 1),))
                npnt += 3
            ops.append(("iprox", f, comb, gamma, opt))
            continue
        r = (r - 0.31) / 0.69
        if r < 0.15:
            # x, gx, fx = linear_optimization_step(dir, f): the recorded point is the fresh leaf x; one time in ten
            # the direction is 0 * leaf (the recorded gradient dictionary is then empty)
            seen[f].discard(key)
            seen[f].add(((npnt, 1),))
            comb = list(zip(keys, coefs))
            if rng.random() < 0.1:
                comb = [(keys[0], 0)]
            ops.append(("linopt", f, comb))
        elif r < 0.22:
            # x, gx, fx = exact_linesearch_step(x0, f, dirs): a fresh leaf x (counts as evaluated on f), its oracle
            # call (gradient leaf, value leaf) and 1 + len(dirs) orthogonality constraints on f
            dirs = []
            for _d in range(rng.choice([0, 1, 1, 2])):
                kk = rng.sample(range(npnt), rng.randint(1, min(2, npnt)))
                dirs.append([(q, rng.choice([1, -1, 2, 0.5])) for q in kk])
            seen[f].discard(key)
            seen[f].add(((npnt, 1),))
            ops.append(("linesearch", f, list(zip(keys, coefs)), dirs))
            npnt += 1
        elif r < 0.34:
            # x, dx0, fx0 = inexact_gradient_step(p, f, gamma, eps, notion): an oracle call at p, a fresh leaf dx0 and
            # an accuracy constraint on f (two point leaves)
            ops.append(("inexact", f, list(zip(keys, coefs)), rng.choice(["absolute", "relative"]),
                        rng.choice([0.5, 1, 0.25, 2.0, 0, 0.125]), rng.choice([0.5, 1, 2.0, 0])))
            npnt += 1
        elif r < 0.55:
            # x, gx, fx = proximal_step(p, f, gamma): the recorded point p - gamma * gx counts as evaluated on f
            gamma = rng.choice([0.5, 1, 1.0, 2, 0.25, 4.0, 1.5, 0.125, 0, -1])
            seen[f].discard(key)
            seen[f].add(tuple(sorted(list(zip(keys, coefs)) + ([(npnt, -gamma)] if gamma != 0 else []))))
            ops.append(("prox", f, list(zip(keys, coefs)), gamma))
        else:
            ops.append(("eval", f, list(zip(keys, coefs))))
        npnt += 1
    return nf, ops


def gen_splitting(rng):
    """proximal gradient / Douglas-Rachford-like runs on two functions: oracle calls and proximal steps
    interleaved, every new iterate a combination of everything before (x - gamma * g, then its proximal point)"""
    ops = [("fresh",)]
    npnt = 1
    x = [(0, 1)]
    kind = rng.choice(["proximal_gradient", "prox_prox", "prox_then_gradient"])
    for _ in range(rng.randint(1, 3)):
        gamma = rng.choice([0.5, 1, 0.25, 2.0])
        if kind == "proximal_gradient":
            ops.append(("eval", 0, list(x)))              # g = f0.gradient(x)
            y = x + [(npnt, -gamma)]
            npnt += 1
            ops.append(("prox", 1, list(y), gamma))       # x+ = prox_{gamma f1}(x - gamma g)
            x = y + [(npnt, -gamma)]
            npnt += 1
        elif kind == "prox_prox":
            ops.append(("prox", 0, list(x), gamma))       # y = prox_{gamma f0}(x)
            y = x + [(npnt, -gamma)]
            npnt += 1
            g2 = rng.choice([0.5, 1, 4.0])
            ops.append(("prox", 1, list(y), g2))          # x+ = prox_{g2 f1}(y)
            x = y + [(npnt, -g2)]
            npnt += 1
        else:
            ops.append(("prox", 1, list(x), gamma))
            y = x + [(npnt, -gamma)]
            npnt += 1
            ops.append(("eval", 0, list(y)))
            x = y + [(npnt, -gamma)]
            npnt += 1
    return 2, ops


def impl_program(nf, ops, rng_classes):
    from PEPit import PEP, Point, Expression
    pep = PEP()
    funcs = []
    for i in range(nf):
        name = rng_classes[i % len(rng_classes)]
        params = CL.draw_params(random.Random(i + 5), name)
        funcs.append(pep.declare_function(CL.get_class(name), **params))
    leaves = {}

    def leaf(i):
        return Point.list_of_leaf_points[i]
    for op in ops:
        if op[0] == "fresh":
            Point()
        elif op[0] == "stat":
            funcs[op[1]].stationary_point()
        else:
            f, comb = op[1], op[2]

            def build(comb):
                p = None
                for k, c in comb:
                    term = leaf(k) if c == 1 else c * leaf(k)
                    p = term if p is None else p + term
                if len(comb) == 1 and comb[0][1] == 1:
                    p = leaf(comb[0][0])
                return p
            p = build(comb)
            if op[0] == "epssub":
                from PEPit.primitive_steps import epsilon_subgradient_step
                epsilon_subgradient_step(p, funcs[f], op[3])
            elif op[0] == "breggrad":
                from PEPit.primitive_steps import bregman_gradient_step
                bregman_gradient_step(build(op[3]), p, funcs[f], op[4])
            elif op[0] == "bregprox":
                from PEPit.primitive_steps import bregman_proximal_step
                bregman_proximal_step(p, funcs[f], funcs[op[3]], op[4])
            elif op[0] == "iprox":
                from PEPit.primitive_steps import inexact_proximal_step
                inexact_proximal_step(p, funcs[f], op[3], opt=op[4])
            elif op[0] == "prox":
                from PEPit.primitive_steps import proximal_step
                proximal_step(p, funcs[f], op[3])
            elif op[0] == "linopt":
                from PEPit.primitive_steps import linear_optimization_step
                linear_optimization_step(p, funcs[f])
            elif op[0] == "linesearch":
                from PEPit.primitive_steps import exact_linesearch_step
                exact_linesearch_step(p, funcs[f], [build(d) for d in op[3]])
            elif op[0] == "inexact":
                from PEPit.primitive_steps import inexact_gradient_step
                inexact_gradient_step(p, funcs[f], gamma=op[5], epsilon=op[4], notion=op[3])
            else:
                funcs[f].oracle(p)
    pid = T.IdMap()
    for p in Point.list_of_leaf_points:
        pid.add(p, p.counter)
    xid = T.IdMap()
    for e in Expression.list_of_leaf_expressions:
        xid.add(e, e.counter)
    out = []
    for f in funcs:
        out.append([[T.dump_pdict(x.decomposition_dict, pid), T.dump_pdict(g.decomposition_dict, pid),
                     T.dump_edict(fx.decomposition_dict, pid, xid)] for x, g, fx in f.list_of_points])
    # third entry: the model's well-formedness check of the program (evaluated points only mention existing leaves,
    # which holds by construction; proximal steps have a positive step size)
    wf = 0 if any((op[0] == "prox" and not op[3] > 0) or (op[0] == "bregprox" and not op[4] > 0)
                    or (op[0] == "iprox" and not op[3] > 0) for op in ops) else 1
    cons = [[T.dump_constraint(c, pid, xid) for c in f.list_of_constraints] for f in funcs]
    return [Point.counter, Expression.counter, wf, out, cons]


def model_point(comb):
    """dictionary the Point operators produce for sum_k c_k * leaf_k built left to right (distinct leaves)"""
    return coq_list(["(%s, %s)" % (coq_nat(k), coq_q(c)) for k, c in comb])


def coq_program(nf, ops):
    items = []
    for op in ops:
        if op[0] == "fresh":
            items.append("MFresh")
        elif op[0] == "stat":
            items.append("MStat %s" % coq_nat(op[1]))
        elif op[0] == "prox":
            items.append("MProx %s %s %s" % (coq_nat(op[1]), model_point(op[2]), coq_q(op[3])))
        elif op[0] == "linopt":
            items.append("MLinOpt %s %s" % (coq_nat(op[1]), model_point(op[2])))
        elif op[0] == "linesearch":
            items.append("MLineSearch %s %s %s" % (coq_nat(op[1]), model_point(op[2]),
                                                   coq_list([model_point(d) for d in op[3]])))
        elif op[0] == "inexact":
            items.append("MInexact %s %s %s %s" % (coq_nat(op[1]), model_point(op[2]),
                                                   "true" if op[3] == "relative" else "false", coq_q(op[4])))
        elif op[0] == "iprox":
            items.append("MInexactProx %s %s %s %s" % (coq_nat(op[1]), model_point(op[2]), coq_q(op[3]),
                                                       {"PD_gapI": "PDgapI", "PD_gapII": "PDgapII", "PD_gapIII": "PDgapIII"}[op[4]]))
        elif op[0] == "epssub":
            items.append("MEpsSub %s %s" % (coq_nat(op[1]), model_point(op[2])))
        elif op[0] == "breggrad":
            items.append("MBregGrad %s %s %s %s" % (coq_nat(op[1]), model_point(op[3]), model_point(op[2]), coq_q(op[4])))
        elif op[0] == "bregprox":
            items.append("MBregProx %s %s %s %s" % (coq_nat(op[1]), coq_nat(op[3]), model_point(op[2]), coq_q(op[4])))
        else:
            items.append("MEval %s %s" % (coq_nat(op[1]), model_point(op[2])))
    return "(%s, %s)" % (coq_nat(nf), coq_list(items))


def stream_recording(tier, seed):
    rng = random.Random(seed * 104729 + 9)
    n = 400 if tier == "quick" else 4000
    cases, progs = [], []
    hist = {"fresh": 0, "eval": 0, "stat": 0, "prox": 0, "linopt": 0, "inexact": 0, "linesearch": 0,
            "epssub": 0, "breggrad": 0, "bregprox": 0, "iprox": 0}
    n_interleaved = 0
    distinct = set()
    for i in range(n):
        nf, ops = gen_program(rng)
        cls = rng.sample(CLASSES_FOR_RECORDING, len(CLASSES_FOR_RECORDING))
        exp = impl_program(nf, ops, cls)
        cases.append((coq_program(nf, ops), exp))
        progs.append((nf, ops))
        for op in ops:
            hist[op[0]] += 1
        if sum(1 for op in ops if op[0] in ("eval", "prox", "linopt", "inexact", "linesearch",
                                            "epssub", "breggrad", "bregprox", "iprox")) >= 2:
            distinct.add(repr((nf, ops)))
        if any(op[0] == "prox" for op in ops) and any(op[0] == "eval" for op in ops):
            n_interleaved += 1
    bad = run_cases("c09rec", IMPORTS, RUN, cases, input_type=INPUT_TYPE)
    mism = [dict(program=progs[i], implementation=cases[i][1], model=model_output(IMPORTS, RUN, cases[i][0]))
            for i in bad[:3]]
    return dict(name="oracle-recording", evaluations=len(cases), distinct_nontrivial=len(distinct),
                rule="seeded random programs of free points, stationary points, oracle calls, proximal steps (the "
                     "real PEPit.primitive_steps.proximal_step, dyadic step sizes incl. 0 and a negative one) and "
                     "linear-optimization steps (the real linear_optimization_step, incl. the zero direction) and inexact "
                     "gradient steps (the real inexact_gradient_step, both notions; its accuracy constraint on the "
                     "function is compared too) and exact line searches (the real exact_linesearch_step with 0-2 directions, "
                     "its orthogonality constraints compared too) and epsilon-subgradient steps (the real "
                     "epsilon_subgradient_step: three point leaves, three value leaves, two samples, its constraint compared "
                     "too) and Bregman gradient / proximal steps (the real bregman_gradient_step incl. a zero dual point, "
                     "bregman_proximal_step on one or two functions, step sizes incl. 0 and a negative one) and inexact "
                     "proximal steps (the real inexact_proximal_step, all three options, its accuracy constraint compared "
                     "too) on 1-3 "
                     "leaf functions (6 classes) at dyadic combinations of earlier leaves; one program in five is a "
                     "proximal-gradient / prox-prox run on two functions with oracle calls and proximal steps "
                     "interleaved; non-trivial = at least 2 evaluations / proximal steps; distinct by syntax",
                n_mismatch=len(bad), mismatches=mism, problems=[],
                samples=[dict(program=progs[i], recorded=cases[i][1]) for i in range(min(2, len(progs)))],
                distribution=dict(ops=hist, programs_with_prox_and_oracle=n_interleaved))


# ------------------------------------------------------------------ stream 2: examples in a concrete world
def example_files():
    root = os.path.join(REPO, "PEPit", "examples")
    return [p for p in sorted(glob.glob(os.path.join(root, "*", "*.py"))) if not os.path.basename(p).startswith("__")]


def real_value(path, fname, kwargs):
    """value PEPit returns for the example (dual bound), run in this process"""
    import importlib.util
    spec = importlib.util.spec_from_file_location("pepit_example_" + fname, path)
    mod = importlib.util.module_from_spec(spec)
    # relative imports inside examples are not needed by the wc_ function itself
    src = open(path).read()
    code = compile(src, path, "exec")
    ns = {"__name__": "pepit_example"}
    exec(code, ns)
    kw = dict(kwargs)
    kw.update(wrapper="cvxpy", solver=None, verbose=-1)
    # the primal / dual values of every solve are observed from outside (no change to PEPit): a large duality gap
    # means the numerical solver did not converge, and the returned number is then not a bound to compare with
    import PEPit.pep as pep_module
    gaps = []
    orig = pep_module.PEP.check_feasibility

    def spy(self, wc_value, verbose=1):
        dual = orig(self, wc_value, verbose=verbose)
        gaps.append(abs(dual - wc_value) / max(1e-9, abs(dual), abs(wc_value)))
        return dual
    pep_module.PEP.check_feasibility = spy
    try:
        with warnings.catch_warnings():
            warnings.simplefilter("ignore")
            out = ns[fname](**kw)
    finally:
        pep_module.PEP.check_feasibility = orig
    if gaps and max(gaps) > 1e-3:
        raise SolverInaccurate("relative duality gap %.2e" % max(gaps))
    return out[0], out[1]


class SolverInaccurate(Exception):
    pass


def perturb(kwargs, rng):
    """another admissible parameter tuple near the documented one (only parameters whose range is obvious: iteration
    counts, step sizes and accuracies shrink or grow mildly; a cocoercivity constant may be any positive number; a
    pair (mu, L) is rescaled jointly so that mu < L is preserved).  Many class formulas coincide at L = 1 or beta = 1,
    which is what the documented parameter tuples mostly use."""
    kw = dict(kwargs)
    num = lambda v: isinstance(v, (int, float)) and not isinstance(v, bool)
    if "n" in kw and isinstance(kw["n"], int) and kw["n"] >= 2 and rng.random() < 0.7:
        kw["n"] = max(1, kw["n"] + rng.choice([-1, -1, 1]))
    if "gamma" in kw and num(kw["gamma"]):
        kw["gamma"] = kw["gamma"] * rng.choice([0.5, 0.8, 1.0])
    if "epsilon" in kw and num(kw["epsilon"]):
        kw["epsilon"] = kw["epsilon"] * rng.choice([0.5, 1.0, 2.0])
    if "beta" in kw and num(kw["beta"]) and "L" in kw and "mu" in kw:
        kw["beta"] = kw["beta"] * rng.choice([0.1, 0.3, 1.0])
    if "L" in kw and num(kw["L"]) and rng.random() < 0.6 and "gamma" not in kw and "alpha" not in kw:
        c = rng.choice([0.5, 2.0, 3.0])
        kw["L"] = kw["L"] * c
        if "mu" in kw and num(kw["mu"]):
            kw["mu"] = kw["mu"] * c
    return kw


def check_example(path, rng, n_worlds, perturbed):
    """returns (status, record)"""
    rel = os.path.relpath(path, os.path.join(REPO, "PEPit", "examples"))
    try:
        code, fname, mb = CW.load_example(path)
        if fname is None:
            return "skip", dict(example=rel, why="no wc_ function")
        ns = CW.concrete_namespace()
        exec(code, ns)
        kw = CW.main_kwargs(mb, fname, ns)
        if kw is None:
            return "skip", dict(example=rel, why="no literal call in __main__")
        kw = {k: v for k, v in kw.items() if k not in ("wrapper", "solver", "verbose")}
        if perturbed:
            kw = perturb(kw, rng)
        # does the concrete world support it at all?
        why = None
        for probe in range(1, 6):
            try:
                CW.best_feasible_run(code, fname, kw, probe, 4)
                why = None
                break
            except CW.Unsupported as e:
                why = str(e)
        if why is not None:
            return "skip", dict(example=rel, why=why)
    except CW.Unsupported as e:
        return "skip", dict(example=rel, why=str(e))
    except Exception as e:
        return "skip", dict(example=rel, why="concrete world failed: %r" % (e,))
    try:
        tau, theory = real_value(path, fname, kw)
    except Exception as e:
        return "skip", dict(example=rel, why="PEPit run failed: %r" % (e,))
    if tau is None or not math.isfinite(tau):
        return "skip", dict(example=rel, why="no finite value")
    worst = -math.inf
    runs = 0
    worst_case = None
    for _ in range(n_worlds):
        seed = rng.randrange(10 ** 9)
        dim = rng.choice([1, 2, 2, 3, 4, 6])
        try:
            t, perf, knob = CW.tuned_run(code, fname, kw, seed, dim)
        except (CW.Unsupported, np_linalg_error()):
            continue
        except Exception:
            continue
        if not math.isfinite(perf):
            continue
        runs += 1
        if perf > worst:
            worst, worst_case = perf, dict(world_seed=seed, dim=dim, scaling=t, knob=knob)
    rec = dict(example=rel, kwargs=kw, pepit_value=tau, worst_real_run=worst if runs else None, worlds=runs,
               **(worst_case or {}))
    if runs == 0:
        return "skip", dict(example=rel, why="no feasible world")
    tol = 2e-3 * abs(tau) + 2e-5
    if worst > tau + tol:
        return "violation", rec
    return "ok", rec


def np_linalg_error():
    import numpy as np
    return np.linalg.LinAlgError


def stream_examples(tier, seed, only=None):
    rng = random.Random(seed * 7907 + 99)
    files = example_files()
    if only:
        files = [f for f in files if any(o in f for o in only)]
    elif tier == "quick":
        rng2 = random.Random(seed)
        core = [f for f in files if os.path.basename(f) in
                ("gradient_descent.py", "proximal_point.py", "accelerated_gradient_strongly_convex.py",
                 "subgradient_method.py", "halpern_iteration.py", "proximal_gradient.py")]
        rest = [f for f in files if f not in core]
        rng2.shuffle(rest)
        files = core + rest[:10]
    n_worlds = 10 if tier == "quick" else 60
    ok, skipped, problems, recs = 0, [], [], []
    t0 = time.time()
    budget = 80 if tier == "quick" else 1500
    for path in files:
        if time.time() - t0 > budget:
            skipped.append(dict(example=os.path.basename(path), why="time budget of the tier"))
            continue
        for perturbed in ([rng.random() < 0.4] if tier == "quick" else [False, True, True]):
            st, rec = check_example(path, rng, n_worlds, perturbed)
            if st == "ok":
                ok += 1
                recs.append(rec)
            elif st == "violation":
                problems.append(dict(kind="real-run-beats-bound", **rec))
                recs.append(rec)
            else:
                skipped.append(rec)
    evals = sum(r.get("worlds", 0) for r in recs)
    return dict(name="examples-in-a-concrete-world", evaluations=evals, distinct_nontrivial=len(recs),
                rule="source of shipped examples re-executed with real members of the declared classes (seeded "
                     "worlds, dim 2-6, starting points scaled onto the boundary of the initial condition); "
                     "distinct = (example, parameter tuple) pairs actually compared with PEPit's value",
                n_mismatch=0, mismatches=[], problems=problems[:5], n_problems=len(problems),
                samples=recs[:3] or [dict(note="no example ran")],
                distribution=dict(compared=len(recs), ok=ok, skipped=len(skipped),
                                  skipped_reasons=sorted(set(s.get("why", "")[:60] for s in skipped))[:12]))


# ------------------------------------------------------------------ stream 3: shipped example = program of the op language
def _reason_kind(reason):
    """group the reasons for the histogram (the part before the first ':' or '(')"""
    return re.split(r"[:(]", reason, 1)[0].strip()


def stream_examples_as_programs(tier, seed, only=None):
    """every shipped example (PEPit/examples/*/*.py, called with the parameters of tests/test_examples.py) is traced
    on the real PEPit (harness/extrace.py), converted to a `list mop` when it stays inside the op language, and
    `mrun ops minit` is compared with the real bookkeeping at the moment the example calls PEP.solve"""
    from . import extrace as X
    t0 = time.time()
    budget = 60 if tier == "quick" else 600
    calls = X.all_calls()
    if only:
        calls = [c for c in calls if any(o in c[0] for o in only)]
    traced, outside, problems, not_traced = 0, {}, [], {}
    cases, meta = [], []
    hist_ops, hist_steps = {}, {}
    n_reused = 0
    for rel, fn, args, kw, src in calls:
        if fn is None:
            not_traced[rel] = src
            continue
        if time.time() - t0 > budget:
            not_traced[rel] = "time budget of the tier"
            continue
        tr, dt, err = X.trace_example(fn, args, kw)
        if err is not None:
            not_traced[rel] = "tracing failed: " + err[:120]
            continue
        if tier == "quick" and dt >= 1.0:
            not_traced[rel] = "tracing takes %.1f s (thorough tier only)" % dt
            continue
        traced += 1
        try:
            nf, ops, info = X.convert(tr)
        except X.Outside as e:
            outside[rel] = str(e)
            continue
        for op in ops:
            hist_ops[op[0]] = hist_ops.get(op[0], 0) + 1
        for s_ in info["steps"]:
            hist_steps[s_] = hist_steps.get(s_, 0) + 1
        n_reused += info["reused"]
        if info["hypotheses"]:
            problems.append(dict(kind="example-outside-the-hypotheses-of-the-theorems", example=rel,
                                 hypotheses=info["hypotheses"]))
        try:
            lit = X.coq_program(nf, ops)
        except AssertionError:
            outside[rel] = "program too long for a nat literal"
            continue
        cases.append((lit, X.expected_dump(tr, wf=1)))
        meta.append(dict(example=rel, function=fn.__name__, parameters_from=src,
                         kwargs={k: v for k, v in kw.items() if k not in ("wrapper", "solver", "verbose")},
                         args=list(args), nf=nf, ops=ops, n_ops=len(ops), reused_evaluations=info["reused"],
                         steps=sorted(info["steps"])))
    bad = run_cases("c09ex", IMPORTS, RUN, cases, input_type=INPUT_TYPE, shard=12) if cases else []
    # a disagreement that is only floating-point rounding of the example's own coefficient arithmetic (the model
    # computes on the exact rationals of the floats it is given) is compared again with a relative tolerance
    rounding_only, mism = [], []
    for i in bad:
        out = model_output(IMPORTS, RUN, cases[i][0])
        try:
            close = X.close_enough(X.parse_D(out), X.plain(cases[i][1]))
        except Exception as e:
            close = False
            out = "%s\n(unparsable model output: %r)" % (out, e)
        if close:
            rounding_only.append(meta[i]["example"])
        else:
            mism.append(dict(example=meta[i]["example"], kwargs=meta[i]["kwargs"], program=X.describe(meta[i]["ops"]),
                             implementation=cases[i][1], model=out[:3000]))
    for m in mism:
        problems.append(dict(kind="model-run-differs-from-real-bookkeeping", example=m["example"], kwargs=m["kwargs"]))
    kinds = {}
    for r in outside.values():
        kinds[_reason_kind(r)] = kinds.get(_reason_kind(r), 0) + 1
    sample = None
    for want in ("unconstrained_convex_minimization/proximal_point.py", "unconstrained_convex_minimization/gradient_descent.py"):
        for i, m in enumerate(meta):
            if m["example"] == want and sample is None:
                sample = dict(example=m["example"], function=m["function"], kwargs=m["kwargs"], nf=m["nf"],
                              program=X.describe(m["ops"]), coq_literal=cases[i][0], real_state=cases[i][1])
    if sample is None and meta:
        sample = dict(example=meta[0]["example"], kwargs=meta[0]["kwargs"], program=X.describe(meta[0]["ops"]),
                      coq_literal=cases[0][0])
    # is the literal of Proofs/C09Shipped.v (Example C09_shipped_proximal_point_is_a_program) still the traced program?
    literal_ok = None
    try:
        src = open(os.path.join(COQ, "Proofs", "C09Shipped.v")).read()
        m = re.search(r"Definition shipped_proximal_point_program : list mop :=\s*(.*?)\.\n", src, re.S)
        for i, mt in enumerate(meta):
            if m and mt["example"] == "unconstrained_convex_minimization/proximal_point.py":
                literal_ok = " ".join(m.group(1).split()) == " ".join(X.coq_ops(mt["ops"]).split())
    except OSError:
        pass
    return dict(name="examples-as-programs", evaluations=traced, distinct_nontrivial=len(cases) - len(mism),
                rule="each shipped example file is run once on the real PEPit with its test parameters (tests/"
                     "test_examples.py) under recording patches up to its PEP.solve call; evaluations = examples traced; "
                     "non-trivial = examples whose whole trace is a program of Model/Method.v's op language AND whose "
                     "`mrun ops minit` (counters, well-formedness flag, every leaf function's recorded triples in order, "
                     "the constraints the steps put on functions) equals the real state exactly (or up to 1e-12 relative "
                     "where the example's own float arithmetic rounds: listed in rounding_only); examples outside the "
                     "language are listed with the first reason and are not violations",
                n_mismatch=len(mism), mismatches=mism[:3], problems=problems[:5], n_problems=len(problems),
                samples=[sample or dict(note="no example converted")],
                distribution=dict(traced=traced, converted=len(cases), compared_exactly=len(cases) - len(bad),
                                  rounding_only=rounding_only, outside_the_language=len(outside),
                                  outside_reasons=outside, outside_reason_kinds=kinds,
                                  outside_composite_only_through_stationary_point=sum(
                                      1 for r in outside.values() if "only used through stationary_point" in r),
                                  not_traced=not_traced,
                                  ops=hist_ops, examples_per_step=hist_steps, reused_evaluations=n_reused,
                                  coq_example_literal_is_the_traced_program=literal_ok,
                                  wall_s=round(time.time() - t0, 1)))


def correspondence(tier, seed, corpus=()):
    return [stream_recording(tier, seed), stream_examples_as_programs(tier, seed), stream_examples(tier, seed)]


def search(tier, seed):
    """failing-input search when a proof or stream broke: (1) real runs of the examples that beat PEPit's value,
    (2) a real member of a class whose genuine samples violate a generated class constraint (then every bound for
    that class is unsound: a real run of any method on that member is not covered by the relaxation)"""
    s = stream_examples("thorough" if tier == "thorough" else "quick", seed + 1)
    if s["problems"]:
        return s["problems"][0]
    from . import members
    rng = random.Random(seed + 909)
    for name in CL.ALL_CLASSES:
        for _ in range(60 if tier == "quick" else 600):
            try:
                r = members.check_class(name, rng, rng.randrange(10 ** 6))
            except Exception:
                continue
            if r and "skipped" not in r:
                return dict(found_in="class constraints exclude a real member (C03)", **r)
    return None


def replay(payload):
    ex = payload.get("example")
    if not ex and payload.get("cls"):
        from . import members
        if "case_seed" in payload and hasattr(members, "check_case"):
            r = members.check_case(payload["cls"], payload["case_seed"])
            return bool(r and "skipped" not in r)
        rng = random.Random(1)
        for _ in range(300):
            r = members.check_class(payload["cls"], rng, rng.randrange(10 ** 6))
            if r and "skipped" not in r:
                return True
        return False
    if not ex:
        return False
    path = os.path.join(REPO, "PEPit", "examples", ex)
    code, fname, mb = CW.load_example(path)
    kw = payload["kwargs"]
    tau, _ = real_value(path, fname, kw)
    t, perf = CW.best_feasible_run(code, fname, kw, payload["world_seed"], payload["dim"], payload.get("knob", 1.0))
    print("example %s kwargs %s: PEPit value %r, real run %r" % (ex, kw, tau, perf))
    return perf > tau + 2e-3 * abs(tau) + 2e-5
