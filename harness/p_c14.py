"""C14 — requesting a dimension-reduction heuristic never changes the reported guarantee.

Proofs: coq/Props/C14.v.  C14_cert_unchanged / C14_options are theorems about coq/Gen/PostSolve.v, regenerated on every
run from PEP._solve_with_wrapper (translator/tr_postsolve.py, fail-closed); C14_feasible_subset / C14_trace are about
Model/Cvxpy.v's prepare_heuristic / heuristic.

Tie (H), stream `scripted-heuristic` (no solver): the real post-solve code runs with a scripted `solve` (every solve call
injects duals tagged by position AND by the index of the call) for heuristic in {None, "", "trace", "logdetN", invalid
strings}, both return modes, bounded / unbounded first solve.  Compared exactly with the models: (a) the cvxpy problems
before and after prepare_heuristic + heuristic (every row, the added row's sense and value, Minimize <W,G> with W), (b) every
eval_dual(), PEP.residual, the reconstruction dictionary and the returned value - which must be those of the FIRST solve's
duals -, (c) the ordered calls made on the wrapper and how the run ended, against the interpreter of Gen/PostSolve.v.
Stream `scs-heuristic`: ~8 sampled bounded models really solved with SCS with and without "trace" / "logdet2" in fresh PEPs:
same dual value and multipliers (1e-9), primal value within tol, every constraint satisfied, trace not increased."""
import random

import numpy as np

from . import terms as T
from . import certlib as L
from . import p_c01
from .common import run_cases, model_output, coq_nat, coq_q, coq_list, coq_str, coq_z, Q, jsonable

GEN_DEPS = ["PostSolve.v", "Entry.v"]
TRUSTED = [
    "translator/tr_entry.py: PEP.solve (back-end selection, forwarding of every option, defaults of both signatures) -> Gen/Entry.v",
    "translator/tr_postsolve.py: PEP._solve_with_wrapper (from the first wrapper.solve to the last return) -> Gen/PostSolve.v; "
    "its reading is cross-checked by the scripted-heuristic stream (ordered wrapper calls and outcome of real runs vs. the "
    "interpreter of the generated program)",
    "Model/Cvxpy.v prepare_heuristic / heuristic are hand-written models of cvxpy_wrapper.py 312-341, tied by the exact "
    "comparison of the recorded cvxpy problems",
    "the interpreter of Proofs/C14PostSolve.v abstracts check_feasibility to 'the reconstruction from the multipliers currently "
    "stored on the constraints' (its arithmetic is C01's Model/Cert.v) and Python's int() to a function string -> option Z",
    "get_nb_eigenvalues_and_corrected_matrix and np.linalg.inv (numpy) only produce W and printed diagnostics",
]
ASSUMES = [
    "C14_trace is conditional on solver optimality of the second solve (explicit hypothesis); measured by the scs-heuristic stream",
    "cvxpy: the feasible set of a Problem is the intersection of its constraints; `a >= b` is stored as `b <= a`",
]

IMPORTS = ["From PV Require Import Model.Sent Model.Cvxpy Model.Cert Gen.PostSolve Proofs.C14Run."]
RUN = ("fun t => match t with "
       "| inl (np, obj, tracked, ids, temp, G, F, M, wc, tol, W) => run_case_heuristic np obj tracked ids temp G F M wc tol W "
       "| inr (h, mode, niter, unb) => run_events h mode niter unb end")
INPUT_TYPE = ("((nat * edict * sent * list nat * list dval * list (list Q) * list Q * list (list (list Q)) * Q * Q * list (list Q))"
              " + (string * string * option Z * bool))")
TOL = 0.25


def py_int_model(s):
    try:
        return int(s)
    except ValueError:
        return None


def run_case(spec, heuristic, mode, unbounded=False):
    """one scripted run; returns dict(problem_case=(coq, dump) | None, events_case=(coq, dump), checks=[...problems...])"""
    from PEPit import Point, Expression
    pep, P, X = L.build_pep(spec)
    Wcls = L.make_wrapper_class()

    def script(w, k):
        duals = L.synthetic_duals(w.prob, spec["dual_seed"], k)
        cons = w.prob.constraints
        for c, v in zip(cons, duals):
            c.save_dual_value(v)
        scale = 1.0 if k == 0 else 0.5
        pts = L.full_pts(spec, w.G.shape[0])
        w.optimal_G = scale * (pts.T @ pts)
        w.optimal_F = L.full_fvals(spec, w.F.shape[0]) + 0.25 * k      # every solve call reports its own values
        wc = None if (unbounded and k == 0) else w.optimal_F[pep.objective.counter]
        return dict(wc_value=wc, duals=duals, constraints=cons, objective=w.prob.objective, prob=w.prob)

    wrapper = Wcls(script, verbose=0)
    pep.wrapper_name = "cvxpy"
    pep.wrapper = wrapper
    outcome, ret = [0], None
    with L.DictRecorder() as rec:
        try:
            ret, _ = L.quiet(pep._solve_with_wrapper, wrapper, verbose=0, return_primal_or_dual=mode,
                             dimension_reduction_heuristic=heuristic, tol_dimension_reduction=TOL)
            if ret is None:
                outcome = [3]
            elif mode == "dual":
                outcome = [0, 1]
            else:
                outcome = [1, len(wrapper.calls)]
        except ValueError:
            outcome = [2]
    checks = []
    # (c) ordered wrapper calls and outcome vs. the interpreter of the generated program
    h = heuristic if heuristic is not None else ""
    niter = py_int_model(h[6:]) if h.startswith("logdet") else None
    ev_case = ("inr (%s, %s, %s, %s)" % (coq_str(h), coq_str(mode),
                                         "None" if niter is None else "Some %s" % coq_z(niter),
                                         "true" if unbounded else "false"),
               [wrapper.events, outcome])
    prob_case = None
    if outcome[0] in (0, 1) and len(wrapper.calls) >= 2:
        pid = T.IdMap(Point.list_of_leaf_points)
        xid = T.IdMap(Expression.list_of_leaf_expressions)
        G, F, Ms = L.tagged_point(spec, wrapper)
        first, second = wrapper.calls[0], wrapper.calls[1]
        rows0 = L.dump_rows(first["constraints"], wrapper, G, F, Ms)
        obj0 = [0, Q(float(first["objective"].args[0].value))]
        rows1 = L.dump_rows(second["constraints"], wrapper, G, F, Ms)
        W1 = L.extract_weight(second["prob"], wrapper)
        if type(second["objective"]).__name__ != "Minimize":
            checks.append(dict(kind="heuristic-objective-is-not-a-minimisation"))
        if not np.array_equal(W1, wrapper.weights[0]):
            checks.append(dict(kind="heuristic-objective-weight-differs-from-argument"))
        if heuristic == "trace" and not np.array_equal(W1, np.identity(Point.counter)):
            checks.append(dict(kind="trace-heuristic-weight-is-not-identity"))
        if len(second["constraints"]) != len(first["constraints"]) + 1 or \
                not all(a is b for a, b in zip(first["constraints"], second["constraints"])):
            checks.append(dict(kind="heuristic-problem-is-not-original-plus-one-row"))
        for later in wrapper.calls[2:]:
            if not (len(later["constraints"]) == len(second["constraints"])
                    and all(a is b for a, b in zip(later["constraints"], second["constraints"]))):
                checks.append(dict(kind="later-heuristic-problem-changes-the-constraints"))
        tracked = wrapper._list_of_constraints_sent_to_solver
        items = L.sent_items(wrapper, pid, xid)
        wc0 = float(first["wc_value"])
        if wrapper.prepare_args != [(first["wc_value"], TOL)]:
            checks.append(dict(kind="prepare_heuristic-arguments", got=repr(wrapper.prepare_args)))
        if mode == "dual":
            tau = Q(float(ret))
        else:
            # primal mode: wc_value of the last solve; the reconstruction is still computed (and recorded)
            if float(ret) != float(wrapper.calls[-1]["wc_value"]):
                checks.append(dict(kind="primal-mode-does-not-return-last-wc_value"))
            d = rec.last
            one = [v for k, v in d.items() if not isinstance(k, tuple) and not hasattr(k, "decomposition_dict")]
            tau = Q(float(one[0]) if one else 0.0)
        impl = [rows0, obj0, rows1, [1, [[Q(float(x)) for x in row] for row in W1]],
                [L.dump_exposed(o) for o in tracked], L.dump_dval(pep.residual),
                T.dump_edict(rec.last, pid, xid), tau]
        obj = T.dump_edict(pep.objective.decomposition_dict, pid, xid)
        Wmodel = np.identity(Point.counter) if heuristic == "trace" else W1
        coq_in = "inl (%s, %s, %s, %s, %s, %s, %s, %s, %s, %s, %s)" % (
            coq_nat(Point.counter), L.coq_edict_from_dump(obj), L.coq_sent(items),
            coq_list([coq_nat(k) for k in L.object_ids(wrapper)]),
            coq_list([L.coq_dval(v) for v in first["duals"]]),
            L.coq_qmat(G), coq_list([coq_q(float(x)) for x in F]), coq_list([L.coq_qmat(M) for M in Ms]),
            coq_q(wc0), coq_q(TOL), L.coq_qmat(Wmodel))
        prob_case = (coq_in, impl)
    return dict(problem_case=prob_case, events_case=ev_case, checks=checks, n_solves=len(wrapper.calls))


HEURISTICS = [None, "", "trace", "trace", "logdet1", "logdet2", "logdet3", "logdet0", "logdet", "logdetx", "tracee", "foo", "logdet-1", "logdet+2",
              "Trace", "log"]


def scripted_stream(tier, seed, corpus):
    rng = random.Random(seed * 60013 + 14)
    n = 110 if tier == "quick" else 1100
    cases, meta, problems = [], [], []
    hist = {}
    distinct = set()
    k = 0
    extra = [c for c in (corpus or []) if "spec" in c]
    while k < n:
        if k < len(extra):
            spec, h, mode, unb = extra[k]["spec"], extra[k].get("heuristic"), extra[k].get("mode", "dual"), \
                extra[k].get("unbounded", False)
        else:
            spec = L.gen_spec(rng, max_scalars=12, max_lmis=3)
            h = rng.choice(HEURISTICS)
            mode = rng.choice(["dual", "dual", "primal", "both"])
            unb = rng.random() < 0.08
        k += 1
        key = dict(spec=spec, heuristic=h, mode=mode, unbounded=unb)
        try:
            r = run_case(spec, h, mode, unb)
        except Exception as e:
            problems.append(dict(kind="implementation-raised", error=repr(e)[:300], **key))
            continue
        for c in r["checks"]:
            problems.append(dict(c, **key))
        cases.append(r["events_case"])
        meta.append(key)
        if r["problem_case"]:
            cases.append(r["problem_case"])
            meta.append(key)
            distinct.add((str(h), mode, p_c01.shape_of(r_items(r["problem_case"]))))
        hist[str(h)] = hist.get(str(h), 0) + 1
    bad = run_cases("c14", IMPORTS, RUN, cases, shard=40, input_type=INPUT_TYPE)
    mism = []
    for i in bad[:3]:
        mism.append(dict(kind="model-differs", case=meta[i], implementation=cases[i][1],
                         model=model_output(IMPORTS, RUN, cases[i][0])[:3000]))
    for i in bad[:1]:
        problems.append(dict(kind="scripted-case-differs-from-model", **meta[i]))
    return dict(name="scripted-heuristic", evaluations=len(cases), distinct_nontrivial=len(distinct),
                rule="seeded declared models x heuristic option (None, '', trace, logdetN, invalid strings) x return mode x "
                     "bounded/unbounded first solve, through the real post-solve code with scripted solves; non-trivial = a "
                     "heuristic problem was built and compared; distinct by option, mode and the shape of the sent list",
                mismatches=mism, n_mismatch=len(bad), problems=problems[:6], n_problems=len(problems),
                samples=[dict(case=meta[0], wrapper_calls_and_outcome=jsonable(cases[0][1]))] if cases else [],
                distribution=dict(options=hist))


def r_items(problem_case):
    # shape of the sent list, recovered from the Coq literal (cheap): count of "SC" / "LMI"
    s = problem_case[0]
    out, i = [], 0
    while True:
        a, b = s.find("SC [", i), s.find("LMI [", i)
        if a < 0 and b < 0:
            break
        if b < 0 or (0 <= a < b):
            out.append(("SC",))
            i = a + 3
        else:
            out.append(("LMI", [None]))
            i = b + 4
    return out


# ------------------------------------------------------------------------------------------ real solves
def compare_real(spec, heuristic, tol=1e-4):
    """solve `spec` without and with the heuristic in fresh PEPs, identical SCS settings; returns (info, [violations])"""
    from PEPit.constraint import Constraint
    pep0, v0 = L.solve_real(spec, None, "dual", tol)
    d0 = [np.array(o.eval_dual(), dtype=float) for o in pep0.wrapper._list_of_constraints_sent_to_solver]
    res0 = np.array(pep0.residual, dtype=float)
    G0 = np.array(pep0.G_value, dtype=float)
    wc0 = float(pep0.objective.eval())
    pep1, v1 = L.solve_real(spec, heuristic, "dual", tol)
    tracked = pep1.wrapper._list_of_constraints_sent_to_solver
    d1 = [np.array(o.eval_dual(), dtype=float) for o in tracked]
    res1 = np.array(pep1.residual, dtype=float)
    G1 = np.array(pep1.G_value, dtype=float)
    wc1 = float(pep1.objective.eval())
    bad = []
    if abs(v0 - v1) > 1e-9:
        bad.append("dual-value-changed-by-the-heuristic")
    if len(d0) != len(d1) or any(np.max(np.abs(a - b)) > 1e-9 for a, b in zip(d0, d1)) or np.max(np.abs(res0 - res1)) > 1e-9:
        bad.append("multipliers-changed-by-the-heuristic")
    converged = pep0.all_optimal and pep1.all_optimal     # accuracy-dependent clauses only for converged solves
    if converged and wc1 < wc0 - tol - 1e-5:
        bad.append("primal-value-not-within-tolerance")
    worst = 0.0
    for o in tracked:
        if isinstance(o, Constraint):
            val = float(o.eval())
            worst = max(worst, val if o.equality_or_inequality == "inequality" else abs(val))
        else:
            M = np.array(o.eval(), dtype=float)
            worst = max(worst, -float(np.min(np.linalg.eigvalsh((M + M.T) / 2))))
    worst = max(worst, -float(np.min(np.linalg.eigvalsh((G1 + G1.T) / 2))))
    if converged and worst > 1e-4:
        bad.append("returned-instance-violates-a-constraint")
    if converged and heuristic == "trace" and np.trace(G1) > np.trace(G0) + 1e-4:
        bad.append("trace-increased")
    info = dict(dual_plain=float(v0), dual_heuristic=float(v1), primal_plain=wc0, primal_heuristic=wc1,
                trace_plain=float(np.trace(G0)), trace_heuristic=float(np.trace(G1)), worst_violation=worst,
                solver_statuses=pep1.solver_statuses, converged=converged)
    return info, bad


def real_stream(tier, seed):
    rng = random.Random(seed * 15485863 + 41)
    n = 8 if tier == "quick" else 60
    specs = L.solvable_specs(rng, n, asym_every=0)
    problems, samples = [], []
    hist = {}
    for i, spec in enumerate(specs):
        h = ["trace", "logdet2"][i % 2]
        hist[h] = hist.get(h, 0) + 1
        try:
            info, bad = compare_real(spec, h)
        except Exception as e:
            problems.append(dict(kind="solve-raised", solved_spec=spec, heuristic=h, error=repr(e)[:300]))
            continue
        if len(samples) < 2:
            samples.append(dict(solved_spec=spec, heuristic=h, measured=info))
        if not info["converged"]:
            hist["solver_not_converged"] = hist.get("solver_not_converged", 0) + 1
        for kind in bad:
            problems.append(dict(kind=kind, solved_spec=spec, heuristic=h, measured=info))
    return dict(name="scs-heuristic", evaluations=len(specs), distinct_nontrivial=len(specs),
                rule="seeded gradient-method models (as in C01's scs-solves, symmetric LMIs) solved with SCS in fresh PEPs without "
                     "and with 'trace' / 'logdet2': dual value and every multiplier identical up to 1e-9, primal value >= optimum - "
                     "tol - 1e-5, every constraint and PSD matrix satisfied up to 1e-4, trace(G) <= trace before + 1e-4",
                mismatches=[], n_mismatch=0, problems=problems[:6], n_problems=len(problems), samples=samples,
                distribution=hist)


def _public_solve(spec, heuristic, explicit=None):
    """one run of the PUBLIC PEP.solve(wrapper=<scripted>, dimension_reduction_heuristic=heuristic, **explicit) on the
    model of `spec`; returns what reached the wrapper: [(wc, tol) of prepare_heuristic], [weights of heuristic]"""
    from . import recording
    pep, P, X = L.build_pep(spec)
    Wcls = L.make_wrapper_class()

    def script(w, k):
        duals = L.synthetic_duals(w.prob, spec["dual_seed"], k)
        for c, v in zip(w.prob.constraints, duals):
            c.save_dual_value(v)
        pts = L.full_pts(spec, w.G.shape[0])
        w.optimal_G = (1.0 if k == 0 else 0.5) * (pts.T @ pts)
        w.optimal_F = L.full_fvals(spec, w.F.shape[0]) + 0.25 * k
        return dict(wc_value=w.optimal_F[pep.objective.counter], duals=duals, constraints=w.prob.constraints,
                    objective=w.prob.objective, prob=w.prob)

    last = recording.install(lambda verbose=0: Wcls(script, verbose=verbose))
    kw = dict(explicit or {})
    L.quiet(pep.solve, wrapper=recording.NAME, verbose=0, dimension_reduction_heuristic=heuristic, **kw)
    w = last()
    return [(float(a), float(b)) for a, b in w.prepare_args], [x.tolist() for x in w.weights]


def defaults_stream(tier, seed):
    """`option-defaults`: the tolerance and the eigenvalue regularisation that reach the wrapper when the caller does NOT
    pass them are the documented defaults of PEP.solve -- in a fresh process state and after earlier solves (of the
    same or of another model) that passed explicit, different values (seed C14-9: defaults kept in a shared dict that
    explicit values overwrite)."""
    import inspect
    from PEPit import PEP
    rng = random.Random(seed * 7121 + 1414)
    n = 10 if tier == "quick" else 80
    problems, samples, hist = [], [], {}
    sig = inspect.signature(PEP.solve).parameters
    doc_tol = sig["tol_dimension_reduction"].default if "tol_dimension_reduction" in sig else None
    evaluations = 0
    for _ in range(n):
        spec = L.gen_spec(rng, max_scalars=6, max_lmis=1)
        other = L.gen_spec(rng, max_scalars=4, max_lmis=1)
        h = rng.choice(["trace", "logdet1", "logdet2"])
        tol_x, eig_x = rng.choice([0.25, 0.5, 2.0 ** -20]), rng.choice([0.5, 2.0, 2.0 ** -12])
        key = dict(spec=spec, heuristic=h, explicit=dict(tol_dimension_reduction=tol_x, eig_regularization=eig_x))
        try:
            fresh = _public_solve(spec, h)
            _public_solve(rng.choice([spec, other]), rng.choice(["trace", "logdet1"]), explicit=key["explicit"])
            after = _public_solve(spec, h)
            given = _public_solve(spec, h, explicit=key["explicit"])
        except Exception as e:
            problems.append(dict(kind="implementation-raised", error=repr(e)[:300], **key))
            continue
        evaluations += 4
        hist[h] = hist.get(h, 0) + 1
        if fresh != after:
            problems.append(dict(kind="defaults-depend-on-an-earlier-call", fresh=fresh[0], after=after[0], **key))
        if isinstance(doc_tol, float) and fresh[0] and fresh[0][0][1] != doc_tol:
            problems.append(dict(kind="default-tolerance-is-not-the-documented-one", documented=doc_tol, got=fresh[0], **key))
        if given[0] and given[0][0][1] != tol_x:
            problems.append(dict(kind="explicit-tolerance-not-forwarded", got=given[0], **key))
        if h != "trace" and given[1] == fresh[1] and eig_x != 1e-3:
            problems.append(dict(kind="explicit-eig-regularization-ignored", **key))
        if len(samples) < 2:
            samples.append(dict(heuristic=h, prepare_heuristic_args_fresh=fresh[0], after_explicit_call=after[0],
                                with_explicit_values=given[0]))
    return dict(name="option-defaults", evaluations=evaluations, distinct_nontrivial=evaluations // 4,
                rule="one case = the public PEP.solve with a scripted wrapper, four runs: defaults in a fresh state, an "
                     "unrelated solve with explicit tolerance / regularisation, defaults again, explicit values; what reaches "
                     "prepare_heuristic / heuristic must not depend on the earlier call; distinct = cases",
                samples=samples, n_mismatch=0, mismatches=[], problems=problems[:5], n_problems=len(problems),
                distribution=dict(heuristics=hist))


def correspondence(tier, seed, corpus=()):
    return [scripted_stream(tier, seed, corpus), defaults_stream(tier, seed), real_stream(tier, seed)]


def search(tier, seed):
    rng = random.Random(seed + 141414)
    cases, meta = [], []
    for _ in range(40 if tier == "quick" else 400):
        spec = L.gen_spec(rng, max_scalars=8, max_lmis=2)
        h = rng.choice(["trace", "logdet1", "logdet2", None, "foo"])
        mode = rng.choice(["dual", "primal"])
        key = dict(spec=spec, heuristic=h, mode=mode, unbounded=False)
        try:
            r = run_case(spec, h, mode)
        except Exception as e:
            return dict(kind="implementation-raised", error=repr(e)[:300], **key)
        if r["checks"]:
            return dict(r["checks"][0], **key)
        cases.append(r["events_case"])
        meta.append(key)
        if r["problem_case"]:
            cases.append(r["problem_case"])
            meta.append(key)
    try:
        bad = run_cases("c14s", IMPORTS, RUN, cases, shard=40, input_type=INPUT_TYPE)
    except Exception:
        bad = []          # the model itself does not build (e.g. the generated plan is missing): go on with the
        #                   implementation-only searches below
    if bad:
        return dict(kind="scripted-case-differs-from-model", **meta[bad[0]])
    for i, spec in enumerate(L.solvable_specs(rng, 6 if tier == "quick" else 40, asym_every=0)):
        h = ["trace", "logdet2"][i % 2]
        try:
            info, kinds = compare_real(spec, h)
        except Exception as e:
            return dict(kind="solve-raised", solved_spec=spec, heuristic=h, error=repr(e)[:300])
        if kinds:
            return dict(kind=kinds[0], solved_spec=spec, heuristic=h, measured=info)
    # badly scaled models solved with the heuristics: the returned instance must be the solver's and satisfy every
    # constraint (shared with C02: harness/solvelib.py real_badscale / check_instance)
    try:
        from . import solvelib as S
        probs, stats = [], {}
        for idx in range(8):
            p, hh = S.real_badscale(idx)
            S.check_instance(p, hh, "badscale-%d" % idx, probs, stats)
            if probs:
                pr = dict(probs[0])
                pr.setdefault("kind", "instance-after-heuristic-violates-the-model")
                pr["badscale_model"] = idx
                return pr
    except Exception as e:
        return dict(kind="solve-raised", badscale_model=True, error=repr(e)[:300])
    return None


def known_findings(known):
    return []


def is_known(payload, known):
    return None


def replay(payload):
    if "badscale_model" in payload:
        from . import solvelib as S
        probs = []
        try:
            p, hh = S.real_badscale(int(payload["badscale_model"]))
            S.check_instance(p, hh, "replay", probs, {})
        except Exception:
            return True
        return bool(probs)
    if "spec" in payload:
        try:
            r = run_case(payload["spec"], payload.get("heuristic"), payload.get("mode", "dual"), payload.get("unbounded", False))
        except Exception:
            return True
        if r["checks"]:
            return True
        cases = [r["events_case"]] + ([r["problem_case"]] if r["problem_case"] else [])
        return bool(run_cases("c14r", IMPORTS, RUN, cases, input_type=INPUT_TYPE))
    if "solved_spec" in payload:
        try:
            info, kinds = compare_real(payload["solved_spec"], payload.get("heuristic", "trace"))
        except Exception:
            return True
        return bool(kinds)
    return False
