"""C11 — both solver back-ends solve the same problem and report duals in one convention.

Proofs: coq/Props/C11.v over coq/Model/Mosek.v (emit = the Task calls of mosek_wrapper.py with its own index
expressions; run/task_denote = MOSEK's documented API semantics; sdp_of = the declared problem).

MOSEK is not installed and cannot be.  The real MosekWrapper code runs here against harness/standin/mosek (on
sys.path only inside this process), which implements the documented Optimizer-API semantics, records every call and
solves the recorded problem with cvxpy+SCS in MOSEK's sign convention (assumptions A1-A3 in its docstring).

Streams
 (r) `regressions`: the triggers of the former findings F-C11a/b/c (repaired in /repo by 067bbb4, 54e4665, 88e1f86):
     each is sent (scripted solve, call log vs. model) AND really solved on both paths; any failure is a VIOLATION.
 (a) `call-log`: seeded random models (1-2 functions of 15 classes, user constraints, LMIs of size 1-3 owned by the
     problem / a function / nobody in various creation orders, class LMIs, auto-created stationary points, > 128 rows,
     1-2 metrics) are sent through the real `PEP.solve(wrapper="mosek")`; the recorded call log (up to and including
     a call that raises) must equal Model.Mosek.emit_session applied to the sent list, which is recorded
     independently by a recording Wrapper on a second build of the same program.  Solves are scripted (distinct
     numbers for xx, y and the bars matrices, a dense dyadic PSD matrix for barx); what _recover_dual_values makes of
     the scripted answer (residual, every eval_dual(), every PSDMatrix.entries_dual_variable_value) is compared with
     Model.Mosek.recover exactly.
 (b) `end-to-end`: curated bounded models solved with wrapper="cvxpy" (SCS) and wrapper="mosek" (stand-in, SCS):
     value, eval_dual() of every constraint, residual, Gram matrix of the leaf points; both certificates checked (with
     the ENTRY duals on the LMI expressions, as the repaired check_feasibility does); on each path
     sym(entries_dual_variable_value) must be the reported dual matrix; models with LMIs of sizes 1, 2, 3, LMIs that
     are not symmetric as written, class LMIs followed by user LMIs.
 (c) `heuristic-log` / `heuristic-solves`: "trace" / "logdetN" on both paths: call logs vs. model (scripted solves; the
     logdet weights are RECOMPUTED by the harness from the logged Gram matrices with pep.py's own formula and must be
     emitted entry by entry) and real solves.
 (d) `heuristic-objectives`: for EVERY solve of a trace / logdet2 / logdet3 run, the objective each back-end actually hands
     to its solver -- cvxpy: `prob.objective` at solve time through a recording hook on cp.Problem.solve, parameters at
     their current value; MOSEK: the c / putbarcj state of the stand-in task at optimize -- against the model's W_k
     (pep.py's formula on that back-end's previous Gram matrix; this is the <W,G> objective of Model.Mosek.sdp_heur /
     theorem C11_heuristic); on seed C11-8's polygon model the Gram matrices returned by both back-ends after
     trace / logdet2 / logdet3 must agree within 1e-3.
The only open finding is F-C11d (getprosta ignored), identified by its specific trigger (known_findings.d/C11.json)."""
import json
import os
import random
import traceback
from fractions import Fraction

import numpy as np

from . import moseklib
from . import classes as CL
from .common import run_cases, model_output, coq_nat, coq_q, coq_list, Q, jsonable, to_fraction

GEN_DEPS = []
TRUSTED = [
    "harness/standin/mosek: MOSEK's Optimizer-API semantics of the 21 Task / 3 Env methods PEPit uses, as documented "
    "by MOSEK and written down in the stand-in's docstring (A1), mirrored by Model/Mosek.v `step`; the real MOSEK is "
    "not installed and was never consulted",
    "Model/Mosek.v `emit_session` is a hand-written model of mosek_wrapper.py (set_main_variables, send_constraint, "
    "send_lmi_constraint, generate_problem, solve, prepare_heuristic, heuristic) and `recover` of _recover_dual_values "
    "(scalar duals, -getbarsj matrices through _get_Gram_from_mosek, entry duals -y[first:first+n*n]), tied by the "
    "call-log stream (exact comparison of every call argument and of every recovered dual on scripted solver answers)",
    "Model/Matrices.v (package C05) for expression_to_sparse_matrices; Proofs/C05Lemmas.sparse_correct for its Gram reading",
    "numpy: `int + np.zeros(shape, dtype=np.int32)` raises OverflowError for int >= 2^31 and for no smaller int (numpy >= 2, "
    "NEP 50); checked at every run against the installed numpy",
    "cvxpy + SCS inside the stand-in's optimize and on the cvxpy path (end-to-end stream only)",
]
ASSUMES = [
    "A1 MOSEK API semantics (symmetric matrices as lower-triangular triples, put* SET, variables fixed at 0 until "
    "putvarbound, rows free until putconbound, getbarxj/getbarsj = lower triangle column by column)",
    "A2 MOSEK dual convention: y = slc - suc, A^T y + slx - sux = c, Sbar_j = Cbar_j - sum_i y_i Abar_ij for both "
    "senses; for maximisation the slacks and Sbar_j are <= 0 / negative semidefinite (so y >= 0 on `up` rows and "
    "-Sbar_j is PSD) -- derived from MOSEK's documented primal/dual pair; consistent with what "
    "tests/test_wrappers.py::TestWrapperMOSEK expects; C11_duals is stated under exactly these equations",
    "the SIGN of MOSEK's y on the LMI entry rows (hence of entries_dual_variable_value = -y[...]) is taken from MOSEK's "
    "documented dual equation Sbar_j = Cbar_j - sum_i y_i Abar_ij as implemented by the stand-in, NOT from the real solver, "
    "which is absent here; C11_entry_duals_mosek / C11_duals_entries are stated under exactly that equation",
    "A3 after optimize on an infeasible/unbounded problem getxx/getbarxj return numbers (a certificate), not None",
]

IMPORTS = ["From PV Require Import Model.Sent Model.Matrices Model.Mosek."]
RUN = "fun '(l, pc, ec, obj, heur, sol) => dump_session l pc ec obj heur sol"
INPUT_TYPE = "(sent * nat * nat * nat * option (Q * list (list triple)) * option (list Q * list (list Q)))"

CLASSES = ["ConvexFunction", "SmoothConvexFunction", "SmoothStronglyConvexFunction", "StronglyConvexFunction",
           "ConvexQGFunction", "RsiEbFunction", "ConvexLipschitzFunction", "SmoothFunction", "LipschitzOperator",
           "MonotoneOperator", "CocoerciveOperator", "SymmetricLinearOperator", "SkewSymmetricLinearOperator",
           "SmoothStronglyConvexQuadraticFunction", "LinearOperator"]
CLASS_LMI = {"SymmetricLinearOperator", "SkewSymmetricLinearOperator", "SmoothStronglyConvexQuadraticFunction",
             "LinearOperator"}
AUTO_STATIONARY = {"ConvexQGFunction", "RsiEbFunction"}

_mosek = [None]


def mosek():
    if _mosek[0] is None:
        _mosek[0] = moseklib.install()
    return _mosek[0]


# ------------------------------------------------------------------------------------------ program specs
def _pt(P, combo):
    """point combination [(w, index)...] built with the real operators"""
    out = None
    for w, k in combo:
        leaf = P[k % len(P)]
        term = leaf if w == 1 else w * leaf
        out = term if out is None else out + term
    return out


def _ex(P, X, spec):
    from PEPit import Expression
    kind = spec[0]
    if kind == "x":
        return X[spec[1] % len(X)]
    if kind == "ip":
        return _pt(P, spec[1]) * _pt(P, spec[2])
    if kind == "sq":
        return _pt(P, spec[1]) ** 2
    if kind == "const":
        return spec[1]
    if kind == "lin":
        out = None
        for w, s in spec[1]:
            t = _ex(P, X, s)
            t = t if w == 1 else w * t
            out = t if out is None else out + t
        return out
    raise ValueError(kind)


def build(spec):
    """fresh PEP from a JSON-able spec, deterministically; returns (pep, funcs)"""
    from PEPit import PEP, Expression, PSDMatrix, Point
    p = PEP()
    funcs = []
    for fd in spec["funcs"]:
        funcs.append(p.declare_function(CL.get_class(fd["cls"]), **fd["params"]))
    x0 = p.set_initial_point()
    P, X = [x0], []
    for f, fd in zip(funcs, spec["funcs"]):
        if fd.get("stationary"):
            xs = f.stationary_point()
            P.append(xs)
            X.append(f.value(xs))
    x = x0
    for k in range(spec.get("steps", 1) + 1):
        g = None
        for f in funcs:
            gk, fk = f.oracle(x)
            P.append(gk)
            X.append(fk)
            g = gk if g is None else g + gk
        if k < spec.get("steps", 1):
            x = x - spec.get("gamma", 0.5) * g
            P.append(x)
    for op in spec["ops"]:
        if op[0] == "leaf":
            X.append(Expression())
        elif op[0] == "point":
            P.append(Point())
        elif op[0] == "lmi":
            rows = [[_ex(P, X, e) for e in r] for r in op[2]]
            if op[1] == "pep":
                p.add_psd_matrix(rows)
            elif op[1] == "unused":
                PSDMatrix(rows)
            else:
                funcs[int(op[1][1:]) % len(funcs)].add_psd_matrix(rows)
        elif op[0] == "cons":
            a, b = _ex(P, X, op[2]), _ex(P, X, op[4])
            if not hasattr(a, "decomposition_dict"):
                a = Expression(is_leaf=False, decomposition_dict={1: a})
            c = (a <= b) if op[3] == "<=" else (a >= b) if op[3] == ">=" else (a == b)
            if op[1] == "pep":
                p.add_constraint(c)
            else:
                funcs[int(op[1][1:]) % len(funcs)].add_constraint(c)
        else:
            raise ValueError(op[0])
    for m in spec["metrics"]:
        e = _ex(P, X, m)
        if not hasattr(e, "decomposition_dict"):
            e = Expression(is_leaf=False, decomposition_dict={1: e})
        p.set_performance_metric(e)
    return p, funcs


# ------------------------------------------------------------------------------------------ random specs
W = [1, 1, -1, 2, 0.5, -0.5, 0.25, -2, 3]


def _rand_combo(rng, n=3):
    return [[rng.choice(W), rng.randrange(12)] for _ in range(rng.randint(1, n))]


def _rand_expr(rng, depth=1):
    r = rng.random()
    if r < 0.25:
        return ["x", rng.randrange(8)]
    if r < 0.5:
        return ["ip", _rand_combo(rng, 2), _rand_combo(rng, 2)]
    if r < 0.7:
        return ["sq", _rand_combo(rng)]
    if r < 0.8 or depth <= 0:
        return ["const", rng.choice([0, 1, 1.0, -1, 0.5, 2, 0.0])]
    return ["lin", [[rng.choice(W), _rand_expr(rng, depth - 1)] for _ in range(rng.randint(2, 3))]]


def _rand_lmi(rng, symmetric=None):
    n = rng.choice([1, 2, 2, 2, 3])
    if symmetric is None:
        symmetric = rng.random() < 0.7
    m = [[None] * n for _ in range(n)]
    for i in range(n):
        for j in range(n):
            if j < i and symmetric:
                m[i][j] = m[j][i]
            else:
                m[i][j] = _rand_expr(rng, 1)
    return m


def gen_spec(rng, force=None):
    """force in {None, "a-func-before-pep", "a-unused", "a-class-lmi", "b", "c"} steers towards one guard dimension"""
    nf = rng.choice([1, 1, 2])
    funcs = []
    for _ in range(nf):
        pool = CLASSES
        if force == "b":
            pool = sorted(AUTO_STATIONARY)
        elif force == "a-class-lmi":
            pool = sorted(CLASS_LMI)
        elif force is None and rng.random() < 0.5:
            pool = [c for c in CLASSES if c not in CLASS_LMI and c not in AUTO_STATIONARY]
        cls = rng.choice(pool)
        params = CL.draw_params(rng, cls)
        stationary = rng.random() < 0.6
        if force == "b":
            stationary = False
        funcs.append(dict(cls=cls, params=params, stationary=stationary))
    spec = dict(funcs=funcs, steps=rng.choice([0, 1, 1, 2]), gamma=rng.choice([0.5, 1, 0.25, 1.0]), ops=[], metrics=[])
    ops = []
    for _ in range(rng.randint(0, 2)):
        ops.append(["leaf"])
    has_class_lmi = any(f["cls"] in CLASS_LMI for f in funcs)
    # LMIs: any creation order (problem-level, function-level, never added), with or without class LMIs
    n_pep = rng.choice([0, 0, 1, 1, 2])
    n_fun = rng.choice([0, 0, 0, 1, 1])
    lm = [["lmi", "pep", _rand_lmi(rng)] for _ in range(n_pep)]
    # function-level LMIs are sent grouped by function, functions in declaration order
    lf = sorted([["lmi", "f%d" % rng.randrange(nf), _rand_lmi(rng)] for _ in range(n_fun)], key=lambda o: o[1])
    if force == "a-func-before-pep":
        lm = [["lmi", "f0", _rand_lmi(rng)], ["lmi", "pep", _rand_lmi(rng)]] + lm
        lf = []
    elif force == "a-unused":
        lm = [["lmi", "unused", _rand_lmi(rng)], ["lmi", "pep", _rand_lmi(rng)]]
    elif force == "a-class-lmi":
        lf = [["lmi", "f0", _rand_lmi(rng)]]
    if force is None:
        if rng.random() < 0.2:
            lm.append(["lmi", "unused", _rand_lmi(rng)])
        lm = lm + lf
        lf = []
        if rng.random() < 0.5:
            rng.shuffle(lm)
    ops += lm + lf
    ncons = rng.randint(0, 4)
    cons = []
    for _ in range(ncons):
        owner = "pep" if rng.random() < 0.7 else "f%d" % rng.randrange(nf)
        lhs = _rand_expr(rng, 1)
        if lhs[0] == "const":
            lhs = ["sq", _rand_combo(rng)]
        cons.append(["cons", owner, lhs, rng.choice(["<=", "<=", ">=", "=="]), _rand_expr(rng, 1)])
    # constraints may be interleaved with LMI creation (does not change counters of LMIs)
    for c in cons:
        ops.insert(rng.randint(0, len(ops)), c)
    # leaves must exist before they are used: keep ["leaf"] ops first
    ops.sort(key=lambda o: 0 if o[0] == "leaf" else 1)
    spec["ops"] = ops
    if force == "c":
        spec["steps"] = rng.choice([10, 11])
        spec["funcs"] = [dict(cls="SmoothConvexFunction", params={"L": 1.0}, stationary=True)]
        spec["ops"] = [o for o in ops if o[0] != "lmi"][:2]
    for _ in range(rng.choice([1, 1, 2])):
        m = _rand_expr(rng, 1)
        if m[0] == "const":
            m = ["x", rng.randrange(8)]
        spec["metrics"].append(m)
    return spec


# ------------------------------------------------------------------------------------------ recording the sent list
def make_recorder():
    from PEPit.wrapper import Wrapper

    class Recorder(Wrapper):
        def __init__(self):
            Wrapper.__init__(self, verbose=0)
            self.items = []
            self.pc = self.ec = None

        def check_license(self):
            return True

        def set_main_variables(self):
            from PEPit import Point, Expression
            self.pc, self.ec = Point.counter, Expression.counter

        def send_constraint_to_solver(self, constraint):
            self.items.append(constraint)

        def send_lmi_constraint_to_solver(self, psd_counter, psd_matrix):
            self.items.append(psd_matrix)

        def generate_problem(self, objective):
            self.objective = objective

        def solve(self, **kwargs):
            return "recorded", "recorder", None
    return Recorder()


def _ekey(k):
    from PEPit import Expression
    if type(k) == Expression:
        return (0, k.counter)
    if type(k) == tuple:
        return (1, k[0].counter, k[1].counter)
    assert k == 1
    return (2,)


def _edict(e):
    return [(_ekey(k), to_fraction(v)) for k, v in e.decomposition_dict.items()]


def sent_of(items):
    """canonical description of the sent list: ('SC', edict, sense) | ('LMI', [[edict]], psd counter)"""
    from PEPit import Constraint
    out = []
    for it in items:
        if isinstance(it, Constraint):
            out.append(("SC", _edict(it.expression), it.equality_or_inequality))
        else:
            n = it.shape[0]
            out.append(("LMI", [[_edict(it[i, j]) for j in range(it.shape[1])] for i in range(n)], it.counter))
    return out


def record_sent(spec, nsolve=1):
    """build the program and let the real PEP._solve_with_wrapper send it to a recording wrapper (the last of
    `nsolve` sends is kept: class constraints and the objective leaf are re-created at every solve)"""
    p, funcs = build(spec)
    for _ in range(nsolve):
        rec = make_recorder()
        with moseklib.quiet():
            p._solve_with_wrapper(rec, verbose=0)
    return dict(sent=sent_of(rec.items), pc=rec.pc, ec=rec.ec, obj=rec.objective.counter)


# ------------------------------------------------------------------------------------------ Coq literals
def coq_ekey(k):
    if k[0] == 0:
        return "KF %s" % coq_nat(k[1])
    if k[0] == 1:
        return "KG %s %s" % (coq_nat(k[1]), coq_nat(k[2]))
    return "K1"


def coq_edict(d):
    return coq_list(["(%s, %s)" % (coq_ekey(k), coq_q(v)) for k, v in d])


def coq_sent(sent):
    out = []
    for it in sent:
        if it[0] == "SC":
            out.append("SC %s %s" % (coq_edict(it[1]), "Ineq" if it[2] == "inequality" else "Equ"))
        else:
            out.append("LMI %s" % coq_list([coq_list([coq_edict(e) for e in r]) for r in it[1]]))
    return coq_list(out)


def coq_triples(tr):
    return coq_list(["(%s, %s, %s)" % (coq_nat(i), coq_nat(j), coq_q(v)) for i, j, v in tr])


def coq_case(rec, heur, sol=None):
    if sol is None:
        so = "None"
    else:
        so = "Some (%s, %s)" % (coq_list([coq_q(v) for v in sol[0]]),
                                coq_list([coq_list([coq_q(v) for v in b]) for b in sol[1]]))
    if heur is None:
        h = "None"
    else:
        h = "Some (%s, %s)" % (coq_q(heur[0]), coq_list([coq_triples(w) for w in heur[1]]))
    return "(%s, %s, %s, %s, %s, %s)" % (coq_sent(rec["sent"]), coq_nat(rec["pc"]), coq_nat(rec["ec"]),
                                         coq_nat(rec["obj"]), h, so)


# ------------------------------------------------------------------------------------------ the call log
BK = {"boundkey.fr": "fr", "boundkey.up": "up", "boundkey.fx": "fx", "boundkey.lo": "lo", "boundkey.ra": "ra"}
SKIP = {"Task", "set_Stream", "solutionsummary"}


def dump_log(calls, overflow=False):
    out = []
    for name, a, ret in calls:
        if name in SKIP:
            continue
        if name == "appendbarvars":
            out.append([name, list(a[0])])
        elif name in ("appendvars", "appendcons"):
            out.append([name, a[0]])
        elif name in ("putvarbound", "putconbound"):
            out.append([name, a[0], BK[a[1]], Q(a[2]), Q(a[3])])
        elif name in ("getnumcon", "getmaxnumvar"):
            out.append([name, ret])
        elif name == "appendsparsesymmat":
            out.append([name, a[0], [[i, j, Q(v)] for i, j, v in zip(a[1], a[2], a[3])], ret])
        elif name in ("putbaraij",):
            out.append([name, a[0], a[1], list(a[2]), [Q(v) for v in a[3]]])
        elif name == "putbarcj":
            out.append([name, a[0], list(a[1]), [Q(v) for v in a[2]]])
        elif name == "putaijlist":
            out.append([name, list(a[0]), list(a[1]), [Q(v) for v in a[2]]])
        elif name == "putclist":
            out.append([name, list(a[0]), [Q(v) for v in a[1]]])
        elif name == "putobjsense":
            out.append([name, a[0].split(".")[1]])
        elif name == "optimize":
            out.append([name] + (["unexpected-arguments"] if a else []))
        elif name in ("getbarxj", "getbarsj"):
            out.append([name, a[1]])
        elif name in ("getxx", "gety", "getprosta"):
            out.append([name])
        else:
            out.append(["unmodelled-call:" + name])
    if overflow:
        out.append(["OverflowError"])
    return out


def run_mosek(spec, heuristic=None, scripted=True, nsolve=1, tol=None):
    """PEP.solve(wrapper="mosek") of the program on the stand-in; returns everything observed"""
    M = mosek()
    p, funcs = build(spec)
    M.reset()
    M.SCRIPTED[0] = scripted
    res = dict(raised=None, value=None, pep=p)
    kw = {}
    if heuristic:
        kw["dimension_reduction_heuristic"] = heuristic
    if tol is not None:
        kw["tol_dimension_reduction"] = tol
    try:
        for s in range(nsolve):
            if s:
                M.reset()
            with moseklib.quiet():
                res["value"] = p.solve(wrapper="mosek", verbose=0, **kw)
    except M.Error as e:
        res["raised"] = ("mosek.Error", e.errno, str(e))
    except OverflowError as e:
        res["raised"] = ("OverflowError", str(e))
    except AssertionError as e:
        tb = traceback.extract_tb(e.__traceback__)
        res["raised"] = ("AssertionError", "%s:%s" % (os.path.basename(tb[-1].filename), tb[-1].name))
    except Exception as e:
        res["raised"] = (type(e).__name__, str(e)[:300])
    finally:
        M.SCRIPTED[0] = False
    task = M.LAST_TASK[0]
    res["wrapper_name"] = p.wrapper_name if hasattr(p, "wrapper_name") else None
    res["calls"] = list(task.calls) if task is not None else []
    res["task"] = task
    return res


def _fill(tril, n):
    G = np.zeros((n, n))
    k = 0
    for j in range(n):
        for i in range(j, n):
            G[i, j] = G[j, i] = tril[k]
            k += 1
    return G


def heur_weights(calls, heuristic, pc, eig_regularization=1e-3):
    """the weights of the heuristic rounds, computed WITHOUT looking at what the wrapper sent: identity for "trace";
    for "logdetN" round r uses pep.py's own formula inv(corrected_G + eig_regularization * I) on the Gram matrix
    returned by the r-th optimize (the logged getbarxj); entries = the non-zero lower-triangular ones, row-major"""
    from PEPit import PEP
    if heuristic == "trace":
        return [[(i, i, Fraction(1)) for i in range(pc)]]
    grams = [ret for name, a, ret in calls if name == "getbarxj" and a[1] == 0 and ret is not None]
    Ws = []
    for r in range(int(heuristic[6:])):
        if r >= len(grams):
            break
        G = _fill(grams[r], pc)
        _, _, corrected = PEP.get_nb_eigenvalues_and_corrected_matrix(G)
        Wm = np.linalg.inv(corrected + eig_regularization * np.eye(pc))
        idx = np.argwhere(np.tril(Wm))
        Ws.append([(int(i), int(j), to_fraction(Wm[i, j])) for i, j in idx])
    return Ws


def expectations(rec):
    """the guard, evaluated on the implementation's own objects (rows <= 2^31 always holds here)"""
    ctrs = [it[2] for it in rec["sent"] if it[0] == "LMI"]
    rows = sum(1 if it[0] == "SC" else sum(len(r) for r in it[1]) for it in rec["sent"])
    return dict(ctrs=ctrs, rows=rows, in_order=ctrs == list(range(len(ctrs))), last_leaf=rec["obj"] == rec["ec"] - 1,
                guard=rec["obj"] < rec["ec"] and rows <= 2 ** 31)


def one_case(spec, heuristic=None, tol=0.25, nsolve=1):
    """returns (coq_input, expected_dump, problems, info)"""
    rec = record_sent(spec, nsolve)
    exp = expectations(rec)
    res = run_mosek(spec, heuristic=heuristic, scripted=True, tol=tol, nsolve=nsolve)
    raised = res["raised"]
    api_error = raised is not None and raised[0] in ("mosek.Error", "OverflowError")
    log = dump_log(res["calls"], overflow=(raised is not None and raised[0] == "OverflowError"))
    heur = None
    if heuristic:
        xx = [ret for name, a, ret in res["calls"] if name == "getxx"]
        if xx:
            # the objective's value as the PEP sees it: leaf expression number rec["obj"]
            heur = (to_fraction(xx[0][rec["obj"]] - tol), heur_weights(res["calls"], heuristic, rec["pc"]))
        else:
            heur = (Fraction(0), [])            # never reached the first read: the model stops before, too
    # what the solver answered to the first solve (input of the model's `recover`) and what the wrapper made of it
    sol, recovered = None, []
    ys = [ret for name, a, ret in res["calls"] if name == "gety" and ret is not None]
    wrapper = getattr(res["pep"], "wrapper", None)
    if ys and wrapper is not None and wrapper.residual is not None:
        bars = {}
        for name, a, ret in res["calls"]:
            if name == "getbarsj" and ret is not None and a[1] not in bars:
                bars[a[1]] = ret
        sol = (ys[0], [bars.get(j, []) for j in range(max(bars) + 1)])
        items = []
        for it in wrapper._list_of_constraints_sent_to_solver:
            if type(it).__name__ == "Constraint":
                items.append(Q(it._dual_variable_value))
            else:
                ed = it.entries_dual_variable_value
                items.append([[[Q(v) for v in r] for r in np.array(it._dual_variable_value).tolist()],
                              [[Q(v) for v in r] for r in np.array(ed).tolist()] if ed is not None else "missing"])
        recovered = [[[Q(v) for v in r] for r in np.array(wrapper.residual).tolist()], items]
    expected = [log, not api_error, exp["guard"], recovered]
    problems = []
    base = dict(spec=spec, heuristic=heuristic, tol=tol, nsolve=nsolve, raised=list(raised) if raised else None,
                psd_counters=exp["ctrs"], rows=exp["rows"], objective_counter=rec["obj"], expression_counter=rec["ec"])
    if res["wrapper_name"] != "mosek":
        problems.append(dict(kind="mosek-wrapper-not-reached", **base))
    if raised:
        problems.append(dict(kind="mosek-path-raised", **base))
    return coq_case(rec, heur, sol), expected, problems, dict(exp=exp, raised=raised, nlog=len(log), rec=rec)


# ------------------------------------------------------------------------------------------ stream (a), (c)
def stream_logs(name, tier, seed, specs, heuristics, rule):
    cases, metas, problems = [], [], []
    hist = dict(raised={}, rows=[], lmis=[], classes={}, heuristics={})
    distinct = set()
    for spec, heur in zip(specs, heuristics):
        try:
            inp, expected, probs, info = one_case(spec, heur)
        except Exception:
            problems.append(dict(kind="harness-crashed", spec=spec, heuristic=heur, error=traceback.format_exc()[-1500:]))
            continue
        cases.append((inp, expected))
        metas.append((spec, heur, expected, info))
        problems += probs
        r = info["raised"][0] if info["raised"] else "none"
        hist["raised"][r] = hist["raised"].get(r, 0) + 1
        hist["rows"].append(info["exp"]["rows"])
        hist["lmis"].append(len(info["exp"]["ctrs"]))
        for key in ("in_order", "last_leaf"):
            if not info["exp"][key]:
                hist.setdefault("not_" + key, 0)
                hist["not_" + key] += 1
        if info["exp"]["rows"] > 128:
            hist["more_than_128_rows"] = hist.get("more_than_128_rows", 0) + 1
        hist["heuristics"][str(heur)] = hist["heuristics"].get(str(heur), 0) + 1
        for f in spec["funcs"]:
            hist["classes"][f["cls"]] = hist["classes"].get(f["cls"], 0) + 1
        if info["exp"]["rows"] >= 3:
            distinct.add(inp)
    bad = run_cases("c11_" + name.replace("-", "_"), IMPORTS, RUN, cases, shard=12, input_type=INPUT_TYPE)
    mism = []
    for i in bad[:3]:
        spec, heur, expected, info = metas[i]
        mism.append(dict(kind="model-differs", spec=spec, heuristic=heur, implementation=jsonable(expected)[0][-12:],
                         implementation_flags=expected[1:3], model=model_output(IMPORTS, RUN, cases[i][0])[-3000:]))
    # a disagreement between model and implementation is a violation in its own right (the driver only turns a broken
    # stream into a violation when no other problem was reported, and the known-finding triggers are reported here)
    for i in bad[:3]:
        problems.append(dict(kind="model-differs", spec=metas[i][0], heuristic=metas[i][1],
                             implementation_tail=jsonable(metas[i][2])[0][-6:], flags=metas[i][2][1:3]))
    rows = hist.pop("rows")
    lm = hist.pop("lmis")
    hist.update(rows_min=min(rows or [0]), rows_max=max(rows or [0]), rows_mean=round(sum(rows) / max(1, len(rows)), 1),
                lmis_total=sum(lm), models_with_lmi=sum(1 for x in lm if x))
    return dict(name=name, evaluations=len(cases), distinct_nontrivial=len(distinct), rule=rule,
                samples=[dict(spec=metas[i][0], heuristic=metas[i][1], log_length=metas[i][3]["nlog"],
                              first_calls=jsonable(metas[i][2][0][:6])) for i in range(min(2, len(metas)))],
                n_mismatch=len(bad), mismatches=mism, problems=problems, n_problems=len(problems), distribution=hist)


def gen_specs(rng, n):
    specs = []
    forces = ["a-func-before-pep", "a-unused", "a-class-lmi", "b", "b", "c"]
    while len(specs) < n:
        force = forces[len(specs)] if len(specs) < len(forces) else (None if rng.random() < 0.9 else rng.choice(forces[:5]))
        spec = gen_spec(rng, force)
        try:
            rec = record_sent(spec)
        except Exception:
            continue
        if any(it[0] == "LMI" and len(it[1]) == 0 for it in rec["sent"]):
            continue        # a 0 x 0 class LMI (LinearOperator without transpose samples): PEPit's own post-processing
                            # (np.linalg.eigh of an empty PSDMatrix.eval()) fails on BOTH paths; outside this property
        specs.append(spec)
    return specs


# ------------------------------------------------------------------------------------------ stream (b)
def curated_specs():
    """bounded, feasible models (every one has the initial condition |x0 - xs|^2 <= 1 or |x0|^2 <= 1)"""
    P0 = [[1, 0], [-1, 1]]            # x0 - xs   (points: 0 = x0, 1 = xs, 2 = g(x0), 3 = x1, 4 = g(x1), ...)
    init = ["cons", "pep", ["sq", P0], "<=", ["const", 1]]
    out = []
    # GD on smooth strongly convex, distance metric, 1 and 2 steps
    out.append(dict(funcs=[dict(cls="SmoothStronglyConvexFunction", params=dict(mu=0.1, L=1.0), stationary=True)],
                    steps=1, gamma=1.0, ops=[init], metrics=[["sq", [[1, 3], [-1, 1]]]]))
    out.append(dict(funcs=[dict(cls="SmoothConvexFunction", params=dict(L=1.0), stationary=True)],
                    steps=2, gamma=1.0, ops=[init], metrics=[["lin", [[1, ["x", 3]], [-1, ["x", 0]]]]]))
    # the model of tests/test_wrappers.py: LMI [[|x1-xs|^2, t],[t, 1]], metric t
    out.append(dict(funcs=[dict(cls="SmoothStronglyConvexFunction", params=dict(mu=0.1, L=1.0), stationary=True)],
                    steps=1, gamma=1.0,
                    ops=[["leaf"], init, ["lmi", "pep", [[["sq", [[1, 3], [-1, 1]]], ["x", 3]], [["x", 3], ["const", 1]]]]],
                    metrics=[["x", 3]]))
    # two metrics (minimum of two), equality constraint fixing f(xs) = 0
    out.append(dict(funcs=[dict(cls="SmoothStronglyConvexFunction", params=dict(mu=0.25, L=1.0), stationary=True)],
                    steps=1, gamma=0.5, ops=[init, ["cons", "pep", ["x", 0], "==", ["const", 0]]],
                    metrics=[["sq", [[1, 3], [-1, 1]]], ["lin", [[2, ["x", 1]], [-2, ["x", 0]]]]]))
    # two functions
    out.append(dict(funcs=[dict(cls="SmoothStronglyConvexFunction", params=dict(mu=0.5, L=1.0), stationary=True),
                           dict(cls="ConvexLipschitzFunction", params=dict(M=1.0), stationary=False)],
                    steps=1, gamma=0.5, ops=[init], metrics=[["sq", [[1, 4], [-1, 1]]]]))
    # class LMI: symmetric linear operator, max |Ax0|^2 s.t. |x0|^2 <= 1
    out.append(dict(funcs=[dict(cls="SymmetricLinearOperator", params=dict(mu=0.0, L=1.0), stationary=False)],
                    steps=0, gamma=1.0, ops=[["cons", "pep", ["sq", [[1, 0]]], "<=", ["const", 1]]],
                    metrics=[["sq", [[1, 1]]]]))
    # function-level LMI (sent after the class constraints), 3x3 with a leaf expression
    out.append(dict(funcs=[dict(cls="SmoothStronglyConvexFunction", params=dict(mu=0.1, L=1.0), stationary=True)],
                    steps=1, gamma=1.0,
                    ops=[["leaf"], init,
                         ["lmi", "f0", [[["sq", [[1, 3], [-1, 1]]], ["x", 3], ["const", 0]],
                                        [["x", 3], ["const", 1], ["const", 0]],
                                        [["const", 0], ["const", 0], ["sq", P0]]]]],
                    metrics=[["x", 3]]))
    # two LMIs in send order (problem-level then function-level) + user inequality on a function
    out.append(dict(funcs=[dict(cls="SmoothStronglyConvexFunction", params=dict(mu=0.1, L=1.0), stationary=True)],
                    steps=1, gamma=1.0,
                    ops=[["leaf"], ["leaf"], init,
                         ["lmi", "pep", [[["sq", [[1, 3], [-1, 1]]], ["x", 3]], [["x", 3], ["const", 1]]]],
                         ["lmi", "f0", [[["sq", P0], ["x", 4]], [["x", 4], ["const", 1]]]],
                         ["cons", "f0", ["x", 4], "<=", ["const", 2]]],
                    metrics=[["lin", [[1, ["x", 3]], [0.5, ["x", 4]]]]]))
    # three LMIs of sizes 1, 2 (ASYMMETRIC as written: leaves t and s in mirrored positions, forcing t == s), 3
    out.append(dict(funcs=[dict(cls="SmoothStronglyConvexFunction", params=dict(mu=0.1, L=1.0), stationary=True)],
                    steps=1, gamma=1.0,
                    ops=[["leaf"], ["leaf"], ["leaf"], init,
                         ["lmi", "pep", [[["lin", [[1, ["const", 2]], [-1, ["x", 5]]]]]]],
                         ["lmi", "pep", [[["sq", [[1, 3], [-1, 1]]], ["x", 3]], [["x", 4], ["const", 1]]]],
                         ["lmi", "f0", [[["sq", P0], ["x", 5], ["const", 0]],
                                        [["x", 5], ["const", 1], ["x", 3]],
                                        [["const", 0], ["x", 4], ["const", 2]]]]],
                    metrics=[["lin", [[1, ["x", 3]], [0.25, ["x", 5]]]]]))
    # class LMI that is not symmetric as written (SymmetricLinearOperator with two samples) + a user LMI after it
    out.append(dict(funcs=[dict(cls="SymmetricLinearOperator", params=dict(mu=0.0, L=1.0), stationary=False)],
                    steps=1, gamma=0.5,
                    ops=[["leaf"], ["cons", "pep", ["sq", [[1, 0]]], "<=", ["const", 1]],
                         ["lmi", "f0", [[["sq", [[1, 3]]], ["x", 2]], [["x", 2], ["const", 1]]]]],
                    metrics=[["x", 2]]))
    # convex QG with a declared stationary point
    out.append(dict(funcs=[dict(cls="ConvexQGFunction", params=dict(L=1.0), stationary=True)],
                    steps=1, gamma=0.5, ops=[init], metrics=[["lin", [[1, ["x", 2]], [-1, ["x", 0]]]]]))
    # strongly monotone + Lipschitz operator
    out.append(dict(funcs=[dict(cls="LipschitzStronglyMonotoneOperator", params=dict(mu=0.5, L=1.0), stationary=True)],
                    steps=1, gamma=0.5, ops=[init], metrics=[["sq", [[1, 3], [-1, 1]]]]))
    return out


def gram_of_leaves():
    from PEPit import Point
    V = np.array([p.eval() for p in Point.list_of_leaf_points])
    return V @ V.T


def certificate_residual(p):
    """our own residual of  objective - tau = sum lambda_c e_c - <S0, G> - sum <S_k, E_k>  over ALL keys, the value tau,
    the smallest multiplier of an inequality and the smallest eigenvalue of the PSD multipliers"""
    from PEPit import Point, Expression
    n = Point.counter
    G = np.zeros((n, n))
    F = {}
    const = [0.0]

    def add(expr_dict, w):
        for k, v in expr_dict.items():
            if type(k) == Expression:
                F[k.counter] = F.get(k.counter, 0.0) + w * v
            elif type(k) == tuple:
                G[k[0].counter, k[1].counter] += w * v
            else:
                const[0] += w * v
    add(p.objective.decomposition_dict, 1.0)
    min_ineq = 0.0
    for c in p._list_of_constraints_sent_to_wrapper:
        lam = c.eval_dual()
        add(c.expression.decomposition_dict, -lam)
        if c.equality_or_inequality == "inequality":
            min_ineq = min(min_ineq, lam)
    min_eig = float(np.min(np.linalg.eigvalsh((p.residual + p.residual.T) / 2)))
    G += p.residual
    for m in p._list_of_psd_sent_to_wrapper:
        S = m.eval_dual()
        min_eig = min(min_eig, float(np.min(np.linalg.eigvalsh((S + S.T) / 2))))
        # the entries' expressions are combined with the ENTRY duals (bd99691); their symmetric part is S
        U = getattr(m, "entries_dual_variable_value", None)
        U = S if U is None else np.array(U)
        for i in range(m.shape[0]):
            for j in range(m.shape[1]):
                add(m[i, j].decomposition_dict, U[i, j])
    Gs = (G + G.T) / 2
    resid = max([float(np.max(np.abs(Gs)))] if n else [0.0]) if n else 0.0
    resid = max([resid] + [abs(v) for v in F.values()])
    return dict(residual=resid, tau=const[0], min_ineq=min_ineq, min_eig=min_eig)


def primal_violation(p):
    """largest violation of the sent constraint list by the primal instance (leaf values)"""
    worst = 0.0
    for c in p._list_of_constraints_sent_to_wrapper:
        v = c.eval()
        worst = max(worst, v if c.equality_or_inequality == "inequality" else abs(v))
    for m in p._list_of_psd_sent_to_wrapper:
        E = m.eval()
        worst = max(worst, -float(np.min(np.linalg.eigvalsh((E + E.T) / 2))), float(np.max(np.abs(E - E.T))))
    return worst


def solve_both(spec, heuristic=None, tol=1e-4, nsolve=1):
    """the same program on both paths; returns per-path observations"""
    M = mosek()
    out = {}
    for w in ("cvxpy", "mosek"):
        p, funcs = build(spec)
        M.reset()
        kw = dict(moseklib.SCS_OPTS) if w == "cvxpy" else {}
        if heuristic:
            kw.update(dimension_reduction_heuristic=heuristic, tol_dimension_reduction=tol)
        obs = dict(raised=None)
        try:
            for _ in range(nsolve):
                M.reset()
                with moseklib.quiet():
                    obs["value"] = p.solve(wrapper=w, verbose=0, **kw)
            obs["wrapper"] = p.wrapper_name
            if obs["value"] is not None:
                obs["duals"] = [float(c.eval_dual()) for c in p._list_of_constraints_sent_to_wrapper]
                obs["lmi_duals"] = [np.array(m.eval_dual()) for m in p._list_of_psd_sent_to_wrapper]
                obs["entry_duals"] = [None if getattr(m, "entries_dual_variable_value", None) is None
                                      else np.array(m.entries_dual_variable_value)
                                      for m in p._list_of_psd_sent_to_wrapper]
                obs["residual"] = np.array(p.residual)
                obs["gram"] = gram_of_leaves()
                obs["F"] = np.array([e.eval() for e in __import__("PEPit").Expression.list_of_leaf_expressions])
                obs["cert"] = certificate_residual(p)
                obs["primal_violation"] = primal_violation(p)
                obs["primal_value"] = float(p.objective.eval())
                G = obs["gram"]
                obs["rank"] = int(np.sum(np.linalg.eigvalsh(G) > 1e-4 * max(1e-12, np.max(np.linalg.eigvalsh(G)))))
                obs["trace"] = float(np.trace(G))
        except Exception as e:
            obs["raised"] = (type(e).__name__, str(e)[:200])
        if w == "mosek":
            t = M.LAST_TASK[0]
            obs["diagnostics"] = dict(t.diagnostics) if t is not None else {}
        out[w] = obs
    return out


TOL = 1e-3


def compare_paths(spec, obs, heuristic=None):
    """property C11 on one solved model.  Returns (problems, stats)"""
    a, b = obs["cvxpy"], obs["mosek"]
    base = dict(spec=spec, heuristic=heuristic)
    if b.get("wrapper") != "mosek" and not b["raised"]:
        return [dict(kind="mosek-wrapper-not-reached", **base)], {}
    if a["raised"] or b["raised"]:
        return [dict(kind="path-raised", cvxpy=a["raised"], mosek=b["raised"], **base)], {}
    if (a["value"] is None) != (b["value"] is None):
        return [dict(kind="status-ignored", cvxpy_value=a["value"], mosek_value=b["value"], **base)], {}
    if a["value"] is None:
        return [], {}
    probs = []
    stats = dict(value_diff=abs(a["value"] - b["value"]))
    if stats["value_diff"] > TOL:
        probs.append(dict(kind="value-differs", cvxpy=a["value"], mosek=b["value"], **base))
    # each path: a valid certificate and a valid primal instance for the SAME constraint list
    for w in ("cvxpy", "mosek"):
        o = obs[w]
        c = o["cert"]
        stats[w + "_cert_residual"] = c["residual"]
        stats[w + "_primal_violation"] = o["primal_violation"]
        if c["residual"] > TOL or c["min_ineq"] < -TOL or c["min_eig"] < -TOL:
            probs.append(dict(kind="certificate-invalid", path=w, certificate=c, **base))
        if not heuristic and abs(c["tau"] - o["value"]) > TOL:
            probs.append(dict(kind="certificate-constant-differs", path=w, certificate=c, value=o["value"], **base))
        if o["primal_violation"] > TOL:
            probs.append(dict(kind="primal-instance-invalid", path=w, violation=o["primal_violation"], **base))
        if abs(o["primal_value"] - a["value"]) > (TOL if not heuristic else 10 * TOL + 2e-4):
            probs.append(dict(kind="primal-value-differs", path=w, primal=o["primal_value"], value=a["value"], **base))
    # one convention for the entry duals: on EACH path their symmetric part is the reported dual matrix
    for w in ("cvxpy", "mosek"):
        o = obs[w]
        for k, (S, U) in enumerate(zip(o["lmi_duals"], o["entry_duals"])):
            if U is None or U.shape != S.shape:
                probs.append(dict(kind="entry-duals-missing", path=w, lmi=k, **base))
            else:
                dev = float(np.max(np.abs((U + U.T) / 2 - S))) if S.size else 0.0
                stats[w + "_sym_entries_minus_dual"] = max(stats.get(w + "_sym_entries_minus_dual", 0.0), dev)
                if dev > TOL:
                    probs.append(dict(kind="entry-duals-not-the-reported-dual", path=w, lmi=k, deviation=dev,
                                      entries_dual=U.tolist(), dual=S.tolist(), **base))
    de = max([float(np.max(np.abs((x + x.T) / 2 - (y + y.T) / 2))) for x, y in zip(a["entry_duals"], b["entry_duals"])
              if x is not None and y is not None and x.size] + [0.0])
    stats["sym_entry_dual_diff"] = de
    # direct agreement (meaningful when optimal primal/dual solutions are unique; otherwise both valid ones may differ)
    dd = max([abs(x - y) for x, y in zip(a["duals"], b["duals"])] + [0.0])
    dl = max([float(np.max(np.abs(x - y))) for x, y in zip(a["lmi_duals"], b["lmi_duals"])] + [0.0])
    dr = float(np.max(np.abs(a["residual"] - b["residual"]))) if a["residual"].size else 0.0
    dg = float(np.max(np.abs(a["gram"] - b["gram"]))) if a["gram"].size else 0.0
    stats.update(dual_diff=dd, lmi_dual_diff=dl, residual_diff=dr, gram_diff=dg,
                 agree=bool(max(dd, dl, dr) <= TOL and (heuristic or dg <= TOL)))
    if spec.get("require_equal_gram") and dg > TOL:
        probs.append(dict(kind="primal-instance-differs", cvxpy_gram=a["gram"].tolist(), mosek_gram=b["gram"].tolist(),
                          gram_diff=dg, **base))
    if len(a["duals"]) != len(b["duals"]) or len(a["lmi_duals"]) != len(b["lmi_duals"]):
        probs.append(dict(kind="constraint-lists-differ", **base))
    return probs, stats


def stream_end_to_end(tier, seed):
    specs = curated_specs()
    if tier != "quick":
        specs = specs + specs[:4]
    problems, stats_all, samples = [], [], []
    n_agree = 0
    for k, spec in enumerate(specs):
        heur = None
        if k >= len(curated_specs()):
            heur = ["trace", "logdet1", "trace", "logdet2"][k - len(curated_specs())]
        obs = solve_both(spec, heuristic=heur)
        probs, stats = compare_paths(spec, obs, heur)
        problems += probs
        stats_all.append(stats)
        n_agree += 1 if stats.get("agree") else 0
        if len(samples) < 2:
            samples.append(dict(spec=spec, cvxpy_value=obs["cvxpy"].get("value"), mosek_value=obs["mosek"].get("value"),
                                stats=stats, standin=obs["mosek"].get("diagnostics")))
    keys = ["value_diff", "dual_diff", "lmi_dual_diff", "residual_diff", "gram_diff", "cvxpy_cert_residual",
            "mosek_cert_residual", "cvxpy_primal_violation", "mosek_primal_violation"]
    dist = {k: max([s.get(k, 0.0) for s in stats_all] + [0.0]) for k in keys}
    dist["models_where_duals_and_gram_agree_within_1e-3"] = n_agree
    return dict(name="end-to-end", evaluations=len(specs), distinct_nontrivial=len(specs),
                rule="curated bounded feasible models (GD variants, the tests/test_wrappers.py LMI model, 2 metrics, equality, "
                     "2 functions, class LMI, function-level 3x3 LMI, 2 LMIs, ConvexQG with declared stationary point, "
                     "operator), each solved on both paths; every one is non-trivial",
                samples=samples, n_mismatch=0, mismatches=[], problems=problems, n_problems=len(problems),
                distribution=dist)


def stream_heuristic_solves(tier, seed):
    """(c), real solves: the test_wrappers model with trace / logdet1 on both paths"""
    spec = curated_specs()[2]
    problems, samples, st = [], [], []
    for heur in (["trace", "logdet1"] if tier == "quick" else ["trace", "logdet1", "logdet2"]):
        obs = solve_both(spec, heuristic=heur)
        probs, stats = compare_paths(spec, obs, heur)
        problems += probs
        a, b = obs["cvxpy"], obs["mosek"]
        if not (a["raised"] or b["raised"]):
            stats.update(cvxpy_rank=a.get("rank"), mosek_rank=b.get("rank"), cvxpy_trace=a.get("trace"), mosek_trace=b.get("trace"))
            if heur == "trace" and abs(a["trace"] - b["trace"]) > 10 * TOL:
                problems.append(dict(kind="heuristic-objective-differs", spec=spec, heuristic=heur,
                                     cvxpy_trace=a["trace"], mosek_trace=b["trace"]))
        st.append(stats)
        samples.append(dict(heuristic=heur, stats=stats))
    return dict(name="heuristic-solves", evaluations=len(st), distinct_nontrivial=len(st),
                rule="the tests/test_wrappers.py model re-solved with each dimension-reduction heuristic on both paths",
                samples=samples[:2], n_mismatch=0, mismatches=[], problems=problems, n_problems=len(problems),
                distribution=dict(stats=st))


# ------------------------------------------------------------------------------------------ heuristic objectives
def polygon_spec():
    """seed C11-8's model: two orthogonal points x, y; polygonal feasible set for (a, b) = (|x|^2, |y|^2) (tangents to
    b = a^(-1/2), b >= 0.45, a, b <= 8); objective independent of the Gram matrix.  Every logdet step is an LP whose
    solution is a well separated vertex: the heuristic alone selects the returned Gram matrix."""
    A, B = ["sq", [[1, 0]]], ["sq", [[1, 1]]]
    ops = [["point"], ["leaf"], ["cons", "pep", ["ip", [[1, 0]], [[1, 1]]], "==", ["const", 0]]]
    for k in range(-4, 5):
        a_i = 2. ** (k / 2)
        phi, dphi = a_i ** (-.5), -.5 * a_i ** (-1.5)
        ops.append(["cons", "pep", ["lin", [[1, B], [-dphi, A]]], ">=", ["const", phi - dphi * a_i]])
    ops += [["cons", "pep", B, ">=", ["const", .45]], ["cons", "pep", A, "<=", ["const", 8]],
            ["cons", "pep", B, "<=", ["const", 8]], ["cons", "pep", ["x", 0], "<=", ["const", 1]]]
    return dict(funcs=[], steps=0, gamma=1.0, ops=ops, metrics=[["x", 0]], require_equal_gram=True)


def _objective_data(prob, G, F):
    """the objective of a cvxpy Problem as data, parameters at their CURRENT value: (sense, symmetric matrix C with
    objective = sum_ab C[a,b] G[a,b] for symmetric G, vector f, constant) -- by evaluating the objective expression at
    the unit (symmetric) matrices; None entries when the expression has no value (a Parameter without value)"""
    expr = prob.objective.args[0]
    n, m = G.shape[0], F.shape[0]
    for v in prob.variables():
        v.value = np.zeros(v.shape)
    c0 = expr.value
    if c0 is None:
        return dict(sense=type(prob.objective).__name__, C=None, f=None, const=None)
    C = np.zeros((n, n))
    for a in range(n):
        for b in range(a + 1):
            E = np.zeros((n, n))
            E[a, b] = E[b, a] = 1.0
            G.value = E
            v = float(expr.value) - float(c0)
            C[a, b] = C[b, a] = v if a == b else v / 2
    G.value = np.zeros((n, n))
    f = np.zeros(m)
    for k in range(m):
        e = np.zeros(m)
        e[k] = 1.0
        F.value = e
        f[k] = float(expr.value) - float(c0)
    F.value = np.zeros(m)
    return dict(sense=type(prob.objective).__name__, C=C, f=f, const=float(c0))


def cvxpy_objectives(spec, heuristic):
    """solve on the cvxpy path with a recording hook on cp.Problem.solve: for every solve, the objective actually handed
    to the solver (before) and the Gram matrix returned (after)"""
    import cvxpy as cp
    p, funcs = build(spec)
    rec = []
    orig = cp.Problem.solve

    def hooked(self, *a, **k):
        w = p.wrapper
        data = _objective_data(self, w.G, w.F)
        out = orig(self, *a, **k)
        data["G"] = None if w.G.value is None else np.array(w.G.value)
        rec.append(data)
        return out
    cp.Problem.solve = hooked
    try:
        kw = dict(moseklib.SCS_OPTS)
        if heuristic:
            kw["dimension_reduction_heuristic"] = heuristic
        with moseklib.quiet():
            value = p.solve(wrapper="cvxpy", verbose=0, **kw)
    finally:
        cp.Problem.solve = orig
    from PEPit import Point
    return dict(value=value, solves=rec, obj=p.objective.counter, pc=Point.counter, gram=gram_of_leaves())


def mosek_objectives(spec, heuristic):
    res = run_mosek(spec, heuristic=heuristic, scripted=False, tol=1e-4)
    t = res["task"]
    from PEPit import Point
    grams = [_fill(ret, Point.counter) for name, a, ret in res["calls"] if name == "getbarxj" and a[1] == 0 and ret is not None]
    return dict(value=res["value"], raised=res["raised"], solves=list(t.objective_history), grams=grams,
                obj=res["pep"].objective.counter, pc=Point.counter,
                gram=gram_of_leaves() if not res["raised"] else None)


def expected_weight(heuristic, k, G_prev, pc, eig_regularization=1e-3):
    """the weight of heuristic call k (1-based) as pep.py computes it from the previous Gram matrix"""
    from PEPit import PEP
    if heuristic == "trace":
        return np.identity(pc)
    _, _, corrected = PEP.get_nb_eigenvalues_and_corrected_matrix(G_prev)
    return np.linalg.inv(corrected + eig_regularization * np.eye(pc))


def objectives_case(spec, heur, mname, dist):
    """one run: returns (problems, sample)"""
    problems = []
    base = dict(spec=spec, heuristic=heur, model=mname)
    try:
        cv = cvxpy_objectives(spec, heur)
        mo = mosek_objectives(spec, heur)
    except Exception:
        problems.append(dict(kind="harness-crashed", error=traceback.format_exc()[-1200:], **base))
        return problems, None
    if mo["raised"]:
        problems.append(dict(kind="mosek-path-raised", raised=list(mo["raised"]), **base))
        return problems, None
    ncalls = 1 if heur == "trace" else int(heur[6:])
    if len(cv["solves"]) != ncalls + 1 or len(mo["solves"]) != ncalls + 1:
        problems.append(dict(kind="number-of-solves-differs", cvxpy=len(cv["solves"]), mosek=len(mo["solves"]),
                             expected=ncalls + 1, **base))
        return problems, None
    pc = cv["pc"]
    # solve 0: maximise the objective leaf on both paths
    s0c, s0m = cv["solves"][0], mo["solves"][0]
    ok0 = (s0c["sense"] == "Maximize" and s0c["C"] is not None and np.max(np.abs(s0c["C"])) < 1e-12
           and np.allclose(s0c["f"], np.eye(len(s0c["f"]))[cv["obj"]], atol=1e-12)
           and s0m["sense"] == "maximize" and [(j, v) for j, v in s0m["c"] if v != 0] == [(mo["obj"], 1.0)]
           and all(np.max(np.abs(M)) == 0 for M in s0m["barc"].values()))
    if not ok0:
        problems.append(dict(kind="first-objective-differs", cvxpy=jsonable(s0c), mosek=jsonable(s0m), **base))
    for k in range(1, ncalls + 1):
        dist["calls"] += 1
        # cvxpy: its own previous Gram matrix -> W_k ; objective handed over at call k
        Wc = expected_weight(heur, k, cv["solves"][k - 1]["G"], pc)
        sc = cv["solves"][k]
        scale = max(1.0, float(np.max(np.abs(Wc))))
        if sc["C"] is None or sc["sense"] != "Minimize":
            problems.append(dict(kind="heuristic-objective-differs", path="cvxpy", call=k, got=jsonable(sc), **base))
        else:
            dev = float(np.max(np.abs(sc["C"] - (Wc + Wc.T) / 2))) / scale
            devf = float(np.max(np.abs(sc["f"]))) if len(sc["f"]) else 0.0
            dist["max_cvxpy_dev"] = max(dist["max_cvxpy_dev"], dev)
            if dev > 1e-9 or devf > 1e-12:
                problems.append(dict(kind="heuristic-objective-differs", path="cvxpy", call=k, relative_deviation=dev,
                                     objective_matrix=sc["C"].tolist(), model_weight=Wc.tolist(),
                                     leaf_coefficients=sc["f"].tolist(), **base))
        # mosek: same, from the stand-in task (lower triangle of W_k, mirrored; c all zero)
        Wm = expected_weight(heur, k, mo["grams"][k - 1], pc)
        sm = mo["solves"][k]
        Dm = np.tril(Wm) + np.tril(Wm, -1).T
        got = sm["barc"].get(0, np.zeros((pc, pc)))
        devm = float(np.max(np.abs(got - Dm))) / max(1.0, float(np.max(np.abs(Wm))))
        dist["max_mosek_dev"] = max(dist["max_mosek_dev"], devm)
        if sm["sense"] != "minimize" or devm > 0 or any(v != 0 for j, v in sm["c"]) \
                or any(np.max(np.abs(M)) != 0 for j, M in sm["barc"].items() if j != 0):
            problems.append(dict(kind="heuristic-objective-differs", path="mosek", call=k, relative_deviation=devm,
                                 objective_matrix=np.array(got).tolist(), model_weight=Wm.tolist(),
                                 c=jsonable(sm["c"]), sense=sm["sense"], **base))
    dg = float(np.max(np.abs(cv["gram"] - mo["gram"])))
    dist["gram_diff"]["%s/%s" % (mname, heur)] = round(dg, 7)
    if abs(cv["value"] - mo["value"]) > TOL:
        problems.append(dict(kind="value-differs", cvxpy=cv["value"], mosek=mo["value"], **base))
    if spec.get("require_equal_gram") and dg > TOL:
        problems.append(dict(kind="primal-instance-differs", cvxpy_gram=cv["gram"].tolist(),
                             mosek_gram=mo["gram"].tolist(), gram_diff=dg, **base))
    sample = dict(model=mname, heuristic=heur, cvxpy_gram=cv["gram"].tolist(), mosek_gram=mo["gram"].tolist(),
                  cvxpy_objective_call_last=cv["solves"][-1]["C"].tolist() if cv["solves"][-1]["C"] is not None else None)
    return problems, sample


def stream_heuristic_objectives(tier, seed):
    """for EVERY heuristic call k of a run, the objective data each back-end hands to its solver, against W_k"""
    cur = curated_specs()
    models = [("polygon", polygon_spec()), ("test_wrappers-lmi", cur[2]), ("gd-two-steps", cur[1]), ("three-lmis", cur[8])]
    heurs = ["trace", "logdet2", "logdet3"]
    problems, samples, n, dist = [], [], 0, dict(max_cvxpy_dev=0.0, max_mosek_dev=0.0, calls=0, gram_diff={})
    for mname, spec in models:
        for heur in (heurs if mname == "polygon" or tier != "quick" else ["logdet2"]):
            n += 1
            probs, sample = objectives_case(spec, heur, mname, dist)
            problems += probs
            if sample and len(samples) < 2:
                samples.append(sample)
    return dict(name="heuristic-objectives", evaluations=n, distinct_nontrivial=n,
                rule="for every solve of a trace / logdet2 / logdet3 run: the objective of the cvxpy Problem at solve time (hook on "
                     "cp.Problem.solve, parameters at their current value) and the objective of the stand-in task at optimize, each "
                     "against W_k recomputed with pep.py's formula from that back-end's previous Gram matrix; on the polygon model "
                     "(every logdet step an LP with separated vertices) the returned Gram matrices must agree within 1e-3",
                samples=samples, n_mismatch=0, mismatches=[], problems=problems, n_problems=len(problems), distribution=dist)


def check_numpy():
    try:
        (2 ** 31 - 1) + np.zeros(1, dtype=np.int32)
    except OverflowError:
        return "OverflowError below 2^31"
    try:
        2 ** 31 + np.zeros(1, dtype=np.int32)
        return "no OverflowError at 2^31"
    except OverflowError:
        return None


# ------------------------------------------------------------------------------------------ regressions
def regression_cases():
    """the triggers of the repaired findings F-C11a/b/c: (name, spec, heuristic, nsolve)"""
    P0 = [[1, 0], [-1, 1]]
    init = ["cons", "pep", ["sq", P0], "<=", ["const", 1]]
    ssc = dict(cls="SmoothStronglyConvexFunction", params=dict(mu=0.5, L=1.0), stationary=True)   # dyadic: exact logs
    lmi_x1 = [[["sq", [[1, 3], [-1, 1]]], ["x", 3]], [["x", 3], ["const", 1]]]
    a1 = dict(funcs=[ssc], steps=1, gamma=1.0,
              ops=[["leaf"], ["leaf"], init, ["lmi", "f0", [[["sq", P0], ["x", 4]], [["x", 4], ["const", 1]]]],
                   ["lmi", "pep", lmi_x1], ["cons", "f0", ["x", 4], "<=", ["const", 2]]],
              metrics=[["lin", [[1, ["x", 3]], [0.5, ["x", 4]]]]])
    a2 = dict(funcs=[ssc], steps=1, gamma=1.0,
              ops=[["leaf"], init, ["lmi", "unused", [[["sq", P0], ["x", 3]], [["x", 3], ["const", 1]]]],
                   ["lmi", "pep", lmi_x1]], metrics=[["x", 3]])
    a3 = dict(funcs=[dict(cls="SymmetricLinearOperator", params=dict(mu=0.0, L=1.0), stationary=False)],
              steps=0, gamma=1.0, ops=[["cons", "pep", ["sq", [[1, 0]]], "<=", ["const", 1]]], metrics=[["sq", [[1, 1]]]])
    b1 = dict(funcs=[dict(cls="ConvexQGFunction", params=dict(L=1.0), stationary=False)], steps=1, gamma=0.5,
              ops=[["cons", "pep", ["sq", [[1, 1]]], "<=", ["const", 1]], ["cons", "pep", ["sq", [[1, 3]]], "<=", ["const", 1]],
                   ["cons", "pep", ["sq", [[1, 0]]], "<=", ["const", 4]]],
              metrics=[["lin", [[1, ["x", 0]], [-1, ["x", 1]]]]])        # f(x0) - f(x1) <= gamma |g0|^2: attained
    b2 = dict(funcs=[dict(cls="RsiEbFunction", params=dict(mu=0.5, L=1.0), stationary=False)], steps=0, gamma=1.0,
              ops=[["cons", "pep", ["sq", [[1, 1]]], "<=", ["const", 1]]], metrics=[["sq", [[1, 1]]]])
    c1 = dict(funcs=[dict(cls="SmoothConvexFunction", params=dict(L=1.0), stationary=True)], steps=10, gamma=1.0,
              ops=[init], metrics=[["lin", [[1, ["x", 11]], [-1, ["x", 0]]]]])
    return [("F-C11a function-level LMI created before a problem-level one", a1, None, 1),
            ("F-C11a unused PSDMatrix created before the LMI", a2, None, 1),
            ("F-C11a second solve with a SymmetricLinearOperator (class LMI re-created)", a3, None, 2),
            ("F-C11b ConvexQGFunction without declared stationary point", b1, None, 1),
            ("F-C11b ConvexQGFunction without declared stationary point, trace heuristic", b1, "trace", 1),
            ("F-C11b RsiEbFunction without declared stationary point", b2, None, 1),
            ("F-C11b RsiEbFunction without declared stationary point, logdet1 heuristic", b2, "logdet1", 1),
            ("F-C11c 10 gradient steps: 135 rows", c1, None, 1)]


def stream_regressions(tier, seed):
    cases, metas, problems, samples = [], [], [], []
    for name, spec, heur, nsolve in regression_cases():
        # (i) the call log against the model (scripted solve)
        try:
            inp, expected, probs, info = one_case(spec, heur, nsolve=nsolve)
            cases.append((inp, expected))
            metas.append((name, spec, heur, nsolve, expected, info))
            problems += [dict(pr, regression=name) for pr in probs]
        except Exception:
            problems.append(dict(kind="harness-crashed", regression=name, spec=spec, heuristic=heur, nsolve=nsolve,
                                 error=traceback.format_exc()[-1500:]))
        # (ii) really solved on both paths
        obs = solve_both(spec, heuristic=heur, nsolve=nsolve)
        probs, stats = compare_paths(spec, obs, heur)
        problems += [dict(pr, regression=name, nsolve=nsolve) for pr in probs]
        samples.append(dict(regression=name, cvxpy_value=obs["cvxpy"].get("value"), mosek_value=obs["mosek"].get("value"),
                            stats=stats))
    bad = run_cases("c11_regress", IMPORTS, RUN, cases, shard=4, input_type=INPUT_TYPE)
    mism = []
    for i in bad:
        name, spec, heur, nsolve, expected, info = metas[i]
        pr = dict(kind="model-differs", regression=name, spec=spec, heuristic=heur, nsolve=nsolve,
                  implementation_tail=jsonable(expected)[0][-6:], flags=expected[1:3])
        problems.append(pr)
        mism.append(dict(pr, model=model_output(IMPORTS, RUN, cases[i][0])[-2000:]))
    return dict(name="regressions", evaluations=2 * len(regression_cases()), distinct_nontrivial=len(regression_cases()),
                rule="the former triggers of F-C11a (3), F-C11b (3, one with the trace heuristic), F-C11c (1): call log vs. "
                     "model and real solves on both paths; all non-trivial",
                samples=samples[:2], n_mismatch=len(bad), mismatches=mism[:3], problems=problems, n_problems=len(problems),
                distribution=dict(cases=[s["regression"] for s in samples],
                                  value_diff_max=max([s["stats"].get("value_diff", 0.0) for s in samples] + [0.0])))


def correspondence(tier, seed, corpus=()):
    mosek()
    r = stream_regressions(tier, seed)
    rng = random.Random(seed * 7919 + 11)
    n = 110 if tier == "quick" else 900
    specs = [c["spec"] for c in corpus if "spec" in c] + gen_specs(rng, n)
    a = stream_logs("call-log", tier, seed, specs, [None] * len(specs),
                    "seeded random models sent through the real PEP.solve(wrapper='mosek') on the stand-in; compared: every "
                    "Task call with every argument up to and including a raising call, whether the API accepted all "
                    "calls, the guard; non-trivial = at least 3 rows; distinct by the model's input")
    nh = 30 if tier == "quick" else 200
    rng2 = random.Random(seed * 104729 + 1111)
    hs = gen_specs(rng2, nh)
    heurs = [rng2.choice(["trace", "trace", "logdet1", "logdet2"]) for _ in hs]
    c = stream_logs("heuristic-log", tier, seed, hs, heurs,
                    "as call-log with dimension_reduction_heuristic in {trace, logdet1, logdet2}: putclist / putobjsense / extra "
                    "row with its bound key / appendsparsesymmat + putbarcj per round, scripted solves")
    b = stream_end_to_end(tier, seed)
    d = stream_heuristic_solves(tier, seed)
    e = stream_heuristic_objectives(tier, seed)
    bad = check_numpy()
    if bad:
        a["problems"].append(dict(kind="numpy-int8-semantics-changed", detail=bad))
    return [r, a, c, b, d, e]


# ------------------------------------------------------------------------------------------ known findings
KINDS = {"status-ignored": "F-C11d"}


def _confirms(kind, payload):
    """the payload shows the SPECIFIC trigger of the finding of that kind"""
    if kind == "status-ignored":
        return payload.get("cvxpy_value") is None and payload.get("mosek_value") is not None
    return False


def is_known(payload, known):
    fid = KINDS.get(payload.get("kind"))
    if fid and any(k["id"] == fid for k in known) and _confirms(payload["kind"], payload):
        return fid
    return None


def _replay_trigger(trig):
    """re-run a finding's trigger on the implementation: the payload observed now (or None if all is well)"""
    spec = trig["spec"]
    obs = solve_both(spec)
    probs, _ = compare_paths(spec, obs)
    return probs[0] if probs else None


def known_findings(known):
    out = []
    for k in known:
        trigs = k["trigger"] if isinstance(k["trigger"], list) else [k["trigger"]]
        still = []
        for t in trigs:
            try:
                got = _replay_trigger(t)
            except Exception:
                got = dict(kind="replay-crashed", error=traceback.format_exc()[-800:])
            still.append(bool(got) and got.get("kind") == t["kind"] and _confirms(t["kind"], got))
        out.append((k["id"], all(still), "%s... [%d/%d triggers reproduce on the real wrapper running on the stand-in; %s]"
                    % (k["what"][:160], sum(still), len(still), k.get("coq", ""))))
    return out


def search(tier, seed):
    """failing-input search on the implementation: models varying exactly the guard dimensions, under the guard"""
    mosek()
    rng = random.Random(seed + 110011)
    for i in range(60 if tier == "quick" else 600):
        spec = gen_spec(rng, None)
        try:
            with moseklib.quiet():
                build(spec)
        except Exception:
            continue
        try:
            inp, expected, probs, info = one_case(spec, rng.choice([None, None, "trace"]))
        except Exception:
            return dict(kind="harness-crashed", spec=spec, error=traceback.format_exc()[-1500:])
        for pr in probs:
            if not KINDS.get(pr["kind"]) or not _confirms(pr["kind"], pr):
                return pr
        bad = run_cases("c11s", IMPORTS, RUN, [(inp, expected)], input_type=INPUT_TYPE)
        if bad:
            return dict(kind="model-differs", spec=spec)
    for spec in curated_specs():
        obs = solve_both(spec)
        probs, _ = compare_paths(spec, obs)
        if probs:
            return probs[0]
    return None


def replay(payload):
    mosek()
    spec = payload.get("spec")
    if spec is None:
        return True
    kind = payload.get("kind")
    heur = payload.get("heuristic")
    if payload.get("stream") == "heuristic-objectives":
        probs, _ = objectives_case(spec, heur, payload.get("model", "replay"),
                                   dict(max_cvxpy_dev=0.0, max_mosek_dev=0.0, calls=0, gram_diff={}))
        return bool(probs)
    if kind in ("value-differs", "certificate-invalid", "certificate-constant-differs", "primal-instance-invalid",
                "primal-value-differs", "path-raised", "status-ignored", "constraint-lists-differ",
                "heuristic-objective-differs"):
        obs = solve_both(spec, heuristic=heur)
        probs, _ = compare_paths(spec, obs, heur)
        return bool(probs)
    if payload.get("stream") == "heuristic-objectives" or kind in ("primal-instance-differs", "first-objective-differs",
                                                                   "number-of-solves-differs"):
        probs, _ = objectives_case(spec, heur, payload.get("model", "replay"),
                                   dict(max_cvxpy_dev=0.0, max_mosek_dev=0.0, calls=0, gram_diff={}))
        return bool(probs)
    inp, expected, probs, info = one_case(spec, heur)
    if probs:
        return True
    return bool(run_cases("c11r", IMPORTS, RUN, [(inp, expected)], input_type=INPUT_TYPE))
