"""Helpers of the C11 check: putting the MOSEK stand-in on sys.path (inside the harness process only),
running one PEPit program through `PEP.solve(wrapper="mosek")` on the stand-in and through
`wrapper="cvxpy"`, and canonical dumps of the recorded Task call log."""
import contextlib
import io
import os
import sys

HERE = os.path.dirname(os.path.abspath(__file__))
STANDIN = os.path.join(HERE, "standin")
SCS_OPTS = dict(solver="SCS", eps_abs=1e-9, eps_rel=1e-9, max_iters=200000)


def install():
    """make `import mosek` resolve to the stand-in.  cvxpy is imported FIRST so that its own list of installed
    solvers (computed at import) does not contain MOSEK."""
    import cvxpy  # noqa: F401
    if STANDIN not in sys.path:
        sys.path.insert(0, STANDIN)
    import mosek
    assert getattr(mosek, "__standin__", False), "a real mosek module shadows the stand-in"
    return mosek


@contextlib.contextmanager
def quiet():
    buf = io.StringIO()
    with contextlib.redirect_stdout(buf):
        yield buf


def task_log(mosek, task=None):
    """the call log of the (last) task as a list of (name, args, ret) -- construction calls only"""
    task = task or mosek.LAST_TASK[0]
    return list(task.calls)
