"""C02 -- primal output is a feasible, self-consistent worst-case instance.

Tie (H): seeded op programs run on the real PEPit with an INJECTED solver answer (harness/solvelib.py:
FakeSolveWrapper registered in PEPit.wrappers.WRAPPERS; a rational Gram matrix whose PSD projection is known
exactly, F, position-tagged duals) and on Model/Resolve.run; every output is compared: what was sent, every
eval() / eval_dual() of objects created before and after the solve, cache flags, exception kinds.  Vectors are
compared through inner products (QR fixes coordinates up to an orthogonal map); numbers that went through
numpy's eigh + QR with tolerance 1e-8 (1 + |x|) (their only rounding, about 1e-13 here), the rest exactly.
A second stream solves small models with SCS and checks the property directly with the tolerances the property
allows.  Independent oracle: every returned value is recomputed in Fractions from the operands under the latest
injected solution."""
import random

from . import solvelib as S

GEN_DEPS = []
TRUSTED = [
    "Model/Eval.v models Point/Expression/Constraint/PSDMatrix.eval and the leaf loops of "
    "_eval_points_and_function_values by hand (tied by the injected-solution stream)",
    "numpy.linalg.eigh, the clipping of negative eigenvalues and numpy.linalg.qr (pep.py 873-887): 'the leaf "
    "vectors reproduce the PSD projection of G' is a HYPOTHESIS of C02_gram_reading, measured on every solve of "
    "both streams (fake: against the exactly known projection, 1e-7; SCS: against an independent eigh, 1e-6)",
    "harness/solvelib.py: FakeSolveWrapper, program generator, Fraction oracle",
    "C02_primal_le_dual is C01's weak-duality theorem; here it is only measured on the SCS stream",
]
ASSUMES = [
    "solver optimality for C02_objective_is_min (explicit hypothesis: optimal among points differing in tau only)",
    "P^T P = G+ (numpy eigh/QR) for C02_gram_reading",
]
OWN = {"broadcast-after-new-point"}


def _seeds(tier, seed, n):
    base = seed * 1000003 + 20000
    return [base + i for i in range(n)]


def stream_real(tier, seed):
    n = 12 if tier == "quick" else 60
    problems, stats, samples = [], {}, []
    for idx in range(n):
        p, h = S.real_model(idx + 6 * (seed % 1000))
        S.check_instance(p, h, idx + 6 * (seed % 1000), problems, stats)
        if idx < 2:
            samples.append(dict(model=h["info"], objective=float(p.objective.eval())))
    for pr in problems:
        pr["generator"] = "real"
    return dict(name="scs-instances", evaluations=n, distinct_nontrivial=n,
                rule="small gradient-type PEPs (6 families: plain, two metrics, symmetric linear operator, quadratic, "
                     "block partition, user LMI) solved with SCS (eps 1e-9); Gram of the evaluated leaf points vs the "
                     "PSD projection of G_value (1e-6 scale), every sent constraint / LMI at the instance (1e-4 scale), "
                     "objective = min metric (1e-5 scale), primal <= dual + 1e-3 scale, objects built after the solve "
                     "= combination of operand values (1e-10); distinct = distinct parameter tuples",
                n_mismatch=0, mismatches=[], problems=problems[:5], n_problems=len(problems),
                samples=samples, distribution=dict(max_relative_residuals={k: float("%.3g" % v) for k, v in stats.items()}))


def correspondence(tier, seed, corpus=()):
    n = 400 if tier == "quick" else 5000
    seeds = [int(c["case_seed"]) for c in corpus if c.get("generator") == "c02"] + _seeds(tier, seed, n)
    return [S.run_stream("c02-injected", "c02", seeds, OWN), stream_real(tier, seed)]


def search(tier, seed):
    n = 1500 if tier == "quick" else 15000
    found = S.direct_search("c02", [seed * 1000003 + 777000 + i for i in range(n)])
    if found:
        return found
    problems, stats = [], {}
    for idx in range(12):
        p, h = S.real_model(idx)
        S.check_instance(p, h, idx, problems, stats)
        if problems:
            return dict(generator="real", **problems[0])
    return None


def _finding_C02a():
    """solve (SCS); Point(); evaluate a not-yet-cached derived point"""
    from PEPit import Point
    p, h = S.real_model(0)
    S._quiet_solve(p)
    Point()
    try:
        (h["x0"] - h["xs"]).eval()
    except ValueError as e:
        return "broadcast" in str(e)
    return False


def known_findings(known):
    out = []
    for k in known:
        if k["id"] == "F-C02a":
            out.append((k["id"], _finding_C02a(), k["what"]))
    return out


def is_known(payload, known):
    fid = S.KNOWN_KINDS.get(payload.get("kind"))
    if fid and fid.startswith("F-C02") and any(k["id"] == fid for k in known):
        return fid
    return None


def replay(payload):
    if payload.get("generator") == "real":
        problems, stats = [], {}
        p, h = S.real_model(payload["model"])
        S.check_instance(p, h, payload["model"], problems, stats)
        return bool(problems)
    if "case_seed" in payload:
        return S.replay_case(payload)
    return search("quick", int(payload.get("seed", 0))) is not None
