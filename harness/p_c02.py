"""C02 -- primal output is a feasible, self-consistent worst-case instance.

Tie (H): seeded op programs run on the real PEPit with an INJECTED solver answer (harness/solvelib.py:
FakeSolveWrapper registered in PEPit.wrappers.WRAPPERS; a rational Gram matrix whose PSD projection is known
exactly, F, position-tagged duals) and on Model/Resolve.run; every output is compared: what was sent, every
eval() / eval_dual() of objects created before and after the solve, cache flags, exception kinds.  Vectors are
compared through inner products (QR fixes coordinates up to an orthogonal map); numbers that went through
numpy's eigh + QR with tolerance 1e-8 (1 + |x|) (their only rounding, about 1e-13 here), the rest exactly.
A second stream solves small models with SCS and checks the property directly with the tolerances the property
allows.  Independent oracle: every returned value is recomputed in Fractions from the operands under the latest
injected solution."""
import random

from . import solvelib as S

GEN_DEPS = ["Factor.v"]
TRUSTED = [
    "Model/Eval.v models Point/Expression/Constraint/PSDMatrix.eval and the leaf loops of "
    "_eval_points_and_function_values by hand (tied by the injected-solution stream)",
    "numpy.linalg.eigh and numpy.linalg.qr (pep.py, _eval_points_and_function_values): only their SPECIFICATIONS are "
    "assumed (eigh_spec: V^T V = I, G = V diag(lam) V^T; qr_spec: M = Q R, Q^T Q = I); from them "
    "C02_factor_reproduces_projection proves that the columns of points_values have the inner products of the PSD "
    "projection of G, for the plan regenerated from the source (translator/tr_factor.py -> Gen/Factor.v, "
    "C02_factor_plan_modelled); that numpy meets the specifications is measured on every solve of both streams "
    "(fake: against the exactly known projection, 1e-7; SCS: against an independent eigh, 1e-6)",
    "translator/tr_factor.py (grammar in its docstring, fail-closed)",
    "harness/solvelib.py: FakeSolveWrapper (also answers the re-solves of the dimension-reduction heuristics), program "
    "generator, Fraction oracle",
    "C02_primal_le_dual is C01's weak-duality theorem; here it is only measured on the SCS stream",
]
ASSUMES = [
    "solver optimality for C02_objective_is_min (explicit hypothesis: optimal among points differing in tau only)",
    "numpy.linalg.eigh / qr meet eigh_spec / qr_spec up to rounding (then P^T P = G+ is C02_factor_reproduces_projection)",
]
OWN = {"empty-combination-dimension"}


def _seeds(tier, seed, n):
    base = seed * 1000003 + 20000
    return [base + i for i in range(n)]


def stream_real(tier, seed):
    n = 12 if tier == "quick" else 60
    nb = 4 if tier == "quick" else 8
    problems, stats, samples = [], {}, []
    for idx in range(n):
        m = idx + 6 * (seed % 1000)
        try:
            p, h = S.real_model(m)
            S.check_instance(p, h, m, problems, stats)
            if idx < 2:
                samples.append(dict(model=h["info"], objective=float(p.objective.eval())))
            if idx % 3 == 0 and not h.get("solve_kw"):
                # the metric list REPLACED by a list of the same length, then a re-solve: the objective of the new
                # instance is the smallest of the CURRENT metrics (seed C02-9: objective rows cached per metric count)
                first = float(p.objective.eval())
                new_metric = p.list_of_performance_metrics[0] / 2
                p.list_of_performance_metrics = [new_metric] + [mm + 1 for mm in p.list_of_performance_metrics[1:]]
                S._quiet_solve(p, return_primal_or_dual="dual")
                second, mets = float(p.objective.eval()), [float(mm.eval()) for mm in p.list_of_performance_metrics]
                sc = max(1.0, abs(first))
                stats["obj_gap_after_metric_replacement"] = max(stats.get("obj_gap_after_metric_replacement", 0),
                                                                abs(second - min(mets)) / sc)
                if abs(second - min(mets)) > 1e-5 * sc:
                    problems.append(dict(kind="objective-is-not-min-metric-after-metric-replacement", model=m,
                                         objective=second, metrics=mets, first_objective=first))
        except Exception as e:         # solving / evaluating a well-posed model must not raise
            problems.append(dict(kind="real-model-raised", model=m, error="%s: %s" % (type(e).__name__, str(e)[:200])))
    # models WITH an LMI (user LMI, own LMI of a function, class LMI of a linear operator / quadratic) solved WITH a
    # dimension-reduction heuristic: the value of the LMI, of its entries and of the points must describe ONE instance,
    # the one of the last solve (seed C02-11: PSDMatrix._value written from the first solve's matrix variable)
    hstats = {}
    done_h = 0
    for idx in range(n):
        m = idx + 6 * (seed % 1000)
        if ["gd", "gd2", "symlin", "quad", "partition", "lmi"][m % 6] not in ("gd2", "lmi", "symlin") or done_h >= (3 if tier == "quick" else 12):
            continue
        try:
            p, h = S.real_model(m)
            h = dict(h, solve_kw=dict(dimension_reduction_heuristic=["trace", "logdet1"][done_h % 2],
                                      tol_dimension_reduction=0.25), scale=0.1)
            S.check_instance(p, h, "lmi-heuristic-%d" % m, problems, hstats)
            done_h += 1
        except Exception as e:
            problems.append(dict(kind="real-model-raised", model="lmi-heuristic-%d" % m,
                                 error="%s: %s" % (type(e).__name__, str(e)[:200])))
    bstats = {}
    for k in range(nb):
        idx = 2 * k if tier == "quick" else k
        try:
            p, h = S.real_badscale(idx)
            S.check_instance(p, h, "badscale-%d" % idx, problems, bstats)
        except Exception as e:
            problems.append(dict(kind="real-model-raised", model="badscale-%d" % idx,
                                 error="%s: %s" % (type(e).__name__, str(e)[:200])))
    for pr in problems:
        pr["generator"] = "real"
    return dict(name="scs-instances", evaluations=n + nb + done_h, distinct_nontrivial=n + nb + done_h,
                rule="small gradient-type PEPs (6 families: plain, two metrics, symmetric linear operator, quadratic, "
                     "block partition, user LMI) solved with SCS (eps 1e-9), plus badly scaled subgradient models "
                     "(M = 0.02 / 0.03) solved with the trace / logdet dimension-reduction heuristics; Gram of the evaluated "
                     "leaf points vs the PSD projection of G_value (1e-6 scale), G_value = the matrix the solver returned at "
                     "its last call (exact), every sent constraint / LMI at the instance (1e-4 scale), objective = min metric "
                     "(1e-5 scale, without heuristic), primal <= dual + 1e-3 scale, objects built after the solve = "
                     "combination of operand values (1e-10), and -- regression of the repaired F-C02a -- a derived point "
                     "first evaluated after a new leaf point was created; distinct = distinct parameter tuples",
                n_mismatch=0, mismatches=[], problems=problems[:5], n_problems=len(problems),
                samples=samples,
                distribution=dict(max_relative_residuals={k: float("%.3g" % v) for k, v in stats.items()},
                                  badly_scaled_max_relative_residuals={k: float("%.3g" % v) for k, v in bstats.items()}))


def stream_regression():
    """the trigger of the repaired F-C02a (fix: e997f00) as permanent cases: a failure is a VIOLATION"""
    r = S.run_stream("c02-regression", "c02reg", [0, 1, 2], OWN)
    r["rule"] = ("regression of F-C02a (fixed by e997f00): solve; Point(); evaluate derived points never evaluated before "
                 "(built before / after the new leaf point), the empty combination and the leaf points; compared with "
                 "the model and with the Fraction oracle")
    return r


def correspondence(tier, seed, corpus=()):
    n = 400 if tier == "quick" else 5000
    seeds = [int(c["case_seed"]) for c in corpus if c.get("generator") == "c02"] + _seeds(tier, seed, n)
    return [stream_regression(), S.run_stream("c02-injected", "c02", seeds, OWN), stream_real(tier, seed)]


def search(tier, seed):
    n = 1500 if tier == "quick" else 15000
    found = S.direct_search("c02", [seed * 1000003 + 777000 + i for i in range(n)])
    if found:
        return found
    for gs in range(3):
        w = S.GENERATORS["c02reg"](gs)
        for pr in w.problems:
            if pr["kind"] not in S.KNOWN_KINDS:
                return dict(generator="c02reg", case_seed=gs, trace=w.trace, **pr)
    problems, stats = [], {}
    for m in list(range(12)) + ["badscale-%d" % k for k in range(8)]:
        try:
            p, h = S.real_badscale(int(m.split("-")[1])) if isinstance(m, str) else S.real_model(m)
            S.check_instance(p, h, m, problems, stats)
        except Exception as e:
            problems.append(dict(kind="real-model-raised", model=m, error="%s: %s" % (type(e).__name__, str(e)[:200])))
        if problems:
            return dict(generator="real", **problems[0])
    return None


def _finding_C02b():
    """solve (SCS); Point(); the empty combination x0 - x0, first evaluated now, has one coordinate more than x0"""
    from PEPit import Point
    p, h = S.real_model(0)
    S._quiet_solve(p)
    Point()
    z = h["x0"] - h["x0"]
    return len(z.decomposition_dict) == 0 and z.eval().shape != h["x0"].eval().shape


def known_findings(known):
    out = []
    for k in known:
        if k["id"] == "F-C02b":
            try:
                still = _finding_C02b()
            except Exception:          # anything else than the listed behaviour is not this finding
                still = False
            out.append((k["id"], still, k["what"]))
    return out


def is_known(payload, known):
    fid = S.KNOWN_KINDS.get(payload.get("kind"))
    if fid and fid.startswith("F-C02") and any(k["id"] == fid for k in known):
        return fid
    return None


def replay(payload):
    if payload.get("generator") == "real":
        problems, stats = [], {}
        m = payload["model"]
        if isinstance(m, str) and m.startswith("badscale-"):
            p, h = S.real_badscale(int(m.split("-")[1]))
        else:
            p, h = S.real_model(int(m))
        try:
            S.check_instance(p, h, m, problems, stats)
        except Exception:
            return True
        return bool(problems)
    if "case_seed" in payload:
        return S.replay_case(payload)
    return search("quick", int(payload.get("seed", 0))) is not None
