"""C01 — the returned bound is backed by a complete, checkable dual certificate.

Proofs: coq/Props/C01.v (layout of the dual vector incl. the entry multipliers of each LMI, identity under the solver
assumption of Spec/KKT.v for ALL LMIs, weak duality, regression theorem for the formula used before the repair of F-C01a).

Tie (H), stream `scripted-duals`: seeded random declared models (0-30 scalar constraints, 0-4 LMIs of size 1-4,
any interleaving that PEP._solve_with_wrapper can produce, LMIs symmetric as written and deliberately asymmetric, class LMIs of
SymmetricLinearOperator / SmoothStronglyConvexQuadraticFunction / SkewSymmetricLinearOperator, the very same Constraint /
PSDMatrix object registered several times)
are built through the real classes; the REAL send order, cvxpy emission, _recover_dual_values,
assign_dual_values, _eval_points_and_function_values and check_feasibility run with a scripted `solve` that
injects one synthetic dyadic dual per cvxpy constraint, tagged by its position (cvxpy's own save_dual_value), and a
rational PSD Gram matrix.  Compared exactly with Model/Cvxpy.v + Model/Cert.v: every row of the cvxpy problem
(kind, shape, value of lhs-rhs at a tagged point), every eval_dual(), PEP.residual, the pruned symmetrised
dictionary of check_feasibility (keys in order) and the returned constant.

Stream `scs-solves`: ~15 sampled bounded models are really solved with SCS; OUR OWN residual of the identity over
ALL keys, the signs and the eigenvalues are measured against 100 x (KKT residual of the solver's raw output + 1e-5).
This validates the solver assumption; it is not the proof."""
import json
import os
import random
from fractions import Fraction

import numpy as np

from . import terms as T
from . import certlib as L
from .common import run_cases, model_output, coq_nat, coq_q, coq_list, Q, jsonable, VERIF

GEN_DEPS = []
TRUSTED = [
    "Model/Cvxpy.v (emit, recover, assign) and Model/Cert.v (reconstruct) are hand-written models of cvxpy_wrapper.py "
    "108-229, wrapper.py 127-156 and pep.py 733-783, tied by the scripted-duals stream (exact comparison)",
    "numpy object-array semantics of np.dot / np.sum / elementwise * over Points and Expressions (order of the operator "
    "calls established by tracing, then pinned by the exact comparison of the final dictionary, keys in order)",
    "cvxpy: Variable(symmetric=True), >>, <=, ==, Problem.constraints order, Constraint.dual_value / save_dual_value",
    "object identity in the tracked list is modelled by `ids` (Model.Cvxpy.by_object: an object sent several times shows the "
    "values of its last occurrence); C01_identity is stated for models whose objects are each sent once (NoDup ids); for an "
    "object sent twice the identity additionally needs the solver to split the multiplier evenly between the two identical rows "
    "(not implied by stationarity; observed with SCS)",
    "PSD of multipliers is taken as 'finite sum of rank-one v v^T' (real vectors), PSD of primal matrices as "
    "'symmetric with non-negative quadratic form'; <S,A> >= 0 is proved for that pair (Proofs/PSDLemmas.v); the "
    "spectral theorem (quadratic-form PSD => rank-one sum) is not needed and not proved",
    "models with at least one leaf point (np.dot over an empty list of points returns the integer 0, outside the model)",
]
ASSUMES = [
    "solver assumption (Spec/KKT.v, `stationary`): the Lagrangian of the emitted problem, affine in (G symmetric, F, "
    "M_k symmetric), is constant, in cvxpy's sign convention (dual of `a <= b` multiplies (a-b), dual of `a == b` "
    "multiplies (a-b), dual of `X >> 0` is paired with X); measured on real SCS output by the scs-solves stream",
    "tolerance propagation is not mechanised: theorems are exact-arithmetic statements about rational duals",
]

IMPORTS = ["From PV Require Import Model.Sent Model.Cvxpy Model.Cert."]
RUN = "fun '(np, obj, tracked, ids, temp, G, F, M) => run_case np obj tracked ids temp G F M"
INPUT_TYPE = "(nat * edict * sent * list nat * list dval * list (list Q) * list Q * list (list (list Q)))"


# ------------------------------------------------------------------------------------------ one scripted case
def run_scripted(spec, heuristic=None, mode="dual", tol=0.25):
    """runs the real post-solve code on `spec` with scripted solves; returns a dict with the implementation's dump,
    the Coq input of the same case, and bookkeeping"""
    from PEPit import Point, Expression
    pep, P, X = L.build_pep(spec)
    W = L.make_wrapper_class()

    solves = [0]      # number of solve calls so far on this PEP object, all wrappers together

    def script(w, k):
        # tags differ from one solve call to the next even at unchanged positions
        duals = L.synthetic_duals(w.prob, spec["dual_seed"], solves[0])
        solves[0] += 1
        cons = w.prob.constraints
        assert len(cons) == len(w._list_of_solver_constraints) and all(
            a is b for a, b in zip(cons, w._list_of_solver_constraints))
        for c, v in zip(cons, duals):
            c.save_dual_value(v)
        scale = 1.0 if k == 0 else 0.5
        pts = L.full_pts(spec, w.G.shape[0])
        w.optimal_G = scale * (pts.T @ pts)
        w.optimal_F = L.full_fvals(spec, w.F.shape[0]) + 0.25 * k      # every solve call reports its own values
        assert w.optimal_F.shape == w.F.shape
        return dict(wc_value=w.optimal_F[pep.objective.counter], duals=duals, constraints=cons,
                    objective=w.prob.objective)

    if spec.get("resolve"):
        # the model is solved a first time; what is compared is the SECOND solve of the same PEP object (fresh wrapper)
        w1 = W(script, verbose=0)
        pep.wrapper_name, pep.wrapper = "cvxpy", w1
        L.quiet(pep._solve_with_wrapper, w1, verbose=0, return_primal_or_dual=mode)
        for o in w1._list_of_constraints_sent_to_solver:
            o.eval_dual()                       # a user looks at the multipliers of the first solve
        L.apply_modifications(pep, P, X, spec.get("modify", []))
    wrapper = W(script, verbose=0)
    pep.wrapper_name = "cvxpy"
    pep.wrapper = wrapper
    with L.DictRecorder() as rec:
        ret, _ = L.quiet(pep._solve_with_wrapper, wrapper, verbose=0, return_primal_or_dual=mode,
                         dimension_reduction_heuristic=heuristic, tol_dimension_reduction=tol)
    pid = T.IdMap(Point.list_of_leaf_points)
    xid = T.IdMap(Expression.list_of_leaf_expressions)
    first = wrapper.calls[0]
    G, F, Ms = L.tagged_point(spec, wrapper)
    rows = L.dump_rows(first["constraints"], wrapper, G, F, Ms)
    tracked = wrapper._list_of_constraints_sent_to_solver
    items = L.sent_items(wrapper, pid, xid)
    # the two lists kept by the PEP are the sub-sequences of the wrapper's tracked list (same objects)
    from PEPit.constraint import Constraint
    sc = [o for o in tracked if isinstance(o, Constraint)]
    ps = [o for o in tracked if not isinstance(o, Constraint)]
    same_lists = (len(sc) == len(pep._list_of_constraints_sent_to_wrapper)
                  and all(a is b for a, b in zip(sc, pep._list_of_constraints_sent_to_wrapper))
                  and len(ps) == len(pep._list_of_psd_sent_to_wrapper)
                  and all(a is b for a, b in zip(ps, pep._list_of_psd_sent_to_wrapper)))
    impl = [rows,
            [L.dump_exposed(o) for o in tracked],
            L.dump_dval(pep.residual),
            T.dump_edict(rec.last, pid, xid),
            Q(float(ret))]
    obj = T.dump_edict(pep.objective.decomposition_dict, pid, xid)
    ids = L.object_ids(wrapper)
    coq_in = "(%s, %s, %s, %s, %s, %s, %s, %s)" % (
        coq_nat(Point.counter), L.coq_edict_from_dump(obj), L.coq_sent(items), coq_list([coq_nat(k) for k in ids]),
        coq_list([L.coq_dval(v) for v in first["duals"]]),
        L.coq_qmat(G), coq_list([coq_q(float(x)) for x in F]), coq_list([L.coq_qmat(M) for M in Ms]))
    return dict(impl=impl, coq=coq_in, items=items, same_lists=same_lists, n_duplicates=len(ids) - len(set(ids)), wrapper=wrapper, pep=pep,
                n_rows=len(rows), ret=float(ret), wc=float(first["wc_value"]))


def fixed_specs():
    """always-run cases: the same Constraint object twice in the PEP / in the PEP and in a function / in two functions, the
    same PSDMatrix object twice, an asymmetric LMI next to them, class LMIs that are not symmetric as written"""
    e1 = [["G", 0, 0, 8], ["C", -8]]
    e2 = [["F", 0, 8], ["G", 0, 1, -4]]
    asym = dict(kind="asym", rows=[[[["G", 0, 0, 8]], [["F", 0, 8]]], [[["F", 1, 8], ["C", 8]], ["num", 8]]])
    base = dict(np=2, nf=2, metrics=[[["F", 0, 8]]], pts=[[1, -1], [2, 1]], fvals=[3, -2, 5], dual_seed=12345, classes=[])
    out = []
    for dups, funcs in (([["cons", 0, 0, 0]], []), ([["cons", 0, 0, 1]], [dict(cons=[], psd=[])]),
                        ([["cons", 1, 0, 2], ["cons", 0, 1, 0]], [dict(cons=[dict(e=e2, how="eq")], psd=[]), dict(cons=[], psd=[])]),
                        ([["psd", 0]], []), ([["psd", 0], ["cons", 0, 0, 0]], [])):
        out.append(dict(base, pep=dict(cons=[dict(e=e1, how="le"), dict(e=e2, how="ge")], psd=[asym]), funcs=funcs, dups=dups))
    for cls in ("SymmetricLinearOperator", "SmoothStronglyConvexQuadraticFunction", "SkewSymmetricLinearOperator"):
        out.append(dict(base, pep=dict(cons=[dict(e=e1, how="le")], psd=[]), funcs=[], dups=[],
                        classes=[dict(cls=cls, L=2.0, mu=0.5, pts=[0, 1])]))
    return out


def shape_of(items):
    return "".join("s" if it[0] == "SC" else "L%d" % len(it[1]) for it in items)


def correspondence_scripted(tier, seed, corpus):
    rng = random.Random(seed * 104729 + 101)
    n = 260 if tier == "quick" else 2500
    specs = [c["spec"] for c in (corpus or []) if "spec" in c] + fixed_specs()
    while len(specs) < n:
        specs.append(L.gen_spec(rng))
    cases, meta, problems = [], [], []
    hist = dict(scalars={}, lmis={}, lmi_sizes={}, heuristic={}, class_lmi={}, interleavings=0, asymmetric_models=0)
    distinct = set()
    for idx, spec in enumerate(specs):
        # every dimension-reduction configuration must expose the certificate of the FIRST solve
        heur = spec.get("heuristic", {3: "trace", 4: "logdet2"}.get(idx % 5))
        spec = dict(spec, heuristic=heur, resolve=spec.get("resolve", idx % 6 == 5 or idx % 6 == 2))
        if spec["resolve"] and "modify" not in spec:
            # half of the second solves are of a MODIFIED model (a metric / constraint / LMI / sample added in between)
            spec["modify"] = L.gen_modifications(random.Random(spec["dual_seed"] + idx), spec) if idx % 6 == 2 else []
        try:
            r = run_scripted(spec, heuristic=heur)
        except Exception as e:      # the real post-solve code must run on every declared model
            problems.append(dict(kind="implementation-raised", spec=spec, error=repr(e)[:400]))
            continue
        if not r["same_lists"]:
            problems.append(dict(kind="pep-lists-differ-from-wrapper-list", spec=spec))
        cases.append((r["coq"], r["impl"]))
        meta.append(spec)
        hist["heuristic"][str(heur)] = hist["heuristic"].get(str(heur), 0) + 1
        items = r["items"]
        nsc = sum(1 for it in items if it[0] == "SC")
        nl = len(items) - nsc
        hist["scalars"][nsc] = hist["scalars"].get(nsc, 0) + 1
        hist["lmis"][nl] = hist["lmis"].get(nl, 0) + 1
        for it in items:
            if it[0] == "LMI":
                hist["lmi_sizes"][len(it[1])] = hist["lmi_sizes"].get(len(it[1]), 0) + 1
        if spec["resolve"]:
            key = "second_solve_of_a_modified_model" if spec.get("modify") else "second_solve_of_the_same_model"
            hist[key] = hist.get(key, 0) + 1
        if r["n_duplicates"]:
            hist["models_with_an_object_sent_twice"] = hist.get("models_with_an_object_sent_twice", 0) + 1
        if spec.get("classes"):
            k = spec["classes"][0]["cls"]
            hist["class_lmi"][k] = hist["class_lmi"].get(k, 0) + 1
        sh = shape_of(items)
        if "Ls" in sh.replace("L1", "L").replace("L2", "L").replace("L3", "L").replace("L4", "L"):
            hist["interleavings"] += 1
        if any(it[0] == "LMI" and not L.lmi_symmetric(it) for it in items):
            hist["asymmetric_models"] += 1
        if nl >= 1 and nsc >= 1:
            distinct.add(sh + "/%d" % spec["np"])
    bad = run_cases("c01", IMPORTS, RUN, cases, shard=40, input_type=INPUT_TYPE)
    mism = []
    for i in bad[:3]:
        mism.append(dict(kind="model-differs", spec=meta[i], implementation=cases[i][1],
                         model=model_output(IMPORTS, RUN, cases[i][0])[:3000]))
    for i in bad[:1]:
        problems.append(dict(kind="scripted-case-differs-from-model", spec=meta[i]))
    return dict(name="scripted-duals", evaluations=len(cases), distinct_nontrivial=len(distinct),
                rule="seeded random declared models through the real send order / cvxpy emission / dual recovery / proof "
                     "reconstruction with position-tagged synthetic duals; non-trivial = at least one scalar constraint "
                     "and one LMI; distinct by the sequence of item kinds and LMI sizes plus the number of leaf points",
                mismatches=mism, n_mismatch=len(bad), problems=problems[:5], n_problems=len(problems),
                samples=[dict(spec=meta[i], exposed=jsonable(cases[i][1][1:])) for i in range(min(1, len(cases)))],
                distribution=hist)


def correspondence(tier, seed, corpus=()):
    return [correspondence_scripted(tier, seed, corpus)]


# ------------------------------------------------------------------------------------------ really solved models
IDENTITY_KINDS = ("identity-residual-exceeds-tolerance", "returned-value-is-not-the-constant-of-the-identity",
                  "dual-value-below-primal-value")


def check_solved(spec):
    """solve `spec` with SCS; returns (measurements, [violations])"""
    pep, val = L.solve_real(spec)
    m = L.measure_certificate(pep, val)
    tol = 100.0 * (m["kkt_residual"] + 1e-5)
    m["solver_status"] = pep.solver_statuses
    bad = []
    if not pep.all_optimal:      # the solver did not converge: nothing is claimed about its output
        m["tolerance"] = tol
        return m, bad
    if m["identity_residual"] > tol:
        bad.append("identity-residual-exceeds-tolerance")
    if abs(m["tau_ours"] - m["returned"]) > tol:
        bad.append("returned-value-is-not-the-constant-of-the-identity")
    if m["returned"] < m["primal"] - tol:
        bad.append("dual-value-below-primal-value")
    if m["min_inequality_dual"] < -tol:
        bad.append("negative-multiplier-on-an-inequality")
    if m["min_eigenvalue"] < -tol:
        bad.append("multiplier-matrix-not-psd")
    if m["dual_matrix_vs_sym_entries"] > tol:
        bad.append("dual-matrix-is-not-the-symmetric-part-of-the-entry-multipliers")
    m["tolerance"] = tol
    return m, bad


def check_solved_with_heuristic(spec, heuristic):
    """the same model really solved WITH a dimension-reduction heuristic (the real CvxpyWrapper.solve runs several times):
    what the objects and PEP.residual expose afterwards must still be the certificate of the ORIGINAL problem -- our own
    residual of the identity over all keys stays at solver accuracy and the returned value is its constant (seed C01-11:
    the residual overwritten by the Gram multiplier of the heuristic problem).  The raw duals of wrapper.prob belong to
    the heuristic problem then, so no stationarity residual is available: fixed tolerance 1e-3 x scale."""
    pep, val = L.solve_real(spec, heuristic=heuristic)
    m = L.measure_certificate(pep, val)
    scale = 1.0 + abs(m["returned"])
    bad = []
    if pep.all_optimal:
        if m["identity_residual"] > 1e-3 * scale:
            bad.append("identity-residual-exceeds-tolerance-after-heuristic")
        if abs(m["tau_ours"] - m["returned"]) > 1e-3 * scale:
            bad.append("returned-value-is-not-the-constant-of-the-identity-after-heuristic")
        if m["min_eigenvalue"] < -1e-3 * scale:
            bad.append("multiplier-matrix-not-psd-after-heuristic")
    m["heuristic"] = heuristic
    return m, bad


def correspondence_scs(tier, seed):
    rng = random.Random(seed * 7717 + 3)
    n = 15 if tier == "quick" else 120
    specs = [L.ASYM_TRIGGER, L.SYMLIN_TIGHT, L.QUAD_GD] + L.solvable_specs(rng, n - 3)
    problems, samples, kkt = [], [], []
    hist = dict(lmi={}, family={}, steps={}, asymmetric=0)
    nontrivial = 0
    nh = 4 if tier == "quick" else 24
    worst_h = 0.0
    for k, spec in enumerate(specs[3:3 + nh]):
        h = ["trace", "logdet1"][k % 2]
        try:
            mh, badh = check_solved_with_heuristic(spec, h)
        except Exception as e:
            problems.append(dict(kind="solve-raised", solved_spec=spec, heuristic=h, error=repr(e)[:300]))
            continue
        worst_h = max(worst_h, mh["identity_residual"])
        for kind in badh:
            problems.append(dict(kind=kind, solved_spec=spec, heuristic=h, measured=mh))
    hist["solved_with_heuristic"] = nh
    hist["max_identity_residual_after_heuristic"] = float("%.3g" % worst_h)
    for spec in specs:
        try:
            m, bad = check_solved(spec)
        except Exception as e:
            problems.append(dict(kind="solve-raised", solved_spec=spec, error=repr(e)[:300]))
            continue
        kkt.append(m["kkt_residual"])
        if m["solver_status"] != ["optimal"]:
            hist["solver_not_converged"] = hist.get("solver_not_converged", 0) + 1
        hist["lmi"][spec["lmi"]] = hist["lmi"].get(spec["lmi"], 0) + 1
        hist["family"][spec["family"]] = hist["family"].get(spec["family"], 0) + 1
        hist["steps"][spec["n"]] = hist["steps"].get(spec["n"], 0) + 1
        hist["asymmetric"] += int(m["asymmetric_lmi"])
        if m["n_constraints"] >= 5:
            nontrivial += 1
        if len(samples) < 2:
            samples.append(dict(solved_spec=spec, measured=m))
        for kind in bad:
            problems.append(dict(kind=kind, solved_spec=spec, measured=m))
    return dict(name="scs-solves", evaluations=len(specs), distinct_nontrivial=nontrivial,
                rule="seeded gradient-method models (1-3 steps, several L/mu/step sizes, metrics, user LMIs 2x2 / 3x3 "
                     "symmetric and asymmetric, function-level LMI, equality) really solved with SCS; our own residual of "
                     "the identity over all keys, signs and eigenvalues against 100 x (stationarity residual of the raw "
                     "solver output + 1e-5); non-trivial = at least 5 sent constraints",
                mismatches=[], n_mismatch=0, problems=problems[:6], n_problems=len(problems), samples=samples,
                distribution=dict(hist, max_kkt_residual_of_solver=max(kkt) if kkt else None))


def correspondence(tier, seed, corpus=()):
    return [correspondence_scripted(tier, seed, corpus), correspondence_scs(tier, seed)]


# ------------------------------------------------------------------------------------------ module API
def search(tier, seed):
    """failing-input search on the IMPLEMENTATION: scripted cases compared with the model, then real solves"""
    rng = random.Random(seed + 10101)
    batch = []
    for _ in range(60 if tier == "quick" else 600):
        batch.append(L.gen_spec(rng))
    cases = []
    for idx, spec in enumerate(batch):
        spec = dict(spec, heuristic={3: "trace", 4: "logdet2"}.get(idx % 5), resolve=(idx % 6 in (2, 5)))
        if spec["resolve"]:
            spec["modify"] = L.gen_modifications(random.Random(spec["dual_seed"] + idx), spec) if idx % 6 == 2 else []
        try:
            r = run_scripted(spec, heuristic=spec["heuristic"])
        except Exception as e:
            return dict(kind="implementation-raised", spec=spec, error=repr(e)[:300])
        cases.append((r["coq"], r["impl"], spec))
    bad = run_cases("c01s", IMPORTS, RUN, [(a, b) for a, b, _ in cases], shard=40, input_type=INPUT_TYPE)
    if bad:
        return dict(kind="scripted-case-differs-from-model", spec=cases[bad[0]][2])
    for spec in L.solvable_specs(rng, 10 if tier == "quick" else 80, asym_every=0):
        try:
            m, kinds = check_solved(spec)
        except Exception as e:
            return dict(kind="solve-raised", solved_spec=spec, error=repr(e)[:300])
        if kinds:
            return dict(kind=kinds[0], solved_spec=spec, measured=m)
    return None


def is_known(payload, known):
    """no open finding is listed for C01 (F-C01a was repaired in PEPit, commit bd99691)"""
    return None


def known_findings(known):
    return []


def replay(payload):
    """True iff the stored case still fails on the current implementation"""
    if "spec" in payload:
        spec = payload["spec"]
        try:
            r = run_scripted(spec, heuristic=spec.get("heuristic"))
        except Exception:
            return True
        if not r["same_lists"]:
            return True
        return bool(run_cases("c01r", IMPORTS, RUN, [(r["coq"], r["impl"])], input_type=INPUT_TYPE))
    if "solved_spec" in payload:
        try:
            m, kinds = check_solved(payload["solved_spec"])
        except Exception:
            return True
        return bool(kinds)
    return False
