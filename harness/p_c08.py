"""C08 — primitive steps encode exactly their defining optimality conditions.

Tie: (T) translator/tr_steps.py regenerates Gen/Steps.v (one straight-line program per step and option) from
PEPit/primitive_steps/*.py; the theorems of Props/C08.v are about those generated programs.  (H) random calls of
the REAL step functions (leaf / combination start points, leaf functions with a recorded history, every option
including the default and an invalid one) are compared, exactly, with Model/StepsRT.v's interpreter run on the
generated programs: returned dictionaries, argument objects after the call (in-place pruning), counters, every
function's list_of_points and list_of_constraints.  (H, composite) the same real step functions called on COMPOSITE
functions (sums / scaled / nested sums of 2-3 leaf functions of mixed classes, terms evaluated before or not, one
or two calls in a row, start points leaf / combination / returned by the previous call) are compared, exactly, with
Model/StepsFunc.v -- the same generated programs interpreted over C07's function table (Model/Func.v): returned
dictionaries, argument objects, counters, and for the composite AND every term weights, list_of_points,
list_of_stationary_points, list_of_constraints (stream "step-calls-composite"; theorems C08_composite_* and
C08_leaf_agreement_* of Props/C08.v, C07_*step_program* of Props/C07.v).

Search: members with computable steps in exact Fractions (harness/stepslib.py): the real step is run through
PEPit, the fresh leaves are valued by the real outputs, every recorded sample must be genuine ((sub)gradient
inequality on a grid of rational points, function value) and every recorded side constraint true."""
import random
from fractions import Fraction

from . import stepslib as S
from . import terms as T
from .common import run_cases, model_output, to_fraction

GEN_DEPS = ["Steps.v", "tr_steps"]
TRUSTED = [
    "translator/tr_steps.py (grammar in its docstring = DESIGN.md A.3), reusing pep2coq.Tr for Point/Expression terms",
    "Model/StepsRT.v: interpreter of the step language and hand-written model of Function.oracle / value / add_point / "
    "add_constraint for LEAF functions; tied by the step-calls stream",
    "Model/StepsFunc.v: interpreter of the same step language over Model/Func.v (C07's hand-written model of oracle / "
    "value / add_point on leaf AND composite functions; list_of_constraints kept beside it as a log); agrees with "
    "Model/StepsRT.v on leaves by theorem (C08_leaf_agreement_*); tied by the step-calls-composite stream",
    "Spec/StepsSpec.v: hand-written mathematical meaning of each step (from the docstrings) and of a real execution "
    "(prox = minimiser, linear optimisation = argmin over dom, line search = minimiser over x0 + span, Gateaux "
    "differentiability); functions and their domains are assumed to respect veq (equality as seen by inner products)",
    "list_of_stationary_points is not modelled (it is the sub-list of samples with empty gradient; checked on the "
    "implementation by the stream); constraint / point names are opaque",
]
ASSUMES = [
    "epsilon-subgradient and inexact proximal steps: 'a real execution satisfies what was recorded' is proved under "
    "attainment of the Fenchel conjugate (the recorded point y / w with g in the subdifferential exists); the "
    "converse direction (recorded => real) is proved without it",
]

IMPORTS = ["From PV Require Import Model.StepsRT Gen.Steps."]
RUN = "run_case"
INPUT_TYPE = "scase"
IMPORTS_C = ["From PV Require Import Model.StepsRT Model.StepsFunc Gen.Steps."]
RUN_C = "run_fcase"
INPUT_TYPE_C = "fcase"


def _key(case):
    return repr(case)


def correspondence(tier, seed, corpus=()):
    return [correspondence_leaf(tier, seed, corpus), correspondence_composite(tier, seed)]


def correspondence_composite(tier, seed):
    """the real steps on COMPOSITE functions vs. Model/StepsFunc.v (the generated programs over C07's function table)"""
    rng = random.Random(seed * 15485863 + 808)
    n = 420 if tier == "quick" else 4000
    descs = []
    for name in S.STEP_NAMES:
        kinds, lits = S.STEPS[name]
        for o in (lits + ["#default", "bogus"]) if lits else ["#none"]:
            for _ in range(5):
                descs.append(S.gen_comp_case(rng, step=name, opt=o))
    while len(descs) < n:
        descs.append(S.gen_comp_case(rng))
    cases, kept, problems = [], [], []
    hist, paths, shapes, recs, cls = {}, {}, {}, {}, {}
    dropped = 0
    distinct = set()

    def bump(h, k):
        h[k] = h.get(k, 0) + 1
    for d in descs:
        try:
            outs = S.run_impl_comp(d)
        except Exception as e:
            problems.append(dict(kind="implementation-raised", ccase=d, error=repr(e)))
            continue
        dropped += len(d["calls"]) - len(outs)
        for k, (lit, dump, info) in enumerate(outs):
            cases.append((lit, dump))
            kept.append((d, k, dump))
            bump(hist, "%s/%s" % (info["step"], info["opt"] or "-"))
            bump(paths, info["result_kind"] + ("/" + info["error"] if info["error"] else ""))
            comp = any(info["composite_args"])
            bump(shapes, ("composite" if comp else "leaf") +
                 ("/%s-terms" % "+".join(map(str, info["nterms"])) if comp else "") +
                 ("/terms-evaluated-before" if info["terms_before"] else "") +
                 ("/second-call" if info["second"] else "") + ("/start-from-returned-point" if info["from_return"] else ""))
            bump(recs, "%s:+%d-on-composites+%d-on-leaves" % (info["step"], info["new_on_comps"], info["new_on_terms"]))
            bump(cls, "+".join(info["classes"]))
            if info["result_kind"] == "ok" and comp:
                distinct.add(_key((d, k)))
    bad = run_cases("c08c", IMPORTS_C, RUN_C, cases, input_type=INPUT_TYPE_C)
    mism = []
    for i in bad[:4]:
        d, k, dump = kept[i]
        mism.append(dict(kind="model-differs", ccase=d, call=k, implementation=dump,
                         model=model_output(IMPORTS_C, RUN_C, cases[i][0])))
    return dict(name="step-calls-composite", evaluations=len(cases), distinct_nontrivial=len(distinct),
                rule="seeded worlds of 2-3 leaf functions of 7 class configurations (differentiable and not) and 1-2 "
                     "composites built with the real operators (w1*f1 + w2*f2 (+ w3*f3), a scaled single term, nested sums; "
                     "weights 1, 2, 1/2, -1, 4, 1/4, 3, 3/2, 2^-20, 2^12, never cancelling), 0-3 prior oracle / value / add_point / "
                     "stationary_point / add_constraint calls on terms or composites (terms evaluated before the sum or "
                     "not), then 1-2 calls of the 8 real step functions (every option, the default, an invalid one) on a "
                     "composite (75 %) or a leaf, start points leaf / combination / already evaluated / zero-padded / a point "
                     "returned by the first call; compared exactly with Model/StepsFunc.v run on the generated programs: "
                     "returned dictionaries, argument objects after the call, counters, and for EVERY function (composite and "
                     "each term) is_leaf, reuse_gradient, weights, list_of_points, list_of_stationary_points, "
                     "list_of_constraints; every float operation monitored for exactness; non-trivial = normal return "
                     "with a composite function argument; distinct by full input",
                mismatches=mism, n_mismatch=len(bad), problems=problems[:5], n_problems=len(problems),
                samples=[dict(case=kept[i][0], call=kept[i][1], result=kept[i][2]) for i in range(min(2, len(kept)))],
                distribution=dict(step_option=hist, outcomes=paths, function_argument=shapes,
                                  samples_recorded=recs, classes_of_the_terms=cls,
                                  dropped_because_a_float_operation_rounded=dropped))


def correspondence_leaf(tier, seed, corpus=()):
    rng = random.Random(seed * 104729 + 8)
    n = 600 if tier == "quick" else 6000
    descs = [c for c in (corpus or [])]
    # every step x option at least a few times, then free draws
    for name in S.STEP_NAMES:
        kinds, lits = S.STEPS[name]
        for o in (lits + ["#default", "bogus"]) if lits else ["#none"]:
            for _ in range(6):
                descs.append(S.gen_case(rng, step=name, opt=o))
    while len(descs) < n + n // 8:       # a few more than n: cases in which a float operation rounds are dropped
        descs.append(S.gen_case(rng))
    cases, kept, problems = [], [], []
    hist, paths, fresh, mags = {}, {}, {}, {}
    dropped = 0
    distinct = set()
    for d in descs:
        try:
            lit, dump, info = S.run_impl(d)
        except Exception as e:
            problems.append(dict(kind="implementation-raised", case=d, error=repr(e)))
            continue
        if not info["exact"]:
            dropped += 1          # some float operation rounded: not comparable with the exact model
            continue
        if not info["stat_ok"]:
            problems.append(dict(kind="stationary-list-not-derived-from-samples", case=d))
        if not info["dirs_ok"]:
            problems.append(dict(kind="caller-list-of-directions-modified", case=d))
        for mg in info["magnitudes"]:
            mags["%s:%s" % (d["step"], mg)] = mags.get("%s:%s" % (d["step"], mg), 0) + 1
        cases.append((lit, dump))
        kept.append((d, dump))
        o = info["opt"] or "-"
        hist["%s/%s" % (d["step"], o)] = hist.get("%s/%s" % (d["step"], o), 0) + 1
        paths[info["result_kind"] + ("/" + info["error"] if info["error"] else "")] = \
            paths.get(info["result_kind"] + ("/" + info["error"] if info["error"] else ""), 0) + 1
        dk = "%s:+%dP+%dX" % (d["step"], dump[2] - info["pc"], dump[3] - info["xc"])
        fresh[dk] = fresh.get(dk, 0) + 1
        nontrivial = info["result_kind"] == "ok" and (
            any(len(a["pt"]["terms"]) > 1 for a in d["call"] if a["kind"] == "P") or any(f["hist"] for f in d["funs"]))
        if nontrivial:
            distinct.add(_key(d))
    bad = run_cases("c08", IMPORTS, RUN, cases, input_type=INPUT_TYPE)
    mism = []
    for i in bad[:4]:
        d, dump = kept[i]
        mism.append(dict(kind="model-differs", case=d, implementation=dump,
                         model=model_output(IMPORTS, RUN, cases[i][0])))
    return dict(name="step-calls", evaluations=len(cases), distinct_nontrivial=len(distinct),
                rule="seeded random calls of the 8 real step functions (every option, the default and an invalid one; "
                     "leaf / combination / already-evaluated / zero-padded start points; 1-3 leaf functions of 7 class "
                     "configurations with 0-3 prior samples or constraints; gamma / epsilon / coefficients: moderate dyadics "
                     "incl. 0 and negatives, tiny (2^-30 .. 2^-60, floats nearest to 1e-9, 1e-10, 2.5e-9, 5e-12 given to the "
                     "model as exact rationals) and huge (2^40); every float operation is monitored for exactness; "
                     "1-3 directions); non-trivial = normal return and (combination start point or non-empty history); "
                     "distinct by full input",
                mismatches=mism, n_mismatch=len(bad), problems=problems[:5], n_problems=len(problems),
                samples=[dict(case=kept[i][0], result=kept[i][1]) for i in range(min(2, len(kept)))],
                distribution=dict(step_option=hist, outcomes=paths, fresh_leaves_created=fresh,
                                  magnitudes_of_scalars_and_weights=mags, dropped_because_a_float_operation_rounded=dropped))


# ------------------------------------------------------------------ failing-input search (implementation only)
def trials(tier, seed):
    n = 40 if tier == "quick" else 400
    for k in range(n):
        for name in S.STEP_NAMES:
            kinds, lits = S.STEPS[name]
            for o in (lits + [None]) if lits else [None]:
                for comp in ((False, True) if name != "linear_optimization_step" else (False,)):
                    yield dict(step=name, opt=o, seed=seed * 1000003 + k, composite=comp)


def search(tier, seed):
    """real members with computable steps (exact Fractions): run the real step through PEPit, value the fresh
    leaves with the real outputs, check every recorded sample and constraint; first failure = replay"""
    for d in trials(tier, seed):
        try:
            bad = S.semantic_trial(d)
        except Exception as e:
            return dict(kind="implementation-raised", trial=d, error=repr(e))
        if bad:
            return dict(trial=d, **bad)
    return None


def replay(payload):
    """True iff the stored case still fails on the current implementation"""
    if "trial" in payload:
        try:
            return S.semantic_trial(payload["trial"]) is not None
        except Exception:
            return True
    if "ccase" in payload:
        try:
            outs = S.run_impl_comp(payload["ccase"])
        except Exception:
            return True
        return bool(run_cases("c08cr", IMPORTS_C, RUN_C, [(l, d) for l, d, _ in outs], input_type=INPUT_TYPE_C))
    if "case" in payload:
        try:
            lit, dump, info = S.run_impl(payload["case"])
        except Exception:
            return True
        if not info["stat_ok"] or not info["dirs_ok"]:
            return True
        return bool(run_cases("c08r", IMPORTS, RUN, [(lit, dump)], input_type=INPUT_TYPE))
    return False


def known_findings(known):
    """no open finding is listed for C08; a listed one would be replayed by its stored trial"""
    out = []
    for k in known:
        trig = k.get("trigger", {})
        still = replay(trig) if ("trial" in trig or "case" in trig) else False
        out.append((k["id"], still, k.get("what", "")))
    return out


def is_known(payload, known):
    for k in known:
        trig = k.get("trigger", {})
        if "trial" in trig and payload.get("trial") and \
                {a: trig["trial"].get(a) for a in ("step", "opt", "composite")} == \
                {a: payload["trial"].get(a) for a in ("step", "opt", "composite")} and \
                trig.get("kind") == payload.get("kind"):
            return k["id"]
    return None
