"""C07 helpers: drive the REAL PEPit Function objects with an op list, dump returned objects and the whole
bookkeeping state canonically, render ops as literals of Model/Func.v, and evaluate the invariant of C07
(I1..I6) on the dumped implementation state with exact Fractions.

Op (JSON-able nested lists / tuples):
  ["NewPoint"] ["NewExpr"] ["NewLeaf", reuse] (bare Function) | ["NewLeaf", declared, "ClassName"] (an instance of a
  shipped class built with reuse_gradient=declared) ["Combine", [[fid, q], ...]] ["Direct", [[leaf fid, q], ...], reuse]
  ["Oracle", fid, ptree] ["Gradient", fid, ptree] ["Value", fid, ptree] ["Stationary", fid] ["Fixed", fid]
  ["AddPoint", fid, xtree, gtree, [[eid, q], ...]]
ptree = a point tree of harness/terms.py over PVar k = the leaf point whose Point.counter is k; it is
built with the real Point operators right before the call.  fid = creation index in this harness."""
import itertools
import random
from fractions import Fraction

from . import terms as T
from .common import coq_q, coq_nat, coq_list, coq_str, to_fraction, Q


def detuple(x):
    if isinstance(x, (list, tuple)):
        return tuple(detuple(y) for y in x)
    return x


class _ByCounter(object):
    """key object (leaf Point / leaf Expression) -> its class counter = the model's leaf id"""
    def __getitem__(self, k):
        assert k.counter is not None
        return k.counter


BYC = _ByCounter()


def is_pow2(fr):
    fr = abs(Fraction(fr))
    if fr == 0:
        return False
    n, d = fr.numerator, fr.denominator
    return (n & (n - 1)) == 0 and (d & (d - 1)) == 0 and (n == 1 or d == 1)


# documented rule for reuse_gradient of the 24 shipped classes (twin of Model/Func.v forced_classes): these FORCE True,
# every other class forwards the declared value
FORCED_CLASSES = {"BlockSmoothConvexFunction", "SmoothConvexFunction", "SmoothConvexLipschitzFunction", "SmoothFunction",
                  "SmoothStronglyConvexFunction", "SmoothStronglyConvexQuadraticFunction", "CocoerciveOperator",
                  "CocoerciveStronglyMonotoneOperator", "LinearOperator", "LipschitzOperator",
                  "LipschitzStronglyMonotoneOperator", "NonexpansiveOperator", "SkewSymmetricLinearOperator",
                  "SymmetricLinearOperator"}
LEAF_CLASS_PARAMS = {"ConvexIndicatorFunction": {}, "ConvexFunction": {}, "SmoothStronglyConvexFunction": {"mu": 0.5, "L": 2},
                     "LipschitzOperator": {"L": 1}, "StronglyConvexFunction": {"mu": 1}, "MonotoneOperator": {}}


class Inexact(Exception):
    """an intermediate coefficient of the tree is not a float: IEEE arithmetic would round, the exact model would not"""


def ref_pdict(tree, exact=False):
    """(exact=True: raise Inexact unless every intermediate coefficient is exactly representable as a float, so that
    the implementation's float arithmetic and the model's rational arithmetic must agree bit for bit.)
    REFERENCE decomposition of a point tree: what the Point algebra of /repo is specified to return (the Python
    twin of Model/Func.v [pt] = Terms.compileP): + and - merge and prune, unary -, scalar * and / rescale every entry
    without pruning.  Ordered list of (leaf id, Fraction).  The oracle bookkeeping (and its model, whose points are
    these dictionaries) is entitled to assume that a Point object has exactly this decomposition."""
    tree = detuple(tree)
    h = tree[0]
    F = to_fraction

    def merge(a, b):
        out = [[k, v] for k, v in a]
        idx = {k: i for i, (k, _) in enumerate(out)}
        for k, v in b:
            if k in idx:
                out[idx[k]][1] += v
            else:
                idx[k] = len(out)
                out.append([k, v])
        return [(k, v) for k, v in out]

    def prune(a):
        return [(k, v) for k, v in a if v != 0]

    def scale(c, a):
        return [(k, v * c) for k, v in a]
    def ok(a):
        if exact:
            for _, v in a:
                try:
                    if Fraction(float(v)) != v:
                        raise Inexact(tree)
                except OverflowError:
                    raise Inexact(tree)
        return a
    R = lambda t: ref_pdict(t, exact)
    if h == "PZero":
        return []
    if h == "PVar":
        return [(tree[1], Fraction(1))]
    if h == "PAdd":
        return prune(ok(merge(R(tree[1]), R(tree[2]))))
    if h == "PSub":
        return prune(ok(merge(R(tree[1]), scale(Fraction(-1), R(tree[2])))))
    if h == "PNeg":
        return scale(Fraction(-1), R(tree[1]))
    if h == "PScalL":
        return ok(scale(F(tree[1]), R(tree[2])))
    if h == "PScalR":
        return ok(scale(F(tree[2]), R(tree[1])))
    if h == "PDiv":
        if exact and Fraction(1) / F(tree[2]) != F(1 / tree[2]):
            raise Inexact(tree)
        return ok(scale(F(1 / tree[2]), R(tree[1])))
    raise ValueError(h)


def coq_pterm(tree):
    tree = detuple(tree)
    if tree == ("PZero",):
        return "(PSub (PVar 0%nat) (PVar 0%nat))"          # the empty decomposition
    return T.coq_term(tree)


class World(object):
    """one PEP()-fresh universe of real PEPit objects.
    repair: a set of "prune-weights" (prune a composite's weights right after construction),
            "prune-queries" (prune a query point before the call), "skip-zero-function" (ignore stationary_point /
            fixed_point / add_point on a composite all of whose weights cancel) -- used to decide whether a violation
            is exactly one of the listed findings (the violation must disappear under the matching repair)."""

    def __init__(self, repair=None):
        from PEPit import PEP
        PEP()
        if repair is None:
            repair = ()
        elif isinstance(repair, str):
            repair = ("prune-weights", "prune-queries") if repair == "both" else (repair,)
        self.repair = frozenset(repair)
        self.funcs = []
        self.fmap = T.IdMap()
        self.point_problem = None

    # ---------------------------------------------------------------- object construction
    def leaf_points(self):
        from PEPit import Point
        return Point.list_of_leaf_points

    def leaf_exprs(self):
        from PEPit import Expression
        return Expression.list_of_leaf_expressions

    def n_points(self):
        from PEPit import Point
        return Point.counter

    def n_exprs(self):
        from PEPit import Expression
        return Expression.counter

    def build_point(self, tree):
        from PEPit import Point
        tree = detuple(tree)
        if tree == ("PZero",):
            return Point(is_leaf=False, decomposition_dict=dict())
        p = T.py_eval(tree, self.leaf_points(), [])
        if tree[0] == "PVar":
            # never hand the leaf object itself to add_point/oracle with a different role than the tree says:
            # the leaf IS the point, that is what the user writes (f.oracle(x0)); keep it.
            return p
        return p

    def build_expr(self, lin):
        from PEPit import Expression
        e = None
        for eid, q in lin:
            t = q * self.leaf_exprs()[eid]
            e = t if e is None else e + t
        if e is None:
            e = Expression(is_leaf=False, decomposition_dict=dict())
        return e

    def build_combo(self, terms):
        """q1*t1 + q2*t2 + ... with the real Function operators (all of + - unary- * / are used)"""
        F = None
        aliased = False
        for n, (fid, q) in enumerate(terms):
            f = self.funcs[fid]
            fr = to_fraction(q)
            if F is None:
                if fr == 1 and len(terms) >= 2 and abs(to_fraction(terms[1][1])) == 1:
                    # the user's accumulation idiom `F = f; F += g` / `F -= g`: the augmented assignment must build a
                    # NEW function and leave the registered f (possibly already evaluated, possibly a composite held
                    # elsewhere) as it was (seed C07-12: in-place __iadd__ / __isub__ on composites)
                    F = f
                    aliased = True
                    continue
                if fr == -1:
                    F = -f
                elif fr.numerator == 1 and fr.denominator > 1:
                    F = f / fr.denominator
                elif n % 2 == 0:
                    F = q * f
                else:
                    F = f * q
            else:
                if aliased and n == 1:
                    if fr == 1:
                        F += f
                    else:
                        F -= f
                elif fr == 1:
                    F = F + f
                elif fr == -1:
                    F = F - f
                elif fr.numerator == 1 and fr.denominator > 1:
                    F = F + f / fr.denominator
                elif fr < 0:
                    F = F - (-q) * f
                elif n % 2 == 0:
                    F = F + q * f
                else:
                    F = F + f * q
        return F

    # ---------------------------------------------------------------- dumps
    def dump_p(self, p):
        return T.dump_pdict(p.decomposition_dict, BYC)

    def dump_e(self, e):
        return T.dump_edict(e.decomposition_dict, BYC, BYC)

    def dump_sample(self, t):
        x, g, v = t
        return [self.dump_p(x), self.dump_p(g), self.dump_e(v)]

    def dump_weights(self, f):
        return [[self.fmap[k], Q(v)] for k, v in f.decomposition_dict.items()]

    def dump_state(self):
        return [self.n_points(), self.n_exprs(),
                [[bool(f.get_is_leaf()), bool(f.reuse_gradient), self.dump_weights(f),
                  [self.dump_sample(t) for t in f.list_of_points],
                  [self.dump_sample(t) for t in f.list_of_stationary_points]] for f in self.funcs]]

    # ---------------------------------------------------------------- ops
    def _register(self, f):
        self.fmap.add(f, len(self.funcs))
        self.funcs.append(f)

    def check_point(self, tree, p, f=None, role="query"):
        """what the bookkeeping (and its model) is entitled to assume of a Point that reaches oracle / gradient /
        value / add_point: its decomposition is the reference one of what was written (in particular it is pruned
        whenever the reference is: after any + or -), so that the lookup by the raw dictionary agrees with the
        lookup by the pruned one.  The first failure is kept in self.point_problem."""
        from PEPit import Point
        from PEPit.tools.dict_operations import prune_dict
        if self.point_problem is not None:
            return
        got = [(k, v.v) for k, v in self.dump_p(p)]
        want = ref_pdict(tree)
        if got != want:
            self.point_problem = dict(clause="P0", role=role, tree=tree, decomposition=got, reference=want,
                                      why="a Point handed to the oracle bookkeeping does not have the decomposition the "
                                          "Point algebra is specified to give it (not in pruned normal form)")
            return
        if f is not None and all(v != 0 for _, v in want):
            twin = Point(is_leaf=False, decomposition_dict=prune_dict(p.decomposition_dict))
            a, b = f._is_already_evaluated_on_point(p), f._is_already_evaluated_on_point(twin)
            if (a is None) != (b is None) or (a is not None and a[0] is not b[0]):
                self.point_problem = dict(clause="P1", role=role, tree=tree, decomposition=got,
                                          why="lookup by the raw dictionary and by the pruned dictionary disagree")

    def check_after(self, tree, p, role):
        """add_point prunes the objects of the recorded triple IN PLACE: after the call the object handed in has its
        reference decomposition, or exactly that decomposition without its ZERO entries -- a non-zero coefficient,
        however small, never disappears (the model prunes with Qeq_bool q 0)."""
        if self.point_problem is not None or self.repair:
            return
        got = [(k, v.v) for k, v in self.dump_p(p)]
        want = ref_pdict(tree)
        if got != want and got != [(k, v) for k, v in want if v != 0]:
            self.point_problem = dict(clause="P2", role=role, tree=tree, decomposition_after_call=got, reference=want,
                                      why="after the call the recorded object is neither its reference decomposition nor "
                                          "that decomposition with exactly the zero entries removed")

    def _query(self, tree, f=None):
        from PEPit.tools.dict_operations import prune_dict
        p = self.build_point(tree)
        if "prune-queries" in self.repair:
            if not p.get_is_leaf():
                p.decomposition_dict = prune_dict(p.decomposition_dict)
        else:
            self.check_point(tree, p, f)
        return p

    def scoped(self, op):
        """the side condition op_scoped of Model/Func.v that concerns the CALLER (not guaranteed by Python itself):
        an explicit constructor dictionary is over distinct leaf functions and is not declared differentiable with a
        non-differentiable term; add_point is called on a point not yet recorded for the function or its terms.
        (Shrinking drops ops and thereby shifts ids: a candidate that stops being well scoped is not a smaller
        instance of the same failure.)"""
        from PEPit import Point
        from PEPit.tools.dict_operations import prune_dict
        k = op[0]
        if k == "Direct":
            ks = [f for f, _ in op[1]]
            if len(set(ks)) != len(ks) or not all(0 <= f < len(self.funcs) and self.funcs[f].get_is_leaf() for f in ks):
                return False
            return (not op[2]) or all(self.funcs[f].reuse_gradient for f in ks)
        if k == "Combine":
            return len(op[1]) > 0 and all(0 <= f < len(self.funcs) for f, _ in op[1])
        if k == "AddPoint":
            f = self.funcs[op[1]]
            x = self.build_point(op[2])
            probe = Point(is_leaf=False, decomposition_dict=prune_dict(x.decomposition_dict))
            return all(g._is_already_evaluated_on_point(probe) is None for g in [f] + list(f.decomposition_dict))
        return True

    def apply(self, op):
        """run one op on the real objects.  Returns (coq literal of the op AS SEEN BY THE MODEL, dump of what the
        call returned)."""
        from PEPit import Point, Expression
        from PEPit.function import Function
        from PEPit.tools.dict_operations import prune_dict
        k = op[0]
        if k == "NewPoint":
            p = Point()
            return "NewPoint", [self.dump_p(p)]
        if k == "NewExpr":
            e = Expression()
            return "NewExpr", [self.dump_e(e)]
        if k == "NewLeaf" and len(op) > 2:
            from .classes import get_class
            cls = op[2]
            f = get_class(cls)(reuse_gradient=bool(op[1]), **LEAF_CLASS_PARAMS[cls])
            self._register(f)
            want = (cls in FORCED_CLASSES) or bool(op[1])
            if f.reuse_gradient != want and self.point_problem is None:
                self.point_problem = dict(clause="C0", cls=cls, declared=bool(op[1]), effective=bool(f.reuse_gradient),
                                          expected=want, why="effective reuse_gradient of a class instance is not "
                                          "(class forces True) or (declared value)")
            return "(NewLeaf (leaf_reuse %s %s))" % (coq_str(cls), "true" if op[1] else "false"), []
        if k == "NewLeaf":
            f = Function(is_leaf=True, reuse_gradient=bool(op[1]))
            self._register(f)
            return "(NewLeaf %s)" % ("true" if op[1] else "false"), []
        if k == "Combine":
            F = self.build_combo(op[1])
            if "prune-weights" in self.repair:
                # the composite as it would be if a bare zero scaling dropped its zero weights at construction
                F.decomposition_dict = prune_dict(F.decomposition_dict)
            self._register(F)
            return "(Combine %s)" % coq_list(["(%s, %s)" % (coq_nat(f), coq_q(q)) for f, q in op[1]]), []
        if k == "Direct":
            # the documented constructor call with an explicit dictionary over leaf functions
            F = Function(is_leaf=False, decomposition_dict={self.funcs[f]: q for f, q in op[1]},
                         reuse_gradient=bool(op[2]))
            if "prune-weights" in self.repair:
                F.decomposition_dict = prune_dict(F.decomposition_dict)
            self._register(F)
            return "(Direct %s %s)" % (coq_list(["(%s, %s)" % (coq_nat(f), coq_q(q)) for f, q in op[1]]),
                                       "true" if op[2] else "false"), []
        if k in ("Oracle", "Gradient", "Value"):
            f = self.funcs[op[1]]
            p = self._query(op[2], f)
            lit = "(%s %s %s)" % (k, coq_nat(op[1]), coq_pterm(op[2]))
            if k == "Oracle":
                g, v = f.oracle(p)
                self.check_after(op[2], p, "query")
                return lit, [self.dump_p(g), self.dump_e(v)]
            if k == "Gradient":
                g = f.gradient(p)
                self.check_after(op[2], p, "query")
                return lit, [self.dump_p(g)]
            v = f.value(p)
            self.check_after(op[2], p, "query")
            return lit, [self.dump_e(v)]
        if k in ("Stationary", "Fixed", "AddPoint") and "skip-zero-function" in self.repair \
                and not prune_dict(self.funcs[op[1]].decomposition_dict):
            return "(* skipped *)", []
        if k == "Stationary":
            fn = self.funcs[op[1]]
            # both spellings of the documented option: asking for the triple records nothing more than the stationary
            # sample (the samples of every function are dumped after the op) -- seed C07-11: output built by re-querying
            if len(fn.list_of_points) % 2 == 0:
                x = fn.stationary_point()
            else:
                x, g_, f_ = fn.stationary_point(return_gradient_and_function_value=True)
            return "(Stationary %s)" % coq_nat(op[1]), [self.dump_p(x)]
        if k == "Fixed":
            x, gx, fx = self.funcs[op[1]].fixed_point()
            return "(Fixed %s)" % coq_nat(op[1]), [self.dump_p(x), self.dump_p(gx), self.dump_e(fx)]
        if k == "AddPoint":
            f = self.funcs[op[1]]
            x = self.build_point(op[2])
            g = self.build_point(op[3])
            v = self.build_expr(op[4])
            self.check_point(op[2], x, None, "add_point x")
            self.check_point(op[3], g, None, "add_point g")
            lit = "(AddPoint %s %s %s %s)" % (coq_nat(op[1]), coq_pterm(op[2]), coq_pterm(op[3]),
                                               coq_edict(self.dump_e(v)))
            want_v = [(e, to_fraction(q)) for e, q in op[4] if q != 0] if len(set(e for e, _ in op[4])) == len(op[4]) else None
            f.add_point((x, g, v))
            self.check_after(op[2], x, "add_point x")
            self.check_after(op[3], g, "add_point g")
            if want_v is not None and not self.repair and self.point_problem is None:
                got_v = [(k[1], q.v) for k, q in self.dump_e(v)]
                if got_v != want_v:
                    self.point_problem = dict(clause="P2", role="add_point value", decomposition_after_call=got_v,
                                              reference=want_v, why="a non-zero coefficient of the recorded value vanished")
            return lit, []
        raise ValueError(op)


def coq_pdict(d):
    return coq_list(["(%s, %s)" % (coq_nat(k), coq_q(v.v)) for k, v in d])


def coq_ekey(k):
    if k[0] == 0:
        return "KF %s" % coq_nat(k[1])
    if k[0] == 1:
        return "KG %s %s" % (coq_nat(k[1]), coq_nat(k[2]))
    return "K1"


def coq_edict(d):
    return coq_list(["(%s, %s)" % (coq_ekey(k), coq_q(v.v)) for k, v in d])


class NotScoped(Exception):
    pass


def run_ops(ops, full=True, repair=None, check=None, strict=False):
    """run an op list on the real PEPit.  Returns (coq input literal, expected dump, states) where
    the dump has the shape of Func.trace: [[ [ret, state-or-[]] per op ], final state].
    check(world, i, op, state_dump) may return a violation dict; the first one stops the run and is returned as
    4th component."""
    w = World(repair=repair)
    lits, per_op = [], []
    viol = None
    for i, op in enumerate(ops):
        if strict and not w.scoped(op):
            raise NotScoped(op)
        lit, ret = w.apply(op)
        lits.append(lit)
        need_state = full or check is not None
        st = w.dump_state() if need_state else None
        per_op.append([ret, st if full else []])
        if check is not None:
            viol = check(w, i, op, st)
            if viol:
                viol = dict(viol, at_op=i)
                break
    final = w.dump_state()
    inp = "(%s, %s)" % ("true" if full else "false", coq_list(lits))
    return inp, [per_op, final], w, viol


# ------------------------------------------------------------------------------------------------------------
# the invariant of C07, evaluated on a dumped state (exact Fractions; semantic comparisons under random rational
# valuations of the leaves in Q^3)
class Valuations(object):
    """n random rational valuations of the leaves: points in Q^dim, expressions in Q (drawn lazily, deterministic)"""
    def __init__(self, rng, n=3, dim=3):
        self.rng = random.Random(rng.getrandbits(64))
        self.n, self.dim = n, dim
        self.pv = [dict() for _ in range(n)]
        self.xv = [dict() for _ in range(n)]

    def point(self, j, k):
        if k not in self.pv[j]:
            self.pv[j][k] = [Fraction(self.rng.randint(-6, 6), self.rng.choice([1, 2, 3])) for _ in range(self.dim)]
        return self.pv[j][k]

    def expr(self, j, k):
        if k not in self.xv[j]:
            self.xv[j][k] = Fraction(self.rng.randint(-9, 9), self.rng.choice([1, 2, 5]))
        return self.xv[j][k]

    def evalP(self, d):
        """tuple over valuations of vectors"""
        out = []
        for j in range(self.n):
            acc = [Fraction(0)] * self.dim
            for k, q in d:
                pv = self.point(j, k)
                acc = [a + q * b for a, b in zip(acc, pv)]
            out.append(tuple(acc))
        return tuple(out)

    def evalE(self, d):
        out = []
        for j in range(self.n):
            acc = Fraction(0)
            for k, q in d:
                if k[0] == 0:
                    acc += q * self.expr(j, k[1])
                elif k[0] == 1:
                    acc += q * T.dot(self.point(j, k[1]), self.point(j, k[2]))
                else:
                    acc += q
            out.append(acc)
        return tuple(out)


def pkey(d):
    """Python dict equality on point dictionaries = same key set, same values"""
    return frozenset(d)


def plain(o):
    """dump -> hashable plain data (Q markers become Fractions, lists become tuples)"""
    if isinstance(o, Q):
        return o.v
    if isinstance(o, (list, tuple)):
        return tuple(plain(x) for x in o)
    return o


def check_inv(state, val, world=None, max_combos=200000):
    """C07's invariant on a dumped state (preceded by the normal-form check of the Points that reached the
    bookkeeping, World.check_point).  Returns None or a dict naming the violated clause."""
    if world is not None and world.point_problem is not None:
        return dict(world.point_problem)
    npt, nex, funs = plain(state)
    for fi, (leaf, reuse, w, pts, stat) in enumerate(funs):
        groups = {}
        for si, (x, g, v) in enumerate(pts):
            # I5 (state part): recorded decompositions are in normal form, so that equal points have equal keys
            if any(q == 0 for _, q in x):
                return dict(clause="I5", function=fi, sample=si, why="recorded point keeps an explicit zero coefficient")
            groups.setdefault(pkey(x), []).append(si)
        for key, members in groups.items():
            v0 = val.evalE(pts[members[0]][2])
            g0 = val.evalP(pts[members[0]][1])
            for si in members[1:]:
                if val.evalE(pts[si][2]) != v0:
                    return dict(clause="I1", function=fi, samples=[members[0], si],
                                why="two values recorded for one point decomposition")
                if reuse and val.evalP(pts[si][1]) != g0:
                    return dict(clause="I2", function=fi, samples=[members[0], si],
                                why="differentiable function with two gradients at one point")
        for (x, g, v) in stat:
            if g != () or (x, g, v) not in pts:
                return dict(clause="I4", function=fi, why="stationary sample with a non-empty gradient / not in list_of_points")
        # list_of_stationary_points = exactly the samples whose gradient dictionary is empty (after EXACT pruning:
        # the dumps are exact rationals, a coefficient of 1e-9 or 2^-60 is not zero), in order
        if [t for t in pts if t[1] == ()] != list(stat):
            return dict(clause="I4", function=fi, why="list_of_stationary_points is not the sublist of samples with an empty gradient")
        if leaf:
            if tuple(w) != ((fi, 1),):
                return dict(clause="I0", function=fi, why="leaf weights are not {self: 1}")
            continue
        # composite
        for k, q in w:
            if not funs[k][0]:
                return dict(clause="I0", function=fi, why="composite weight over a non-leaf")
        # a sum declared differentiable must only have differentiable terms (the converse may fail: the flag is
        # and-ed over all operands, also cancelled ones, and a sum MAY be declared non-differentiable)
        if reuse and not all(funs[k][1] for k, _ in w):
            return dict(clause="I6", function=fi, why="sum declared differentiable with a non-differentiable term")
        for si, (x, g, v) in enumerate(pts):
            gF, vF = val.evalP(g), val.evalE(v)
            cands = []
            for k, q in w:
                c = [(val.evalP(gl), val.evalE(vl)) for (xl, gl, vl) in funs[k][3] if pkey(xl) == pkey(x)]
                # distinct meanings only
                c = list(dict.fromkeys(c))
                if not c:
                    return dict(clause="I3", function=fi, sample=si, term=k, why="term has no sample at this point")
                cands.append((q, c))
            n = 1
            for _, c in cands:
                n *= len(c)
            if n > max_combos:
                continue
            ok = False
            for choice in itertools.product(*[c for _, c in cands]):
                gs = tuple(tuple(sum(qw * ch[0][j][i] for (qw, _), ch in zip(cands, choice)) for i in range(val.dim))
                           for j in range(val.n))
                if gs != gF:
                    continue
                vs = tuple(sum(qw * ch[1][j] for (qw, _), ch in zip(cands, choice)) for j in range(val.n))
                if vs == vF:
                    ok = True
                    break
            if not ok:
                return dict(clause="I4" if (x, g, v) in stat else "I3", function=fi, sample=si,
                            why="composite sample is not the weighted sum of samples of its terms at that point")
    # I5 on the live objects: an equal decomposition (a copy) is found again, by every function
    if world is not None:
        from PEPit import Point
        for fi, f in enumerate(world.funcs):
            for (x, g, v) in f.list_of_points:
                twin = Point(is_leaf=False, decomposition_dict=dict(reversed(list(x.decomposition_dict.items()))))
                if f._is_already_evaluated_on_point(twin) is None:
                    return dict(clause="I5", function=fi, why="a point with an equal decomposition is not recognised")
    return None
