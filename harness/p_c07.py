"""C07 — oracle bookkeeping is coherent for leaf and composite functions.

Tie (H): op sequences (NewPoint/NewExpr/NewLeaf/Combine/Oracle/Gradient/Value/Stationary/Fixed/AddPoint) are run on
the REAL PEPit.function.Function objects (composites built with the real operators, query points with the real Point
operators) and on Model/Func.v; after EVERY op the dictionaries of the returned objects and the complete
list_of_points / list_of_stationary_points / weights / reuse flag of every function, and both leaf counters, are
compared exactly (order of dictionary entries included).
Two streams so that both sides of the guard of C07_inv_partial are exercised:
  guarded       : no composite is the zero function (cancelling weights such as f1 + f2 - f2 and zero-weight operands
                  such as 0*f1 + f2 ARE included: Function.__add__ prunes them since /repo 5162ea4), query points
                  without explicit zero coefficient; the invariant (funclib.check_inv) must hold on the implementation
                  after every op; contains the regression cases of the repaired F-C07a
  zero-weights  : zero functions (bare zero scaling 0*f, 0*(f+g); f - f), query points scaled by 0
                  (F-C07b / F-C07c / F-C07d live here);
                  EVERY invariant violation found there must disappear when the triggers of the listed findings are
                  repaired on the implementation (else it is reported), a few are shrunk and matched individually.
Search: random sequences on the implementation, invariant evaluated after every op, first failing prefix shrunk."""
import json
import os
import random
import time
from fractions import Fraction

from . import terms as T
from . import funclib as FL
from .common import run_cases, model_output, VERIF, to_fraction

GEN_DEPS = ["Classes.v"]      # Props/C07.v compares class_forced with the force_reuse_<Cls> read from the constructors
TRUSTED = [
    "Model/Func.v models PEPit/function.py (constructor, + - * / unary-, _is_already_evaluated_on_point, "
    "_separate_leaf_functions_regarding_their_need_on_point, add_point, oracle, gradient, value, stationary_point, "
    "fixed_point) by hand; tied to the code by the C07 op streams (exact dumps after every op)",
    "points are identified with their decomposition dictionaries (all that the lookup uses); aliasing of recorded "
    "Python objects is not modelled: the only in-place mutation of a recorded object is prune_dict, which is idempotent",
    "Python dict == on decomposition dictionaries is modelled by Dict.dict_eqb (same key set, equal values)",
    "inputs of the streams are dyadic with power-of-two weights so that float arithmetic (incl. 1/weight) is exact",
]
ASSUMES = []

IMPORTS = ["From PV Require Import Model.Func."]
RUN = "trace"
INPUT_TYPE = "(bool * list op)"

ALL_REPAIRS = ("prune-weights", "prune-queries", "skip-zero-function")
X0 = ("PVar", 0)
ZX0 = ("PScalL", 0, ("PVar", 0))
# badly scaled but exactly representable coefficients: a non-zero coefficient never vanishes, however small
TINY = [2.0 ** -30, 2.0 ** -45, 2.0 ** -60, 1e-9, -1e-9]
HUGE = 2.0 ** 40
TX1 = ("PSub", ("PVar", 0), ("PScalL", 1e-9, ("PVar", 1)))          # x0 - 1e-9 * x1 (a step with a tiny step size)
TX2 = ("PScalL", 2.0 ** -60, ("PVar", 1))                            # 2^-60 * x1
TX3 = ("PAdd", ("PScalR", ("PVar", 1), HUGE), ("PDiv", ("PVar", 0), 2.0 ** 30))   # 2^40 * x1 + x0 / 2^30
CX0a = ("PSub", ("PAdd", ("PVar", 0), ("PVar", 1)), ("PVar", 1))
CX0b = ("PSub", ("PVar", 1), ("PSub", ("PVar", 1), ("PVar", 0)))


# ---------------------------------------------------------------------------------------------- exhaustive universes
def universe(reuse0, reuse1, terms):
    return [("NewPoint",), ("NewLeaf", reuse0), ("NewLeaf", reuse1), ("Combine", terms)]


def alphabet(points, reduced=False, funcs=(0, 1, 2)):
    """every call on the three functions of the universe (the last one is the composite); reduced: fixed_point
    only on the composite (stationary_point and fixed_point differ only by the gradient handed to add_point)"""
    al = []
    for f in funcs:
        for p in points:
            al += [("Oracle", f, p), ("Gradient", f, p), ("Value", f, p)]
        al += [("Stationary", f)]
        if f == funcs[-1] or not reduced:
            al += [("Fixed", f)]
    return al


def sequences(al, maxlen):
    out = [()]
    frontier = [()]
    for _ in range(maxlen):
        frontier = [s + (a,) for s in frontier for a in al]
        out += frontier
    return out[1:]


def exhaustive_cases(tier):
    """(setup ops, body ops, stream) ; every body sequence up to the stated length"""
    cases = []
    g_len = 3 if tier == "quick" else 4
    for body in sequences(alphabet([X0]), g_len - 1) + \
            [b for b in sequences(alphabet([X0], reduced=True), g_len) if len(b) == g_len]:
        cases.append((universe(True, False, [(0, 1), (1, 2)]), body, "guarded"))
    for body in sequences(alphabet([X0]), 2):
        cases.append((universe(False, True, [(0, -1), (1, 0.5)]), body, "guarded"))
        cases.append((universe(False, False, [(0, 2), (1, 1)]), body, "guarded"))
        cases.append((universe(True, True, [(1, 1), (0, -4)]), body, "guarded"))
    # query points that RETURN to x0 through the Point algebra: (x0 + x1) - x1 and x1 - (x1 - x0)
    for body in sequences(alphabet([X0, CX0a]), 2) + sequences(alphabet([CX0a, CX0b], reduced=True), 2):
        cases.append((universe(True, False, [(0, 1), (1, 2)]) + [("NewPoint",)], body, "guarded"))
    # badly scaled query points and composite weights (2^-60 ... 2^40, 1e-9): nothing non-zero may ever vanish
    for body in sequences(alphabet([TX1, TX2], reduced=True), 2) + sequences(alphabet([X0, TX3], reduced=True), 2):
        cases.append((universe(True, False, [(0, 1), (1, 2)]) + [("NewPoint",)], body, "guarded"))
    for body in sequences(alphabet([X0]), 2):
        cases.append((universe(True, False, [(0, 2.0 ** -40), (1, HUGE)]), body, "guarded"))
        cases.append((universe(False, True, [(0, 2.0 ** -60), (1, -1)]), body, "guarded"))
    for ops in scale_cases():
        cases.append((ops, (), "guarded"))
    # leaves that are instances of shipped classes (declared flag forwarded or forced), alone and in sums
    for body in sequences(alphabet([X0]), 2):
        cases.append((class_universe("ConvexIndicatorFunction", True, "ConvexFunction", False, [(0, 1), (1, 1)]), body, "guarded"))
        cases.append((class_universe("SmoothStronglyConvexFunction", False, "ConvexIndicatorFunction", False, [(0, 1), (1, 2)]),
                      body, "guarded"))
        cases.append((class_universe("ConvexFunction", True, "LipschitzOperator", False, [(0, 0.5), (1, -1)]), body, "guarded"))
    # cancelling weights are pruned by Function.__add__ (repaired F-C07a): f0 + f1 - f1 is an ordinary composite
    c_len = 2 if tier == "quick" else 3
    for r0 in (True, False):
        for r1 in (True, False):
            for body in sequences(alphabet([X0]), c_len):
                cases.append((universe(r0, r1, [(0, 1), (1, 1), (1, -1)]), body, "guarded"))
    for body in sequences(alphabet([X0]), 2):
        cases.append((universe(True, False, [(0, 0), (1, 2)]), body, "guarded"))          # 0*f0 + 2*f1 = {f1: 2}
    # what is left of the zero weights: the zero function (bare zero scaling / everything cancelled), 0-scaled queries
    z_len = 2 if tier == "quick" else 3
    for body in sequences(alphabet([X0, ZX0]), z_len):
        cases.append((universe(True, True, [(0, 0)]), body, "zero"))                      # 0*f0 = {f0: 0}
        cases.append((universe(False, True, [(0, 0)]), body, "zero"))
        cases.append((universe(True, False, [(0, 1), (0, -1)]), body, "zero"))            # f0 - f0 = {}
    for body in sequences(alphabet([X0, ZX0], funcs=(0, 1, 3)), 2):
        cases.append((universe(True, False, [(0, 1), (1, 2)]) + [("Combine", [(2, 0)])], body, "zero"))   # 0*(f0+2f1)
    for body in sequences(alphabet([X0, ZX0]), 2):
        cases.append((universe(True, False, [(0, 1), (1, 2)]), body, "zero"))             # 0-scaled queries only
    # explicit dictionaries handed to the constructor
    for body in sequences(alphabet([X0]), 2):
        pre = [("NewPoint",), ("NewLeaf", True), ("NewLeaf", False)]
        cases.append((pre + [("Direct", [(1, 2), (0, -1)], False)], body, "guarded"))
        for r0, r1 in ((True, False), (False, True), (True, True)):
            cases.append(([("NewPoint",), ("NewLeaf", r0), ("NewLeaf", r1), ("Direct", [(0, 1), (1, 0)], r0 and r1)],
                          body, "zero"))                                                   # {f0: 1, f1: 0}
    return cases


def class_universe(c0, d0, c1, d1, terms):
    return [("NewPoint",), ("NewLeaf", d0, c0), ("NewLeaf", d1, c1), ("Combine", terms)]


def class_tie():
    """every shipped class x reuse_gradient in {False, True, default}: the effective flag is (class forces True) or
    (declared), the forced flags read from the source (Gen/Classes.v) are the specified ones, and on the real object
    two gradient queries at one point return the SAME gradient object iff the effective flag is True (the value
    object is always the same).  Returns (number of checks, problems)."""
    import re
    from PEPit import PEP, Point
    from . import classes as C
    from .common import COQ
    problems, n = [], 0
    try:
        src = open(os.path.join(COQ, "Gen", "Classes.v")).read()
    except OSError:
        src = ""
    read = dict((m.group(1), m.group(2) == "true")
                for m in re.finditer(r"Definition force_reuse_(\w+) : bool := (true|false)\.", src))
    rng = random.Random(7)
    for name in C.ALL_CLASSES:
        spec = name in FL.FORCED_CLASSES
        n += 1
        if read.get(name) is not spec:
            problems.append(dict(kind="class-flag", cls=name, specified_forced=spec, read_from_constructor=read.get(name),
                                 why="the constructor neither forces reuse_gradient=True nor forwards the declared value "
                                     "as specified for this class (Gen/Classes.v, fail-closed)"))
        for declared in (False, True, None):
            n += 1
            try:
                pep = PEP()
                kwargs = dict(C.draw_params(rng, name))
                if name == "BlockSmoothConvexFunction":
                    kwargs["partition"] = pep.declare_block_partition(d=kwargs.pop("d"))
                if declared is not None:
                    kwargs["reuse_gradient"] = declared
                f = pep.declare_function(C.get_class(name), **kwargs)
                # default of the argument: False, except for the forcing classes and NegativelyComonotoneOperator
                # (documented signature default True, forwarded)
                want = spec or (bool(declared) if declared is not None else name == "NegativelyComonotoneOperator")
                x = Point()
                g1, v1 = f.oracle(x)
                g2 = f.gradient(x)
                v2 = f.value(x)
                bad = None
                if bool(f.reuse_gradient) != want:
                    bad = "effective reuse_gradient is not (class forces True) or (declared value)"
                elif (g1 is g2) != want:
                    bad = "two gradient queries at one point: same object iff the class is (declared) differentiable"
                elif v1 is not v2:
                    bad = "two value queries at one point returned different objects"
                if bad:
                    problems.append(dict(kind="class-flag", cls=name, declared=declared, effective=bool(f.reuse_gradient),
                                         expected=want, same_gradient_object=(g1 is g2), why=bad))
            except Exception as e:
                problems.append(dict(kind="class-flag", cls=name, declared=declared, error=repr(e)[:300]))
    # behaviour on the real object first (a concrete constructor call), what was read from the source after it
    problems.sort(key=lambda p: 0 if "declared" in p else 1)
    return n, problems


def scale_cases():
    """add_point the way the primitive steps call it, with a tiny step size / a tiny or huge recorded gradient / a tiny
    coefficient in the recorded value: the recorded triple keeps every non-zero coefficient, the point is found again,
    and only an EXACTLY empty gradient makes the sample stationary"""
    out = []
    pre = universe(True, False, [(0, 1), (1, 2)])          # point 0; functions 0 (diff.), 1 (non-diff.), 2 = f0 + 2 f1
    for f in (0, 1, 2):
        for tiny in TINY + [HUGE]:
            x = ("PSub", ("PVar", 0), ("PScalL", tiny, ("PVar", 1)))                # x0 - gamma * g
            out.append(pre + [("NewPoint",), ("NewExpr",), ("AddPoint", f, x, ("PVar", 1), [(0, 1)]),
                              ("Oracle", f, x), ("Value", f, ("PVar", 0)), ("Gradient", f, x)])
            # a tiny (not zero) recorded gradient is not a stationary point; an exactly cancelled one is
            out.append(pre + [("NewPoint",), ("NewPoint",), ("NewExpr",),
                              ("AddPoint", f, ("PVar", 1), ("PScalL", tiny, ("PVar", 2)), [(0, 1)]),
                              ("Value", f, ("PVar", 1)),
                              ("NewPoint",), ("NewExpr",),
                              ("AddPoint", f, ("PVar", 3), ("PSub", ("PScalL", tiny, ("PVar", 2)), ("PScalL", tiny, ("PVar", 2))),
                               [(1, 1), (0, tiny)]),
                              ("Value", f, ("PVar", 3))])
    return out


# regression cases of repaired findings (fixed: 5162ea4, F-C07a): a failure here is a VIOLATION, never a known finding
def regression_cases():
    out = []
    for r0 in (False, True):
        for r1 in (True, False):
            pre = [("NewPoint",), ("NewLeaf", r0), ("NewLeaf", r1)]
            F = ("Combine", [(0, 1), (1, 1), (1, -1)])
            out.append(pre + [("Oracle", 0, X0), F, ("Oracle", 2, X0)])                    # the listed trigger
            out.append(pre + [F, ("Oracle", 0, X0), ("Oracle", 2, X0), ("Gradient", 2, X0)])
            out.append(pre + [("Oracle", 0, X0), ("Oracle", 1, X0), F, ("Value", 2, X0), ("Stationary", 2)])
            out.append(pre + [("Oracle", 1, X0), ("Combine", [(0, 0), (1, 2)]), ("Oracle", 2, X0)])   # 0*f0 + 2*f1
            out.append(pre + [("Oracle", 0, X0), ("Combine", [(0, 2), (1, 1)]), ("Combine", [(2, 1), (1, -1)]),
                              ("Oracle", 3, X0), ("Oracle", 2, X0)])                      # (2 f0 + f1) - f1, nested
    return out


# ---------------------------------------------------------------------------------------------- random sequences
WEIGHTS = [1, -1, 2, -2, 0.5, -0.5, 4, 0.25, 1.0, -1.0]


class Gen(object):
    """online generator: decisions look at the live objects (counters, current weights), so every op is valid"""

    def __init__(self, rng, profile, full=True):
        self.rng, self.profile, self.full = rng, profile, full
        self.w = FL.World()
        self.ops, self.lits, self.per_op = [], [], []
        self.pool = []
        self.viol = None

    def emit(self, op, check=None):
        self.pending = op
        lit, ret = self.w.apply(op)
        self.ops.append(op)
        self.lits.append(lit)
        st = self.w.dump_state() if (self.full or check is not None) else None
        self.per_op.append([ret, st if self.full else []])
        if check is not None and self.viol is None:
            v = check(self.w, len(self.ops) - 1, op, st)
            if v:
                self.viol = dict(v, at_op=len(self.ops) - 1)

    def merged(self, terms):
        """the weights the real operators give to q1*t1 + q2*t2 + ... (builds and discards the object)"""
        F = self.w.build_combo(terms)
        return {self.w.fmap[k]: to_fraction(v) for k, v in F.decomposition_dict.items()}

    def gen_combine(self):
        rng = self.rng
        nf = len(self.w.funcs)
        for _ in range(30):
            terms = [(rng.randrange(nf), rng.choice(WEIGHTS)) for _ in range(rng.choice([1, 2, 2, 3]))]
            r = rng.random()
            if self.profile == "zero" and r < 0.7:
                # the zero function: bare zero scaling (also of a composite), or everything cancels
                f = rng.randrange(nf)
                if r < 0.4:
                    terms = [(f, rng.choice([0, 0.0]))]
                else:
                    q = rng.choice(WEIGHTS)
                    terms = [(f, q), (f, -q)]
            elif r < 0.35:
                # cancelling or zero-weight operands that Function.__add__ prunes away
                f = rng.randrange(nf)
                if rng.random() < 0.3:
                    terms.insert(rng.randrange(len(terms) + 1), (f, 0))
                else:
                    q = rng.choice(WEIGHTS)
                    terms.insert(rng.randrange(len(terms) + 1), (f, q))
                    terms.append((f, -q))
            m = self.merged(terms)
            nz = [v for v in m.values() if v != 0]
            if not all(FL.is_pow2(v) and abs(v) <= 8 and abs(v) >= Fraction(1, 8) for v in nz):
                continue
            if self.profile == "guarded" and (len(nz) != len(m) or not m):
                continue
            return ("Combine", terms)
        return None

    def gen_direct(self):
        """explicit dictionary over distinct leaf functions handed to the constructor"""
        rng = self.rng
        leaves = [i for i, g in enumerate(self.w.funcs) if g.get_is_leaf()]
        ks = rng.sample(leaves, rng.randint(1, min(3, len(leaves))))
        w = [(k, rng.choice(WEIGHTS)) for k in ks]
        if self.profile == "zero" and rng.random() < 0.7:
            j = rng.randrange(len(w))
            w[j] = (w[j][0], 0)
        all_diff = all(self.w.funcs[k].reuse_gradient for k in ks)
        return ("Direct", w, all_diff and rng.random() < 0.7)

    def gen_query_tree(self):
        rng = self.rng
        npts = self.w.n_points()
        for _ in range(30):
            r0 = rng.random()
            if self.pool and r0 < 0.3:
                # the real Point algebra with CANCELLATION: + / - chains that return to an earlier point
                t = rng.choice(self.pool)
                u = T.gen_point(rng, rng.choice([0, 0, 1]), npts)
                c = rng.choice([2, -1, 0.5, 4])
                t = rng.choice([("PSub", ("PAdd", t, u), u),                       # (x + d) - d
                                ("PSub", u, ("PSub", u, t)),                       # x1 - (x1 - x)
                                ("PAdd", ("PAdd", t, ("PScalL", c, u)), ("PNeg", ("PScalL", c, u))),
                                ("PAdd", ("PSub", t, u), u),
                                ("PSub", ("PSub", t, ("PNeg", u)), u),
                                ("PAdd", t, ("PSub", u, u)),
                                ("PSub", ("PScalL", 2, t), t)])
            elif self.pool and r0 < 0.65:
                t = rng.choice(self.pool)
                if t[0] == "PAdd" and rng.random() < 0.5:
                    t = ("PAdd", t[2], t[1])          # equal decomposition, other insertion order
            else:
                t = T.gen_point(rng, rng.choice([0, 0, 1, 1, 2]), npts)
            if rng.random() < 0.12 and npts >= 2:
                # a badly scaled direction that the point does not contain yet (no rounding: no coefficient is added)
                used = set(k for k, _ in FL.ref_pdict(t))
                free = [k for k in range(npts) if k not in used]
                if free:
                    c = rng.choice(TINY + [HUGE])
                    t = (rng.choice(["PAdd", "PSub"]), t, ("PScalL", c, ("PVar", rng.choice(free))))
            if self.profile == "zero" and rng.random() < 0.2:
                t = rng.choice([("PScalL", 0, t), ("PScalR", t, 0), ("PScalL", 0.0, t)])
            try:
                d = FL.ref_pdict(t, exact=True)   # decided on the specified decomposition, never on what the code built
            except FL.Inexact:
                continue
            if self.profile == "guarded" and any(v == 0 for _, v in d):
                continue
            if any(abs(v) > 2 ** 44 or abs(v) < Fraction(1, 2 ** 64) for _, v in d if v != 0):
                continue
            if t not in self.pool and T.size(t) <= 6:
                self.pool.append(t)
            return t
        return X0

    def step(self, check):
        rng = self.rng
        nf = len(self.w.funcs)
        nleaf = sum(1 for f in self.w.funcs if f.get_is_leaf())
        ncomp = nf - nleaf
        r = rng.random()
        if r < 0.04:
            return self.emit(("NewPoint",), check)
        if r < 0.06:
            return self.emit(("NewExpr",), check)
        if r < 0.11 and nleaf < 4:
            if rng.random() < 0.4:
                return self.emit(("NewLeaf", rng.random() < 0.5, rng.choice(sorted(FL.LEAF_CLASS_PARAMS))), check)
            return self.emit(("NewLeaf", rng.random() < 0.5), check)
        if r < 0.21 and ncomp < 3:
            op = self.gen_combine()
            if op:
                return self.emit(op, check)
        if r < 0.24 and ncomp < 3 and nleaf >= 1:
            return self.emit(self.gen_direct(), check)
        f = rng.randrange(nf)
        if ncomp and rng.random() < 0.45:      # favour composites
            f = rng.choice([i for i, g in enumerate(self.w.funcs) if not g.get_is_leaf()])
        if r < 0.50:
            return self.emit(("Oracle", f, self.gen_query_tree()), check)
        if r < 0.65:
            return self.emit(("Gradient", f, self.gen_query_tree()), check)
        if r < 0.80:
            return self.emit(("Value", f, self.gen_query_tree()), check)
        if r < 0.87:
            return self.emit(("Stationary", f), check)
        if r < 0.92:
            return self.emit(("Fixed", f), check)
        # add_point the way the primitive steps use it: the new point involves a leaf created for it
        self.emit(("NewPoint",), check)
        new_p = self.w.n_points() - 1
        self.emit(("NewExpr",), check)
        new_e = self.w.n_exprs() - 1
        base = T.gen_point(rng, rng.choice([0, 1]), new_p) if new_p > 0 else None
        gamma = rng.choice([1, -1, 2, 0.5, -0.25] + TINY + [HUGE])
        x = ("PVar", new_p) if base is None or rng.random() < 0.3 else ("PSub", base, ("PScalL", gamma, ("PVar", new_p)))
        rr = rng.random()
        if rr < 0.5:
            g = ("PVar", new_p)
        elif rr < 0.65:
            g = ("PZero",)
        elif rr < 0.72:
            g = ("PScalL", rng.choice(TINY + [HUGE]), ("PVar", new_p))       # tiny / huge, never zero: not stationary
        elif rr < 0.8 and base is not None:
            g = ("PScalL", 0, base) if self.profile == "zero" else ("PNeg", base)
        else:
            g = T.gen_point(rng, 1, new_p + 1)
        v = [(new_e, 1)]
        if new_e > 0 and rng.random() < 0.3:
            v.append((rng.randrange(new_e), rng.choice([2, -1, 0.5] + TINY + ([0] if self.profile == "zero" else []))))
        return self.emit(("AddPoint", f, x, g, v), check)

    def run(self, length, check):
        rng = self.rng
        self.emit(("NewPoint",), check)
        if rng.random() < 0.5:
            self.emit(("NewPoint",), check)
        for _ in range(rng.choice([1, 2, 2, 3])):
            if rng.random() < 0.3:
                self.emit(("NewLeaf", rng.random() < 0.5, rng.choice(sorted(FL.LEAF_CLASS_PARAMS))), check)
            else:
                self.emit(("NewLeaf", rng.random() < 0.5), check)
        while len(self.ops) < length:
            self.step(check)
        inp = "(%s, %s)" % ("true" if self.full else "false", FL.coq_list(self.lits))
        return inp, [self.per_op, self.w.dump_state()]


# ---------------------------------------------------------------------------------------------- invariant on the implementation
def make_check(rng):
    def check(world, i, op, st):
        return FL.check_inv(st, FL.Valuations(rng), world=world)
    return check


def outcome(ops, repair=None, rng_seed=12345):
    """("viol", detail) | ("ok", None) | ("error", None: the op list is not executable, e.g. after dropping an op
    that created an object used later)"""
    rng = random.Random(rng_seed)
    try:
        _, _, _, viol = FL.run_ops(ops, full=False, repair=repair, check=make_check(rng), strict=True)
    except Exception:
        return "error", None
    return ("viol", viol) if viol else ("ok", None)


def fails(ops, repair=None):
    """the invariant violation of the op list on the implementation, or None"""
    return outcome(ops, repair)[1]


def shrink(ops):
    """drop ops while the op list stays executable and well scoped (outcome() checks both) and still violates the
    SAME clause of the invariant"""
    ops = list(ops)
    first = fails(ops)
    if not first:
        return ops
    changed = True
    while changed:
        changed = False
        for i in range(len(ops) - 1, -1, -1):
            cand = ops[:i] + ops[i + 1:]
            v = fails(cand)
            if v and v["clause"] == first["clause"]:
                ops = cand
                changed = True
    return ops


def has_zero_function(ops, unpruned_only=False):
    """does some Combine / Direct of the list build the zero function?  unpruned_only: ... with a NON-EMPTY dictionary
    all of whose weights are zero (a bare zero scaling; the only way an operator-built composite carries a zero)"""
    try:
        w = FL.World()
        for op in ops:
            w.apply(op)
            if op[0] in ("Combine", "Direct"):
                vals = list(w.funcs[-1].decomposition_dict.values())
                if all(v == 0 for v in vals) and (vals or not unpruned_only):
                    return True
    except Exception:
        return False
    return False


def has_ctor_zero_weight(ops):
    """a dictionary handed to the constructor with a zero weight next to a non-zero one"""
    return any(op[0] == "Direct" and any(q == 0 for _, q in op[1]) and any(q != 0 for _, q in op[1]) for op in ops)


def has_zero_query(ops):
    try:
        w = FL.World()
        for op in ops:
            if op[0] in ("Oracle", "Gradient", "Value"):
                # by the REFERENCE decomposition of what was written (a final scaling by 0), not by what the
                # implementation built: a zero left behind by a + or - is not this finding's trigger
                if any(v == 0 for _, v in FL.ref_pdict(op[2])):
                    return True
            w.apply(op)
    except Exception:
        return False
    return False


def model_violates(opss):
    """for each op list: does the MODEL (Model/Func.v, evaluated by coqc) also break the invariant (inv_b = false)
    on the very op list, as seen by the model?  A violation of the implementation is a consequence of a listed finding
    only if the faithful model predicts it; if the model keeps the invariant where the implementation breaks it, the
    implementation has left the modelled behaviour and the violation is new.  None for a list that is not executable."""
    import re
    from .common import workdir, coqc
    lits = []
    for ops in opss:
        try:
            inp, _, _, _ = FL.run_ops(ops, full=False)
            lits.append(inp)
        except Exception:
            lits.append(None)
    good = [l for l in lits if l is not None]
    if not good:
        return [None] * len(opss)
    path = os.path.join(workdir(), "c07_modelinv_%d.v" % (abs(hash(tuple(good))) % 10 ** 9))
    with open(path, "w") as f:
        f.write("From Coq Require Import List QArith ZArith String Bool.\n")
        f.write("From PV Require Import Model.Dict Model.Terms Model.Func Proofs.C07InvB.\nImport ListNotations.\n")
        f.write("Definition cases : list (bool * list op) := [\n%s\n].\n" % ";\n".join(good))
        f.write("Definition result := Eval vm_compute in (map (fun c => negb (inv_b (run (snd c)))) cases).\nPrint result.\n")
    rc, out, err = coqc(path)
    m = re.search(r"result\s*=\s*\[(.*?)\]\s*:\s*list bool", out, re.S)
    if rc != 0 or not m:
        raise RuntimeError("model_violates: coqc failed: %s %s" % (out[-500:], err[-1500:]))
    vals = [t.strip() == "true" for t in m.group(1).split(";")] if m.group(1).strip() else []
    it = iter(vals)
    return [None if l is None else next(it) for l in lits]


def load_known_c07():
    out = []
    paths = [os.path.join(VERIF, "KNOWN_FINDINGS.json")]
    d = os.path.join(VERIF, "known_findings.d")
    if os.path.isdir(d):
        paths += sorted(os.path.join(d, f) for f in os.listdir(d) if f.endswith(".json"))
    for p in paths:
        if os.path.exists(p):
            out += [k for k in json.load(open(p)).get("findings", [])
                    if k.get("property") == "C07" and k.get("status", "open") == "open"]
    return out


def shape_known(ops, ids):
    """cheap part of is_known: the id of the first listed finding whose trigger shape is present in the op list and
    whose repair (alone, or the smallest set of repairs of PRESENT shapes) makes the violation disappear"""
    import itertools
    shapes = []
    if "F-C07e" in ids and has_ctor_zero_weight(ops):
        shapes.append(("F-C07e", "prune-weights"))
    if "F-C07d" in ids and has_zero_function(ops, unpruned_only=True):
        shapes.append(("F-C07d", "prune-weights"))
    if "F-C07b" in ids and has_zero_query(ops):
        shapes.append(("F-C07b", "prune-queries"))
    if "F-C07c" in ids and has_zero_function(ops):
        shapes.append(("F-C07c", "skip-zero-function"))
    # (an op list that is not executable under a repair, because fewer leaves get created, counts as repaired)
    for r in range(1, len(shapes) + 1):
        for sub in itertools.combinations(shapes, r):
            if outcome(ops, repair=tuple(sorted(set(rep for _, rep in sub))))[0] != "viol":
                return sub[0][0]
    return None


def is_known(payload, known):
    """A violation is a listed finding iff (a) it is an invariant violation of an op list that contains the
    finding's trigger shape (an explicit constructor dictionary with a zero weight next to a non-zero one for F-C07e,
    a composite that is a bare zero scaling {f: 0, ...} for F-C07d, a query point with an explicit zero coefficient
    for F-C07b, a composite that is the zero function -- {f: 0} or {} -- for F-C07c), (b) it DISAPPEARS when exactly
    that trigger is repaired on the implementation (weights pruned at construction, resp. query point pruned before the
    call, resp. stationary_point / fixed_point / add_point on the zero function ignored) and (c) the MODEL predicts
    the violation on this very op list (model_violates).  Anything else is not known; in particular an operator-built
    composite with a zero weight NEXT TO a non-zero one (f1 + f2 - f2 before /repo 5162ea4) matches no shape."""
    if payload.get("kind") != "invariant-violated" or "ops" not in payload:
        return None
    ops = [FL.detuple(o) for o in payload["ops"]]
    if not fails(ops):
        return None
    fid = shape_known(ops, set(k["id"] for k in known))
    if fid is None:
        return None
    if model_violates([ops])[0] is not True:
        return None          # the model keeps the invariant on this op list: not a consequence of a listed finding
    return fid


def known_findings(known):
    out = []
    for k in known:
        ops = [FL.detuple(o) for o in k.get("trigger", {}).get("ops", [])]
        v = fails(ops) if ops else None
        out.append((k["id"], bool(v), k["what"] + (" [violates %s]" % v["clause"] if v else "")))
    return out


def replay(payload):
    if payload.get("kind") == "class-flag":
        return any(p.get("cls") == payload.get("cls") for p in class_tie()[1])
    if "ops" not in payload:
        return False
    ops = [FL.detuple(o) for o in payload["ops"]]
    if payload.get("kind") == "invariant-violated":
        return bool(fails(ops))
    if payload.get("kind") == "regression-failed":
        return outcome(ops)[0] != "ok"
    if payload.get("kind") == "implementation-raised":
        try:
            FL.run_ops(ops, full=False)
        except (Exception, RecursionError):
            return True
        return False
    try:
        inp, dump, _, _ = FL.run_ops(ops, full=True)
    except Exception:
        return True
    return bool(run_cases("c07r", IMPORTS, RUN, [(inp, dump)], input_type=INPUT_TYPE))


# ---------------------------------------------------------------------------------------------- correspondence
def _hist_add(hist, ops, funcs_leaf):
    for op in ops:
        k = op[0]
        if k in ("Oracle", "Gradient", "Value", "Stationary", "Fixed", "AddPoint"):
            k += ":leaf" if funcs_leaf[op[1]] else ":composite"
        hist[k] = hist.get(k, 0) + 1


def _leaf_flags(ops):
    fl = []
    for op in ops:
        if op[0] == "NewLeaf":
            fl.append(True)
        elif op[0] in ("Combine", "Direct"):
            fl.append(False)
    return fl


def correspondence(tier, seed, corpus=()):
    t0 = time.time()
    rng = random.Random(seed * 7919 + 7)
    check_rng = random.Random(seed * 31 + 77)
    check = make_check(check_rng)
    streams = {}
    for name in ("guarded", "zero"):
        streams[name] = dict(cases=[], opss=[], hist={}, lens=[], distinct=set(), viols=[], exhaustive=0, randoms=0,
                             raised=[], regress=[], regressions=0, viol_case={})

    def add(name, ops, inp, dump, viol):
        s = streams[name]
        s["cases"].append((inp, dump))
        s["opss"].append(ops)
        fl = _leaf_flags(ops)
        _hist_add(s["hist"], ops, fl)
        s["lens"].append(len(ops))
        if any(op[0] in ("Oracle", "Gradient", "Value", "Stationary", "Fixed", "AddPoint") and not fl[op[1]] for op in ops):
            s["distinct"].add(inp)
        if viol:
            s["viols"].append((ops, viol))
            s["viol_case"][len(s["cases"]) - 1] = (ops, viol)

    for ops in regression_cases():
        s = streams["guarded"]
        try:
            inp, dump, _, viol = FL.run_ops(ops, full=True, check=check)
        except (Exception, RecursionError) as e:
            s["raised"].append((ops, repr(e)[:300]))
            continue
        if viol:
            inp, dump, _, _ = FL.run_ops(ops, full=True)
            # the repaired defect is back iff pruning the weights at construction (what 5162ea4 does) cures the case;
            # otherwise it is some other defect and goes the ordinary way (shrunk, matched against the findings)
            if outcome(ops, repair="prune-weights")[0] == "ok":
                s["regress"].append(dict(kind="regression-failed", fixed_by="5162ea4", ops=ops, clause=viol["clause"],
                                         detail=viol))
                viol = None
        add("guarded", ops, inp, dump, viol)
        s["regressions"] += 1
    for item in corpus or []:
        ops = [FL.detuple(o) for o in item["ops"]]
        inp, dump, _, viol = FL.run_ops(ops, full=True, check=None)
        add(item.get("stream", "guarded"), ops, inp, dump, None)
    for setup, body, name in exhaustive_cases(tier):
        ops = list(setup) + list(body)
        # all shorter sequences are cases of their own, so the state after each prefix is compared there
        try:
            inp, dump, _, viol = FL.run_ops(ops, full=False, check=check)
            if viol:
                # run_ops stops at the violation; redo without the check for the complete dump
                inp, dump, _, _ = FL.run_ops(ops, full=False)
        except (Exception, RecursionError) as e:
            streams[name]["raised"].append((ops, repr(e)[:300]))
            continue
        add(name, ops, inp, dump, viol)
        streams[name]["exhaustive"] += 1
    n_rand = dict(guarded=600, zero=250) if tier == "quick" else dict(guarded=6000, zero=2500)
    for name in ("guarded", "zero"):
        for k in range(n_rand[name]):
            # the whole state is compared after every op for one sequence in three, after the last op (and
            # every returned object) for the others
            g = Gen(rng, name, full=(k % 3 == 0))
            try:
                inp, dump = g.run(rng.randint(6, 16), check)
            except (Exception, RecursionError) as e:
                streams[name]["raised"].append((g.ops + [g.pending], repr(e)[:300]))
                continue
            add(name, g.ops, inp, dump, g.viol)
            streams[name]["randoms"] += 1
    t_impl = time.time() - t0

    out = []
    for name in ("guarded", "zero"):
        s = streams[name]
        t1 = time.time()
        bad = run_cases("c07" + name[0], IMPORTS, RUN, s["cases"], shard=120, input_type=INPUT_TYPE)
        t_model = time.time() - t1
        mism = []
        for i in bad[:3]:
            mism.append(dict(kind="model-differs", ops=s["opss"][i], implementation=s["cases"][i][1],
                             model=model_output(IMPORTS, RUN, s["cases"][i][0])[:3000]))
        problems = list(s["regress"][:2])
        if name == "guarded":
            n_cls, cls_problems = class_tie()
            problems += cls_problems[:2]
            s["class_checks"], s["class_problems"] = n_cls, len(cls_problems)
        seen = set()
        for ops, err in s["raised"][:2]:
            # every op of these streams is a documented call on valid arguments: it must not raise
            problems.append(dict(kind="implementation-raised", ops=ops, error=err, stream_profile=name))
        # an invariant violation on a case where model and implementation DISAGREE is not a consequence of modelled
        # (= listed) behaviour unless the model breaks the invariant on it too: report the first one the model does
        # not predict, shrunk while it keeps both properties
        off_model = [s["viol_case"][i] for i in bad if i in s["viol_case"]][:6]
        if off_model:
            pres = [ops[:viol["at_op"] + 1] if "at_op" in viol else ops for ops, viol in off_model]
            agree = model_violates(pres)
            for pre, (ops, viol), ag in zip(pres, off_model, agree):
                if ag is True:
                    continue
                small, t_sh = list(pre), time.time()
                changed = True
                while changed and time.time() - t_sh < 45:
                    changed = False
                    for i in range(len(small) - 1, -1, -1):
                        cand = small[:i] + small[i + 1:]
                        vc = fails(cand)
                        if vc and vc["clause"] == viol["clause"] and model_violates([cand])[0] is False:
                            small, changed = cand, True
                            break
                v2 = fails(small) or viol
                problems.append(dict(kind="invariant-violated", ops=small, clause=v2["clause"], detail=v2,
                                     stream_profile=name, note="the model keeps the invariant on this op list"))
                break
        # violations that survive ALL repairs cannot be one of the listed findings: report those first
        unexplained = []
        if name == "zero":
            for ops, viol in s["viols"]:
                pre = ops[:viol["at_op"] + 1] if "at_op" in viol else ops
                if outcome(pre, repair=ALL_REPAIRS)[0] == "viol":
                    unexplained.append((ops, viol))
        s["n_unexplained"] = len(unexplained)
        for ops, viol in unexplained[:2]:
            small = shrink(ops[:viol["at_op"] + 1] if "at_op" in viol else ops)
            v2 = fails(small) or viol
            problems.append(dict(kind="invariant-violated", ops=small, clause=v2["clause"], detail=v2, stream_profile=name,
                                 note="not explained by a zero weight or a zero-scaled query"))
        for ops, viol in s["viols"]:
            if len(problems) >= 3:
                break
            key = viol["clause"]
            if key in seen:
                continue
            seen.add(key)
            small = shrink(ops[:viol.get("at_op", len(ops) - 1) + 1] if "at_op" in viol else ops)
            v2 = fails(small) or viol
            problems.append(dict(kind="invariant-violated", ops=small, clause=v2["clause"], detail=v2, stream_profile=name))
        sample_i = [0, len(s["cases"]) - 1] if s["cases"] else []
        if not s["lens"]:
            s["lens"] = [0]
        out.append(dict(
            name="oracle-ops-" + ("guarded" if name == "guarded" else "zero-weights"),
            evaluations=len(s["cases"]), distinct_nontrivial=len(s["distinct"]),
            rule=("op sequences on real Function objects vs Model/Func.v, dumps after every op; exhaustive over fixed "
                  "2-leaf/1-composite universes + seeded random longer ones (<=4 leaves, <=3 composites, nested sums); "
                  + ("no composite is the zero function (cancelling / zero-weight operands pruned by __add__ included, "
                     "with the regression cases of the repaired F-C07a), no zero coefficient in query points"
                     if name == "guarded" else
                     "zero functions (0*f, 0*(f+g), f - f) and query points scaled by 0")
                  + "; non-trivial = at least one call on a composite; distinct by op list"),
            mismatches=mism, n_mismatch=len(bad), problems=problems, n_invariant_violations=len(s["viols"]),
            n_implementation_raised=len(s["raised"]), n_violations_not_explained_by_known_triggers=s["n_unexplained"],
            samples=[dict(ops=s["opss"][i], final_state=s["cases"][i][1][1]) for i in sample_i],
            n_regression_failed=len(s["regress"]), class_flag_checks=s.get("class_checks", 0),
            n_class_flag_problems=s.get("class_problems", 0),
            distribution=dict(op_histogram=dict(sorted(s["hist"].items())), exhaustive_sequences=s["exhaustive"],
                              regression_sequences=s["regressions"],
                              random_sequences=s["randoms"], len_min=min(s["lens"]), len_max=max(s["lens"]),
                              len_mean=round(sum(s["lens"]) / len(s["lens"]), 2),
                              seconds_model=round(t_model, 1), seconds_implementation_both_streams=round(t_impl, 1))))
    return out


# ---------------------------------------------------------------------------------------------- failing-input search
def search(tier, seed):
    """random sequences on the IMPLEMENTATION, invariant after every op; the first failing prefix that is NOT one of
    the listed findings, shrunk, is the replay."""
    rng = random.Random(seed + 70707)
    check = make_check(random.Random(seed + 7))
    ids = set(k["id"] for k in load_known_c07())
    n = 1500 if tier == "quick" else 15000
    t0 = time.time()
    maybe = []          # violations whose shape / repair say "listed finding": the model still has to agree (batched)
    for i in range(n):
        if time.time() - t0 > (100 if tier == "quick" else 1200):
            break
        g = Gen(rng, "guarded" if i % 3 else "zero")
        try:
            g.run(rng.randint(5, 14), check)
        except Exception as e:
            return dict(kind="implementation-raised", ops=g.ops + [getattr(g, "pending", None)], error=repr(e)[:300])
        if g.viol:
            prefix = g.ops[:g.viol["at_op"] + 1]
            small = shrink(prefix)
            v = fails(small) or g.viol
            payload = dict(kind="invariant-violated", ops=small, clause=v["clause"], detail=v)
            if shape_known(small, ids) is None:
                return payload
            if len(maybe) < 40:
                maybe.append((payload, prefix, g.viol))
    if maybe:
        agree = model_violates([p["ops"] for p, _, _ in maybe] + [pre for _, pre, _ in maybe])
        k = len(maybe)
        for j, (payload, prefix, viol) in enumerate(maybe):
            if agree[j] is not True:
                return payload
            if agree[k + j] is not True:
                return dict(kind="invariant-violated", ops=prefix, clause=viol["clause"], detail=viol,
                            note="not shrunk: the shrunk sequence is a listed finding, this one is not predicted by the model")
    return None
