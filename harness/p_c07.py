"""C07 — oracle bookkeeping is coherent for leaf and composite functions.

Tie (H): op sequences (NewPoint/NewExpr/NewLeaf/Combine/Oracle/Gradient/Value/Stationary/Fixed/AddPoint) are run on
the REAL PEPit.function.Function objects (composites built with the real operators, query points with the real Point
operators) and on Model/Func.v; after EVERY op the dictionaries of the returned objects and the complete
list_of_points / list_of_stationary_points / weights / reuse flag of every function, and both leaf counters, are
compared exactly (order of dictionary entries included).
Two streams so that both sides of the guard of C07_inv_partial are exercised:
  guarded       : composite weights non-zero after merging, query points without explicit zero coefficient;
                  the invariant (funclib.check_inv) must hold on the implementation after every op
  zero-weights  : weights that are / cancel to zero, query points scaled by 0 (F-C07a / F-C07b / F-C07c live here);
                  EVERY invariant violation found there must disappear when the triggers of the listed findings are
                  repaired on the implementation (else it is reported), a few are shrunk and matched individually.
Search: random sequences on the implementation, invariant evaluated after every op, first failing prefix shrunk."""
import json
import os
import random
import time
from fractions import Fraction

from . import terms as T
from . import funclib as FL
from .common import run_cases, model_output, VERIF, to_fraction

GEN_DEPS = []
TRUSTED = [
    "Model/Func.v models PEPit/function.py (constructor, + - * / unary-, _is_already_evaluated_on_point, "
    "_separate_leaf_functions_regarding_their_need_on_point, add_point, oracle, gradient, value, stationary_point, "
    "fixed_point) by hand; tied to the code by the C07 op streams (exact dumps after every op)",
    "points are identified with their decomposition dictionaries (all that the lookup uses); aliasing of recorded "
    "Python objects is not modelled: the only in-place mutation of a recorded object is prune_dict, which is idempotent",
    "Python dict == on decomposition dictionaries is modelled by Dict.dict_eqb (same key set, equal values)",
    "inputs of the streams are dyadic with power-of-two weights so that float arithmetic (incl. 1/weight) is exact",
]
ASSUMES = []

IMPORTS = ["From PV Require Import Model.Func."]
RUN = "trace"
INPUT_TYPE = "(bool * list op)"

ALL_REPAIRS = ("prune-weights", "prune-queries", "skip-zero-function")
X0 = ("PVar", 0)
ZX0 = ("PScalL", 0, ("PVar", 0))


# ---------------------------------------------------------------------------------------------- exhaustive universes
def universe(reuse0, reuse1, terms):
    return [("NewPoint",), ("NewLeaf", reuse0), ("NewLeaf", reuse1), ("Combine", terms)]


def alphabet(points, reduced=False):
    """every call on the three functions of the universe; reduced: fixed_point only on the composite
    (stationary_point and fixed_point differ only by the gradient handed to add_point)"""
    al = []
    for f in (0, 1, 2):
        for p in points:
            al += [("Oracle", f, p), ("Gradient", f, p), ("Value", f, p)]
        al += [("Stationary", f)]
        if f == 2 or not reduced:
            al += [("Fixed", f)]
    return al


def sequences(al, maxlen):
    out = [()]
    frontier = [()]
    for _ in range(maxlen):
        frontier = [s + (a,) for s in frontier for a in al]
        out += frontier
    return out[1:]


def exhaustive_cases(tier):
    """(setup ops, body ops, stream) ; every body sequence up to the stated length"""
    cases = []
    g_len = 3 if tier == "quick" else 4
    for body in sequences(alphabet([X0]), g_len - 1) + \
            [b for b in sequences(alphabet([X0], reduced=True), g_len) if len(b) == g_len]:
        cases.append((universe(True, False, [(0, 1), (1, 2)]), body, "guarded"))
    for body in sequences(alphabet([X0]), 2):
        cases.append((universe(False, True, [(0, -1), (1, 0.5)]), body, "guarded"))
        cases.append((universe(False, False, [(0, 2), (1, 1)]), body, "guarded"))
        cases.append((universe(True, True, [(1, 1), (0, -4)]), body, "guarded"))
    z_len = 2 if tier == "quick" else 3
    for r0 in (True, False):
        for r1 in (True, False):
            for body in sequences(alphabet([X0, ZX0]), z_len):
                cases.append((universe(r0, r1, [(0, 1), (1, 1), (1, -1)]), body, "zero"))
    for body in sequences(alphabet([X0, ZX0]), 2):
        cases.append((universe(True, False, [(0, 0), (1, 2)]), body, "zero"))
    return cases


# ---------------------------------------------------------------------------------------------- random sequences
WEIGHTS = [1, -1, 2, -2, 0.5, -0.5, 4, 0.25, 1.0, -1.0]


class Gen(object):
    """online generator: decisions look at the live objects (counters, current weights), so every op is valid"""

    def __init__(self, rng, profile, full=True):
        self.rng, self.profile, self.full = rng, profile, full
        self.w = FL.World()
        self.ops, self.lits, self.per_op = [], [], []
        self.pool = []
        self.viol = None

    def emit(self, op, check=None):
        self.pending = op
        lit, ret = self.w.apply(op)
        self.ops.append(op)
        self.lits.append(lit)
        st = self.w.dump_state() if (self.full or check is not None) else None
        self.per_op.append([ret, st if self.full else []])
        if check is not None and self.viol is None:
            v = check(self.w, len(self.ops) - 1, op, st)
            if v:
                self.viol = dict(v, at_op=len(self.ops) - 1)

    def merged(self, terms):
        acc = {}
        for fid, q in terms:
            for k, v in self.w.funcs[fid].decomposition_dict.items():
                kk = self.w.fmap[k]
                acc[kk] = acc.get(kk, Fraction(0)) + to_fraction(v) * to_fraction(q)
        return acc

    def gen_combine(self):
        rng = self.rng
        nf = len(self.w.funcs)
        for _ in range(30):
            terms = [(rng.randrange(nf), rng.choice(WEIGHTS)) for _ in range(rng.choice([1, 2, 2, 3]))]
            if self.profile == "zero" and rng.random() < 0.75:
                f = rng.randrange(nf)
                if rng.random() < 0.3:
                    terms.insert(rng.randrange(len(terms) + 1), (f, 0))
                else:
                    q = rng.choice(WEIGHTS)
                    terms.insert(rng.randrange(len(terms) + 1), (f, q))
                    terms.append((f, -q))
            m = self.merged(terms)
            nz = [v for v in m.values() if v != 0]
            if not all(FL.is_pow2(v) and abs(v) <= 8 and abs(v) >= Fraction(1, 8) for v in nz):
                continue
            if self.profile == "guarded" and len(nz) != len(m):
                continue
            return ("Combine", terms)
        return None

    def gen_query_tree(self):
        rng = self.rng
        npts = self.w.n_points()
        for _ in range(30):
            if self.pool and rng.random() < 0.65:
                t = rng.choice(self.pool)
                if t[0] == "PAdd" and rng.random() < 0.5:
                    t = ("PAdd", t[2], t[1])          # equal decomposition, other insertion order
            else:
                t = T.gen_point(rng, rng.choice([0, 0, 1, 1, 2]), npts)
            if self.profile == "zero" and rng.random() < 0.2:
                t = rng.choice([("PScalL", 0, t), ("PScalR", t, 0), ("PScalL", 0.0, t)])
            d = self.w.build_point(t).decomposition_dict
            if self.profile == "guarded" and any(v == 0 for v in d.values()):
                continue
            if any(abs(to_fraction(v)) > 4096 or to_fraction(v).denominator > 4096 for v in d.values()):
                continue
            if t not in self.pool:
                self.pool.append(t)
            return t
        return X0

    def step(self, check):
        rng = self.rng
        nf = len(self.w.funcs)
        nleaf = sum(1 for f in self.w.funcs if f.get_is_leaf())
        ncomp = nf - nleaf
        r = rng.random()
        if r < 0.04:
            return self.emit(("NewPoint",), check)
        if r < 0.06:
            return self.emit(("NewExpr",), check)
        if r < 0.11 and nleaf < 4:
            return self.emit(("NewLeaf", rng.random() < 0.5), check)
        if r < 0.24 and ncomp < 3:
            op = self.gen_combine()
            if op:
                return self.emit(op, check)
        f = rng.randrange(nf)
        if ncomp and rng.random() < 0.45:      # favour composites
            f = rng.choice([i for i, g in enumerate(self.w.funcs) if not g.get_is_leaf()])
        if r < 0.50:
            return self.emit(("Oracle", f, self.gen_query_tree()), check)
        if r < 0.65:
            return self.emit(("Gradient", f, self.gen_query_tree()), check)
        if r < 0.80:
            return self.emit(("Value", f, self.gen_query_tree()), check)
        if r < 0.87:
            return self.emit(("Stationary", f), check)
        if r < 0.92:
            return self.emit(("Fixed", f), check)
        # add_point the way the primitive steps use it: the new point involves a leaf created for it
        self.emit(("NewPoint",), check)
        new_p = self.w.n_points() - 1
        self.emit(("NewExpr",), check)
        new_e = self.w.n_exprs() - 1
        base = T.gen_point(rng, rng.choice([0, 1]), new_p) if new_p > 0 else None
        gamma = rng.choice([1, -1, 2, 0.5, -0.25])
        x = ("PVar", new_p) if base is None or rng.random() < 0.3 else ("PSub", base, ("PScalL", gamma, ("PVar", new_p)))
        rr = rng.random()
        if rr < 0.5:
            g = ("PVar", new_p)
        elif rr < 0.65:
            g = ("PZero",)
        elif rr < 0.8 and base is not None:
            g = ("PScalL", 0, base) if self.profile == "zero" else ("PNeg", base)
        else:
            g = T.gen_point(rng, 1, new_p + 1)
        v = [(new_e, 1)]
        if new_e > 0 and rng.random() < 0.3:
            v.append((rng.randrange(new_e), rng.choice([2, -1, 0.5] + ([0] if self.profile == "zero" else []))))
        return self.emit(("AddPoint", f, x, g, v), check)

    def run(self, length, check):
        rng = self.rng
        self.emit(("NewPoint",), check)
        if rng.random() < 0.5:
            self.emit(("NewPoint",), check)
        for _ in range(rng.choice([1, 2, 2, 3])):
            self.emit(("NewLeaf", rng.random() < 0.5), check)
        while len(self.ops) < length:
            self.step(check)
        inp = "(%s, %s)" % ("true" if self.full else "false", FL.coq_list(self.lits))
        return inp, [self.per_op, self.w.dump_state()]


# ---------------------------------------------------------------------------------------------- invariant on the implementation
def make_check(rng):
    def check(world, i, op, st):
        return FL.check_inv(st, FL.Valuations(rng), world=world)
    return check


def outcome(ops, repair=None, rng_seed=12345):
    """("viol", detail) | ("ok", None) | ("error", None: the op list is not executable, e.g. after dropping an op
    that created an object used later)"""
    rng = random.Random(rng_seed)
    try:
        _, _, _, viol = FL.run_ops(ops, full=False, repair=repair, check=make_check(rng))
    except Exception:
        return "error", None
    return ("viol", viol) if viol else ("ok", None)


def fails(ops, repair=None):
    """the invariant violation of the op list on the implementation, or None"""
    return outcome(ops, repair)[1]


def shrink(ops):
    ops = list(ops)
    # cut after the first failing op
    changed = True
    while changed:
        changed = False
        for i in range(len(ops) - 1, -1, -1):
            cand = ops[:i] + ops[i + 1:]
            if fails(cand):
                ops = cand
                changed = True
    return ops


def has_zero_weight(ops, all_zero=False):
    """does some Combine of the list build a composite with a zero weight (explicit or by cancellation)?
    all_zero: ... a composite ALL of whose weights are zero (the zero function)?"""
    try:
        w = FL.World()
        for op in ops:
            w.apply(op)
            if op[0] == "Combine":
                vals = list(w.funcs[-1].decomposition_dict.values())
                if (all(v == 0 for v in vals) if all_zero else any(v == 0 for v in vals)):
                    return True
    except Exception:
        return False
    return False


def has_zero_query(ops):
    try:
        w = FL.World()
        for op in ops:
            if op[0] in ("Oracle", "Gradient", "Value"):
                if any(v == 0 for v in w.build_point(op[2]).decomposition_dict.values()):
                    return True
            w.apply(op)
    except Exception:
        return False
    return False


def load_known_c07():
    out = []
    paths = [os.path.join(VERIF, "KNOWN_FINDINGS.json")]
    d = os.path.join(VERIF, "known_findings.d")
    if os.path.isdir(d):
        paths += sorted(os.path.join(d, f) for f in os.listdir(d) if f.endswith(".json"))
    for p in paths:
        if os.path.exists(p):
            out += [k for k in json.load(open(p)).get("findings", [])
                    if k.get("property") == "C07" and k.get("status", "open") == "open"]
    return out


def is_known(payload, known):
    """A violation is a listed finding iff (a) it is an invariant violation of an op list that contains the
    finding's trigger shape (a composite built with a zero / cancelling weight for F-C07a, a query point with an
    explicit zero coefficient for F-C07b, a composite all of whose weights cancel for F-C07c) and (b) it DISAPPEARS
    when exactly that trigger is repaired on the implementation (weights pruned and flag recomputed at construction,
    resp. query point pruned before the call, resp. stationary_point / fixed_point / add_point on the zero function
    ignored).  Anything else is not known."""
    if payload.get("kind") != "invariant-violated" or "ops" not in payload:
        return None
    ops = [FL.detuple(o) for o in payload["ops"]]
    if not fails(ops):
        return None
    ids = set(k["id"] for k in known)
    shapes = []
    if "F-C07a" in ids and has_zero_weight(ops):
        shapes.append(("F-C07a", "prune-weights"))
    if "F-C07b" in ids and has_zero_query(ops):
        shapes.append(("F-C07b", "prune-queries"))
    if "F-C07c" in ids and has_zero_weight(ops, all_zero=True):
        shapes.append(("F-C07c", "skip-zero-function"))
    # smallest set of repairs of triggers PRESENT in the op list under which the violation disappears
    # (an op list that is not executable under a repair, because fewer leaves get created, counts as repaired)
    import itertools
    for r in range(1, len(shapes) + 1):
        for sub in itertools.combinations(shapes, r):
            if outcome(ops, repair=tuple(rep for _, rep in sub))[0] != "viol":
                return sub[0][0]
    return None


def known_findings(known):
    out = []
    for k in known:
        ops = [FL.detuple(o) for o in k.get("trigger", {}).get("ops", [])]
        v = fails(ops) if ops else None
        out.append((k["id"], bool(v), k["what"] + (" [violates %s]" % v["clause"] if v else "")))
    return out


def replay(payload):
    if "ops" not in payload:
        return False
    ops = [FL.detuple(o) for o in payload["ops"]]
    if payload.get("kind") == "invariant-violated":
        return bool(fails(ops))
    if payload.get("kind") == "implementation-raised":
        try:
            FL.run_ops(ops, full=False)
        except (Exception, RecursionError):
            return True
        return False
    try:
        inp, dump, _, _ = FL.run_ops(ops, full=True)
    except Exception:
        return True
    return bool(run_cases("c07r", IMPORTS, RUN, [(inp, dump)], input_type=INPUT_TYPE))


# ---------------------------------------------------------------------------------------------- correspondence
def _hist_add(hist, ops, funcs_leaf):
    for op in ops:
        k = op[0]
        if k in ("Oracle", "Gradient", "Value", "Stationary", "Fixed", "AddPoint"):
            k += ":leaf" if funcs_leaf[op[1]] else ":composite"
        hist[k] = hist.get(k, 0) + 1


def _leaf_flags(ops):
    fl = []
    for op in ops:
        if op[0] == "NewLeaf":
            fl.append(True)
        elif op[0] == "Combine":
            fl.append(False)
    return fl


def correspondence(tier, seed, corpus=()):
    t0 = time.time()
    rng = random.Random(seed * 7919 + 7)
    check_rng = random.Random(seed * 31 + 77)
    check = make_check(check_rng)
    streams = {}
    for name in ("guarded", "zero"):
        streams[name] = dict(cases=[], opss=[], hist={}, lens=[], distinct=set(), viols=[], exhaustive=0, randoms=0,
                             raised=[])

    def add(name, ops, inp, dump, viol):
        s = streams[name]
        s["cases"].append((inp, dump))
        s["opss"].append(ops)
        fl = _leaf_flags(ops)
        _hist_add(s["hist"], ops, fl)
        s["lens"].append(len(ops))
        if any(op[0] in ("Oracle", "Gradient", "Value", "Stationary", "Fixed", "AddPoint") and not fl[op[1]] for op in ops):
            s["distinct"].add(inp)
        if viol:
            s["viols"].append((ops, viol))

    for item in corpus or []:
        ops = [FL.detuple(o) for o in item["ops"]]
        inp, dump, _, viol = FL.run_ops(ops, full=True, check=None)
        add(item.get("stream", "guarded"), ops, inp, dump, None)
    for setup, body, name in exhaustive_cases(tier):
        ops = list(setup) + list(body)
        # all shorter sequences are cases of their own, so the state after each prefix is compared there
        try:
            inp, dump, _, viol = FL.run_ops(ops, full=False, check=check)
            if viol:
                # run_ops stops at the violation; redo without the check for the complete dump
                inp, dump, _, _ = FL.run_ops(ops, full=False)
        except (Exception, RecursionError) as e:
            streams[name]["raised"].append((ops, repr(e)[:300]))
            continue
        add(name, ops, inp, dump, viol)
        streams[name]["exhaustive"] += 1
    n_rand = dict(guarded=600, zero=250) if tier == "quick" else dict(guarded=6000, zero=2500)
    for name in ("guarded", "zero"):
        for k in range(n_rand[name]):
            # the whole state is compared after every op for one sequence in three, after the last op (and
            # every returned object) for the others
            g = Gen(rng, name, full=(k % 3 == 0))
            try:
                inp, dump = g.run(rng.randint(6, 16), check)
            except (Exception, RecursionError) as e:
                streams[name]["raised"].append((g.ops + [g.pending], repr(e)[:300]))
                continue
            add(name, g.ops, inp, dump, g.viol)
            streams[name]["randoms"] += 1
    t_impl = time.time() - t0

    out = []
    for name in ("guarded", "zero"):
        s = streams[name]
        t1 = time.time()
        bad = run_cases("c07" + name[0], IMPORTS, RUN, s["cases"], shard=120, input_type=INPUT_TYPE)
        t_model = time.time() - t1
        mism = []
        for i in bad[:3]:
            mism.append(dict(kind="model-differs", ops=s["opss"][i], implementation=s["cases"][i][1],
                             model=model_output(IMPORTS, RUN, s["cases"][i][0])[:3000]))
        problems = []
        seen = set()
        for ops, err in s["raised"][:2]:
            # every op of these streams is a documented call on valid arguments: it must not raise
            problems.append(dict(kind="implementation-raised", ops=ops, error=err, stream_profile=name))
        # violations that survive ALL repairs cannot be one of the listed findings: report those first
        unexplained = []
        if name == "zero":
            for ops, viol in s["viols"]:
                pre = ops[:viol["at_op"] + 1] if "at_op" in viol else ops
                if outcome(pre, repair=ALL_REPAIRS)[0] == "viol":
                    unexplained.append((ops, viol))
        s["n_unexplained"] = len(unexplained)
        for ops, viol in unexplained[:2]:
            small = shrink(ops[:viol["at_op"] + 1] if "at_op" in viol else ops)
            v2 = fails(small) or viol
            problems.append(dict(kind="invariant-violated", ops=small, clause=v2["clause"], detail=v2, stream_profile=name,
                                 note="not explained by a zero weight or a zero-scaled query"))
        for ops, viol in s["viols"]:
            if len(problems) >= 3:
                break
            key = viol["clause"]
            if key in seen:
                continue
            seen.add(key)
            small = shrink(ops[:viol.get("at_op", len(ops) - 1) + 1] if "at_op" in viol else ops)
            v2 = fails(small) or viol
            problems.append(dict(kind="invariant-violated", ops=small, clause=v2["clause"], detail=v2, stream_profile=name))
        sample_i = [0, len(s["cases"]) - 1] if s["cases"] else []
        if not s["lens"]:
            s["lens"] = [0]
        out.append(dict(
            name="oracle-ops-" + ("guarded" if name == "guarded" else "zero-weights"),
            evaluations=len(s["cases"]), distinct_nontrivial=len(s["distinct"]),
            rule=("op sequences on real Function objects vs Model/Func.v, dumps after every op; exhaustive over fixed "
                  "2-leaf/1-composite universes + seeded random longer ones (<=4 leaves, <=3 composites, nested sums); "
                  + ("weights non-zero after merging, no zero coefficient in query points" if name == "guarded" else
                     "weights that are or cancel to zero, query points scaled by 0")
                  + "; non-trivial = at least one call on a composite; distinct by op list"),
            mismatches=mism, n_mismatch=len(bad), problems=problems, n_invariant_violations=len(s["viols"]),
            n_implementation_raised=len(s["raised"]), n_violations_not_explained_by_known_triggers=s["n_unexplained"],
            samples=[dict(ops=s["opss"][i], final_state=s["cases"][i][1][1]) for i in sample_i],
            distribution=dict(op_histogram=dict(sorted(s["hist"].items())), exhaustive_sequences=s["exhaustive"],
                              random_sequences=s["randoms"], len_min=min(s["lens"]), len_max=max(s["lens"]),
                              len_mean=round(sum(s["lens"]) / len(s["lens"]), 2),
                              seconds_model=round(t_model, 1), seconds_implementation_both_streams=round(t_impl, 1))))
    return out


# ---------------------------------------------------------------------------------------------- failing-input search
def search(tier, seed):
    """random sequences on the IMPLEMENTATION, invariant after every op; the first failing prefix that is NOT one of
    the listed findings, shrunk, is the replay."""
    rng = random.Random(seed + 70707)
    check = make_check(random.Random(seed + 7))
    known = load_known_c07()
    n = 1500 if tier == "quick" else 15000
    t0 = time.time()
    for i in range(n):
        if time.time() - t0 > (100 if tier == "quick" else 1200):
            break
        g = Gen(rng, "guarded" if i % 3 else "zero")
        try:
            g.run(rng.randint(5, 14), check)
        except Exception as e:
            return dict(kind="implementation-raised", ops=g.ops + [getattr(g, "pending", None)], error=repr(e)[:300])
        if g.viol:
            small = shrink(g.ops[:g.viol["at_op"] + 1])
            v = fails(small) or g.viol
            payload = dict(kind="invariant-violated", ops=small, clause=v["clause"], detail=v)
            if is_known(payload, known):
                continue
            return payload
    return None
