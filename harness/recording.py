"""Recording wrappers registered in PEPit.wrappers.WRAPPERS from the harness (nothing in /repo is edited).

PEP.solve(wrapper=NAME) looks NAME up with importlib.util.find_spec (it must be an importable module name) and
then instantiates WRAPPERS[NAME](verbose=...).  NAME = "harness" (this package is on PYTHONPATH), and the entry
of the dict is a factory that builds whichever wrapper the harness currently wants:

  RecordingWrapper        subclass of PEPit.wrapper.Wrapper: records every call it receives, in order; its solve()
                          returns a fake status and value None, so _solve_with_wrapper returns right after
                          wrapper.generate_problem / wrapper.solve, before any post-processing
  NoSolveCvxpyWrapper     the REAL CvxpyWrapper (all cvxpy objects are built by PEPit's own code), only solve() is
                          replaced by the same early exit
"""
from PEPit.wrapper import Wrapper
from PEPit.wrappers.cvxpy_wrapper import CvxpyWrapper

NAME = "harness"


class RecordingWrapper(Wrapper):
    def __init__(self, verbose=0):
        super().__init__(verbose=verbose)
        self.events = []            # ("main_variables", n_expr, n_points) | ("send", constraint) | ("lmi", counter, psd)
        #                             | ("generate", objective) | ("solve",)
        self.on_main_variables = None

    def check_license(self):
        return True

    def set_main_variables(self):
        from PEPit import Point, Expression
        self.events.append(("main_variables", Expression.counter, Point.counter))
        if self.on_main_variables is not None:
            self.on_main_variables()

    def send_constraint_to_solver(self, constraint):
        self._list_of_constraints_sent_to_solver.append(constraint)
        self.events.append(("send", constraint))

    def send_lmi_constraint_to_solver(self, psd_counter, psd_matrix):
        self._list_of_constraints_sent_to_solver.append(psd_matrix)
        self.events.append(("lmi", psd_counter, psd_matrix))

    def generate_problem(self, objective):
        self.objective = objective
        self.events.append(("generate", objective))
        return None

    def solve(self, **kwargs):
        self.events.append(("solve",))
        return "recorded", "none", None


class NoSolveCvxpyWrapper(CvxpyWrapper):
    def solve(self, **kwargs):
        return "not-solved", "none", None


_current = {"factory": None, "last": None}


def _factory(verbose=0):
    w = _current["factory"](verbose=verbose)
    _current["last"] = w
    return w


def install(factory):
    """make PEP.solve(wrapper="harness") build `factory(verbose=...)`; returns a getter of the last instance"""
    import PEPit.wrappers
    import PEPit.pep
    _current["factory"] = factory
    PEPit.wrappers.WRAPPERS[NAME] = _factory
    PEPit.pep.WRAPPERS[NAME] = _factory      # the same dict object unless pep.py stops importing it by name
    return lambda: _current["last"]


def solve_with(pep, factory, solve=None):
    """run pep.solve(wrapper="harness") through `factory`'s wrapper.  `solve` replaces the bound method when
    PEP.solve itself is intercepted (shipped examples).  Returns (wrapper, value returned by solve)."""
    last = install(factory)
    out = (solve or type(pep).solve)(pep, wrapper=NAME, verbose=0)
    return last(), out


class InterceptSolve(object):
    """while active, every PEP.solve(...) call, whatever its arguments, is handed to `handler(pep, original_solve)`
    (class attribute replaced from the harness; restored on exit).  Used to record the solves of the shipped example
    files, some of which do not forward a `wrapper=` argument."""
    def __init__(self, handler):
        self.handler = handler

    def __enter__(self):
        from PEPit.pep import PEP
        self.cls = PEP
        self.orig = PEP.__dict__["solve"]
        handler, orig = self.handler, self.orig

        def solve(pep, *args, **kwargs):
            return handler(pep, orig)
        PEP.solve = solve
        return self

    def __exit__(self, *a):
        self.cls.solve = self.orig
