"""Driving the 24 shipped classes: construction with exactly-representable parameters, recording random
samples through the real API, canonical dumps of the state before / after set_class_constraints().

Used by harness/classgen_stream.py (C04, C17, C03)."""
import random
from fractions import Fraction

from . import terms as T
from .common import coq_q, coq_nat, coq_list, coq_str, Q

INF = float("inf")
PARAMS = {"L": 0, "mu": 1, "M": 2, "D": 3, "beta": 4, "rho": 5}


# class -> admissible parameter draws.  Draws are chosen so that every scalar computed by the class
# formulas is exact in binary floating point (powers of two for L, mu in {0, L/2}, dyadic others).
def _L(rng):
    return rng.choice([0.5, 1, 1.0, 2, 2.0, 4.0])


def draw_params(rng, name):
    if name in ("ConvexFunction", "MonotoneOperator", "NonexpansiveOperator"):
        return {}
    if name in ("SmoothConvexFunction", "SmoothFunction", "ConvexQGFunction", "LipschitzOperator",
                "LinearOperator", "SkewSymmetricLinearOperator"):
        return {"L": _L(rng)}
    if name in ("SmoothStronglyConvexFunction", "SmoothStronglyConvexQuadraticFunction", "SymmetricLinearOperator",
                "LipschitzStronglyMonotoneOperator", "RsiEbFunction"):
        L = _L(rng)
        return {"mu": rng.choice([0, L / 2, L / 2]), "L": L}
    if name in ("StronglyConvexFunction", "StronglyMonotoneOperator"):
        return {"mu": rng.choice([0.5, 1, 2.0, 0.25])}
    if name == "ConvexLipschitzFunction":
        return {"M": rng.choice([0.5, 1, 2.0, 3])}
    if name == "SmoothConvexLipschitzFunction":
        return {"L": _L(rng), "M": rng.choice([0.5, 1, 2.0, 3])}
    if name == "ConvexIndicatorFunction":
        return {"D": rng.choice([INF, INF, 1, 2.0, 0.5])}
    if name == "ConvexSupportFunction":
        return {"M": rng.choice([INF, INF, 1, 2.0, 0.5])}
    if name == "CocoerciveOperator":
        return {"beta": rng.choice([0.5, 1, 2.0, 0.25])}
    if name == "NegativelyComonotoneOperator":
        return {"rho": rng.choice([0.5, 1, 2.0, 0.25])}
    if name == "CocoerciveStronglyMonotoneOperator":
        return {"mu": rng.choice([0.5, 1, 0.25]), "beta": rng.choice([0.5, 1, 0.25])}
    if name == "BlockSmoothConvexFunction":
        d = rng.choice([1, 2, 2, 3])
        return {"d": d, "L": [rng.choice([0.5, 1, 1.0, 2.0, 4]) for _ in range(d)]}
    raise KeyError(name)


FUNCTION_CLASSES = ["ConvexFunction", "ConvexIndicatorFunction", "ConvexLipschitzFunction", "ConvexQGFunction",
                    "ConvexSupportFunction", "RsiEbFunction", "SmoothConvexFunction", "SmoothConvexLipschitzFunction",
                    "SmoothFunction", "SmoothStronglyConvexFunction", "SmoothStronglyConvexQuadraticFunction",
                    "StronglyConvexFunction", "BlockSmoothConvexFunction"]
OPERATOR_CLASSES = ["CocoerciveOperator", "CocoerciveStronglyMonotoneOperator", "LinearOperator", "LipschitzOperator",
                    "LipschitzStronglyMonotoneOperator", "MonotoneOperator", "NegativelyComonotoneOperator",
                    "NonexpansiveOperator", "SkewSymmetricLinearOperator", "StronglyMonotoneOperator",
                    "SymmetricLinearOperator"]
ALL_CLASSES = FUNCTION_CLASSES + OPERATOR_CLASSES     # the 24 shipped classes


def get_class(name):
    import PEPit.functions
    import PEPit.operators
    return getattr(PEPit.functions, name, None) or getattr(PEPit.operators, name)


def rand_point(rng, leaves, maxterms=3):
    """random combination of leaf points with dyadic weights, built with the real operators"""
    k = rng.randint(1, maxterms)
    p = None
    for _ in range(k):
        leaf = rng.choice(leaves)
        w = rng.choice([1, 1, -1, 2, 0.5, -0.5, 3, 0.25, -2])
        term = leaf if w == 1 else w * leaf
        p = term if p is None else p + term
    return p


def rand_expr(rng, xleaves, leaves):
    from PEPit import Expression
    r = rng.random()
    if r < 0.6:
        return Expression()
    if r < 0.8 and xleaves:
        return rng.choice(xleaves) + rng.choice([1, -1, 0.5, 2])
    a, b = rng.choice(leaves), rng.choice(leaves)
    e = Expression() + 0.5 * (a * b)
    return e


# names with braces / format-like fragments: a name is DATA, never a format template (seed C17-9)
POINT_NAMES = ["x0", "xs", "y", "z1", "w", "x_{0}", "x_{*}", "z_{k}", "{}", "%s"]


def declare(pep, rng, name, params, named):
    kwargs = dict(params)
    if name == "BlockSmoothConvexFunction":
        d = kwargs.pop("d")
        kwargs["partition"] = pep.declare_block_partition(d=d)
    if named:
        nm = rng.choice(["f", "h", "A_op", "F1", "f_{0}", "h_{1}", "g_{k}", "f_{}", "{0}%d"])
        how = rng.choice(["constructor", "constructor", "set_name", "renamed"])
        # a name is given at construction, or AFTERWARDS with the documented set_name (possibly replacing an earlier
        # one): constraint names and table labels carry the name the function has when they are generated (seed C17-11)
        if how == "constructor":
            kwargs["name"] = nm
            return pep.declare_function(get_class(name), **kwargs)
        if how == "renamed":
            kwargs["name"] = "old_" + nm
        func = pep.declare_function(get_class(name), **kwargs)
        func.set_name(nm)
        return func
    return pep.declare_function(get_class(name), **kwargs)


def build_function(rng, name, nsamples=None, named=None, stationary_at=None, t_samples=None):
    """fresh PEP; one function of class `name` with random recorded samples, through the real API:
    oracle / gradient / value / stationary_point / fixed_point / add_point, repeated evaluations at the same
    point, the same triplet object added twice, named and unnamed points.  `stationary_at` in
    {None, "first", "middle", "last", "none"} forces where stationary points are declared.
    Returns (func, context)."""
    from PEPit import PEP, Point, Expression
    pep = PEP()
    params = draw_params(rng, name)
    if named is None:
        named = rng.random() < 0.3
    func = declare(pep, rng, name, params, named)
    leaves = [Point() for _ in range(rng.randint(2, 4))]
    xleaves = []
    n = nsamples if nsamples is not None else rng.choice([0, 1, 2, 2, 3, 3, 4, 5])
    kinds = []
    quad = (name == "SmoothStronglyConvexQuadraticFunction")
    if stationary_at is None:
        stationary_at = rng.choice([None, None, "first", "middle", "last", "none"])
    forced = {"first": 0, "middle": n // 2, "last": n - 1}.get(stationary_at, None)
    # how the forced stationary sample is recorded: the leaf's own stationary_point(), add_point with a zero
    # gradient, or stationary_point() of a single-leaf composite
    stat_route = rng.choice(["leaf", "leaf", "add_point", "composite"])
    seen_points = []
    last_triplet = None
    for step in range(n):
        r = rng.random()
        if forced is not None:
            want_stat = (step == forced)
        elif stationary_at == "none":
            want_stat = False
        else:
            want_stat = r < 0.15
        if want_stat and forced is not None and stat_route == "add_point" and not quad:
            x = rand_point(rng, leaves)
            g0 = rng.choice(leaves)
            z = rng.choice([Point(is_leaf=False, decomposition_dict=dict()), g0 - g0, 0 * g0])
            func.add_point((x, z, rand_expr(rng, xleaves, leaves)))
            kinds.append("stationary:add_point_zero_gradient")
        elif want_stat and forced is not None and stat_route == "composite" and not quad:
            c = rng.choice([1, 2, -1, 0.5])
            x = (c * func).stationary_point()
            kinds.append("stationary:composite(%s*f)" % c)
        elif want_stat:
            x = func.stationary_point()     # quadratic class: returns the unique one created by the constructor
            kinds.append("stationary")
        elif r < 0.25:
            x = func.fixed_point()[0]
            kinds.append("fixed")
        elif r < 0.40:
            x = rand_point(rng, leaves)
            func.oracle(x)
            seen_points.append(x)
            kinds.append("oracle")
        elif r < 0.50:
            x = rand_point(rng, leaves)
            func.gradient(x)
            seen_points.append(x)
            kinds.append("gradient")
        elif r < 0.60 and seen_points:
            # repeated evaluation at an already evaluated point (same Point object, or an equal new one)
            x = rng.choice(seen_points)
            if rng.random() < 0.5:
                func.oracle(x)
            else:
                func.value(x)
            kinds.append("repeat")
        elif r < 0.66 and last_triplet is not None:
            func.add_point(last_triplet)     # the very same tuple object a second time
            x = last_triplet[0]
            kinds.append("same_triplet")
        elif r < 0.72 and func.list_of_points:
            # same Point objects x and g, another function value (BlockSmooth once compared the triplets with ==)
            x0, g0, _ = rng.choice(func.list_of_points)
            last_triplet = (x0, g0, rand_expr(rng, xleaves, leaves))
            func.add_point(last_triplet)
            x = x0
            kinds.append("same_x_g")
        elif r < 0.78:
            # a minimiser recorded through add_point: zero-gradient Point (empty dictionary, a difference g - g,
            # or 0 * g whose dictionary only prunes to empty)
            x = rand_point(rng, leaves)
            g0 = rng.choice(leaves)
            z = rng.choice([lambda: Point(is_leaf=False, decomposition_dict=dict()), lambda: g0 - g0,
                            lambda: 0 * g0])()
            last_triplet = (x, z, rand_expr(rng, xleaves, leaves))
            func.add_point(last_triplet)
            seen_points.append(x)
            kinds.append("add_point_zero_gradient")
        elif r < 0.84:
            # a minimiser declared on a single-leaf composite: the leaf receives (xs, 0 / c, F(xs) / c) by add_point
            c = rng.choice(["1*", "2*", "-", "/2"])
            F = {"1*": lambda: 1 * func, "2*": lambda: 2 * func, "-": lambda: -func, "/2": lambda: func / 2}[c]()
            x = F.stationary_point()
            kinds.append("composite_stationary(%sf)" % c)
        else:
            x = rand_point(rng, leaves)
            g = rand_point(rng, leaves) if rng.random() < 0.8 else Point()
            f = rand_expr(rng, xleaves, leaves)
            last_triplet = (x, g, f)
            func.add_point(last_triplet)
            seen_points.append(x)
            kinds.append("add_point")
        if rng.random() < 0.25 and func.list_of_points:
            func.list_of_points[-1][0].set_name(rng.choice(POINT_NAMES))
    if name == "LinearOperator":
        for _ in range(rng.choice([0, 1, 2, 3]) if t_samples is None else t_samples):
            u = rand_point(rng, leaves)
            func.T.gradient(u)
            kinds.append("T.gradient")
            if rng.random() < 0.25:
                func.T.list_of_points[-1][0].set_name(rng.choice(POINT_NAMES))
    if name == "NonexpansiveOperator" and rng.random() < 0.5:
        func.v = rng.choice([Point(), rand_point(rng, leaves)])
        kinds.append("v")
    return func, dict(params=params, kinds=kinds, named=named, pep=pep, stationary_at=stationary_at)


# ------------------------------------------------------------------ dumps
class ObjIds(object):
    """object identity -> small integer, in order of first request (keeps the objects alive, so that ids stay
    unique)"""
    def __init__(self):
        self.ids = {}
        self.keep = []

    def get(self, o):
        k = id(o)
        if k not in self.ids:
            self.ids[k] = len(self.ids)
            self.keep.append(o)
        return self.ids[k]

    def __len__(self):
        return len(self.ids)


def leaf_maps():
    from PEPit import Point, Expression
    pid = T.IdMap()
    for p in Point.list_of_leaf_points:
        pid.add(p, p.counter)
    xid = T.IdMap()
    for e in Expression.list_of_leaf_expressions:
        xid.add(e, e.counter)
    return pid, xid


def py_sample(tr, pid, xid, oid):
    """dump of one recorded triplet (what Model.ClassDump.dump_sample prints)"""
    x, g, f = tr
    return [T.dump_pdict(x.decomposition_dict, pid), T.dump_pdict(g.decomposition_dict, pid),
            T.dump_edict(f.decomposition_dict, pid, xid), [] if x.get_name() is None else [x.get_name()],
            oid.get(tr)]


def coq_pd(items):
    return coq_list(["(%s, %s)" % (coq_nat(k), coq_q(v.v)) for k, v in items])


def coq_ek(k):
    if k[0] == 0:
        return "KF %s" % coq_nat(k[1])
    if k[0] == 1:
        return "KG %s %s" % (coq_nat(k[1]), coq_nat(k[2]))
    return "K1"


def coq_ed(items):
    return coq_list(["(%s, %s)" % (coq_ek(k), coq_q(v.v)) for k, v in items])


def coq_sample(tr, pid, xid, oid, partition=None):
    x, g, f = tr
    uid = oid.get(tr)
    xi, gi = oid.get(x), oid.get(g)
    blocks = []
    if partition is not None:
        blocks = [coq_pd(T.dump_pdict(partition.get_block(g, k).decomposition_dict, pid))
                  for k in range(partition.get_nb_blocks())]
    nm = x.get_name()
    return "(mkSample %s %s %s %s %s %s %s %s)" % (
        coq_pd(T.dump_pdict(x.decomposition_dict, pid)), coq_pd(T.dump_pdict(g.decomposition_dict, pid)),
        coq_ed(T.dump_edict(f.decomposition_dict, pid, xid)),
        "None" if nm is None else "(Some %s)" % coq_str(nm), coq_nat(uid), coq_nat(xi), coq_nat(gi),
        coq_list(blocks))


def coq_state(fid, par, inf, pts, stat, tpts, v, oid, partition=None, Lk=None, next_point=None, next_expr=None):
    """Coq literal of Model.ClassGen.fstate.  pts / stat / tpts: lists of triplets (Python objects)."""
    from PEPit import Point, Expression
    # every gradient must be partitioned before leaf ids are collected (get_block creates leaf points)
    if partition is not None:
        for tr in list(pts) + list(stat) + list(tpts):
            partition.get_block(tr[1], 0)
    pid, xid = leaf_maps()
    # identities: tuple, x, g of every sample, in list order (the model's auto_stationary follows the same rule)
    for tr in list(pts) + list(stat) + list(tpts):
        oid.get(tr), oid.get(tr[0]), oid.get(tr[1])
    parf = "(fun p => match p with %s | _ => 0%%Q end)" % " ".join(
        "| %s => %s" % (coq_nat(i), coq_q(v_)) for i, v_ in sorted(par.items())) if par else "(fun _ => 0%Q)"
    inff = "(fun p => match p with %s | _ => false end)" % " ".join(
        "| %s => true" % coq_nat(i) for i in sorted(inf)) if inf else "(fun _ => false)"
    vlit = "None" if v is None else "(Some %s)" % coq_pd(T.dump_pdict(v.decomposition_dict, pid))
    nb = partition.get_nb_blocks() if partition is not None else 0
    if Lk:
        lkf = "(fun k => match k with %s | _ => 0%%Q end)" % " ".join(
            "| %s => %s" % (coq_nat(i), coq_q(T.to_fraction(v_))) for i, v_ in enumerate(Lk))
    else:
        lkf = "(fun _ => 0%Q)"
    samples = lambda l: coq_list([coq_sample(t, pid, xid, oid, partition) for t in l])
    return "(mkF %s %s %s %s %s %s %s %s %s %s %s %s)" % (
        coq_str(fid), parf, inff, samples(pts), samples(stat), samples(tpts), vlit,
        coq_nat(Point.counter if next_point is None else next_point),
        coq_nat(Expression.counter if next_expr is None else next_expr),
        coq_nat(len(oid)), coq_nat(nb), lkf)


def T_prune_empty(point):
    """the point's decomposition dictionary prunes to the empty dictionary (the point denotes 0 syntactically)"""
    return all(v == 0 for v in point.decomposition_dict.values())


def function_id(func):
    fid = func.get_name()
    if fid is None:
        fid = "Function_{}".format(func.counter)
    return fid


def coq_fstate(func, oid=None, declared=None):
    """Coq literal of the function's current state (call it BEFORE set_class_constraints; for
    BlockSmoothConvexFunction every recorded gradient is partitioned first, so that generation creates no point).
    `declared` = the keyword arguments the function was DECLARED with: the model is given those, not what the
    constructor stored (seed C04-12: `mu or -L` turning the declared mu = 0 into -L)."""
    if oid is None:
        oid = ObjIds()
    par, inf = {}, {}
    for nm, idx in PARAMS.items():
        if hasattr(func, nm) and not isinstance(getattr(func, nm), list):
            val = getattr(func, nm)
            if declared is not None and nm in declared and not isinstance(declared[nm], list):
                val = declared[nm]
            if val == INF:
                inf[idx] = True
                par[idx] = Fraction(0)
            else:
                par[idx] = T.to_fraction(val)
    partition = getattr(func, "partition", None)
    Lk = func.L if partition is not None else None
    if partition is not None and not isinstance(Lk, list):
        Lk = [Lk]
    tpts = func.T.list_of_points if hasattr(func, "T") else []
    return coq_state(function_id(func), par, inf, func.list_of_points, func.list_of_stationary_points, tpts,
                     getattr(func, "v", None), oid, partition=partition, Lk=Lk)


def py_citem(c, pid, xid):
    return [[] if c.get_name() is None else [c.get_name()], T.dump_constraint(c, pid, xid)]


class RecDict(dict):
    """tables_of_constraints with a record of the keys assigned during one generation (a Python dict keeps the
    position of a key that is assigned again, so after a regeneration its order depends on the history; the model
    has no memory: tables are dumped in the order they were written by THIS generation, tables that were not
    rewritten after them)"""
    def __init__(self, *a):
        super().__init__(*a)
        self.written = []

    def __setitem__(self, k, v):
        if k in self.written:
            self.written.remove(k)
        self.written.append(k)
        super().__setitem__(k, v)

    def order(self):
        return list(self.written) + [k for k in self.keys() if k not in self.written]


def table_order(func):
    t = func.tables_of_constraints
    return t.order() if isinstance(t, RecDict) else list(t.keys())


def py_tables(func, pid, xid):
    """tables_of_constraints, cell by cell: [] for a scalar, [position in list_of_class_constraints, object]"""
    from PEPit.constraint import Constraint
    pos = {id(c): k for k, c in enumerate(func.list_of_class_constraints)}
    tables = []
    for cname in table_order(func):
        df = func.tables_of_constraints[cname]
        rows = []
        for row in df.values:
            rows.append([[pos.get(id(el), -1), py_citem(el, pid, xid)] if isinstance(el, Constraint) else []
                         for el in row])
        tables.append([cname, rows, [str(x) for x in df.index], [str(x) for x in df.columns], str(df.columns.name)])
    return tables


def dual_tag(p):
    """the dual value injected on the p-th class constraint: -1/4, 3/4, -5/4, 7/4, ... (both signs, pairwise
    distinct, never 0, exact in binary floating point); mirror of Model.ClassDump.dual_tag"""
    return (-1.0 if p % 2 == 0 else 1.0) * (2 * p + 1) / 4.0


POISON = 12345.5


def py_duals(func):
    """store dual_tag(p) as dual value of the p-th class constraint, then read the real accessor (objects sitting in
    the tables are first poisoned: a table that still holds objects of a previous generation reports the poison)"""
    from PEPit.constraint import Constraint
    for df in func.tables_of_constraints.values():
        for row in df.values:
            for el in row:
                if isinstance(el, Constraint):
                    el._dual_variable_value = POISON
    for k, c in enumerate(func.list_of_class_constraints):
        c._dual_variable_value = dual_tag(k)
    out = []
    duals = func.get_class_constraints_duals()
    for cname in [k for k in table_order(func) if k in duals] + [k for k in duals if k not in func.tables_of_constraints]:
        out.append([cname, [[Q(T.to_fraction(v)) for v in row] for row in duals[cname].values]])
    return out


def py_genout(func, oid, points=None, stat=None):
    """expected dump of Model.ClassDump.dump_genout after func.set_class_constraints()"""
    from PEPit import Point, Expression
    pid, xid = leaf_maps()
    cons = [py_citem(c, pid, xid) for c in func.list_of_class_constraints]
    lmis = []
    for m in func.list_of_class_psd:
        lmis.append([[T.dump_edict(e.decomposition_dict, pid, xid) for e in row] for row in m.matrix_of_expressions])
    points = func.list_of_points if points is None else points
    stat = func.list_of_stationary_points if stat is None else stat
    return [cons, lmis, py_tables(func, pid, xid), py_duals(func),
            [py_sample(t, pid, xid, oid) for t in points], [py_sample(t, pid, xid, oid) for t in stat],
            Point.counter, Expression.counter]
