"""Driving the 24 shipped classes: construction with exactly-representable parameters, recording random
samples through the real API, canonical dumps of the state before / after set_class_constraints()."""
import importlib
import random
from fractions import Fraction

from . import terms as T
from .common import coq_q, coq_nat, coq_list, coq_str, Q

INF = float("inf")
PARAMS = {"L": 0, "mu": 1, "M": 2, "D": 3, "beta": 4, "rho": 5}

# class -> (module, admissible parameter draws).  Draws are chosen so that every scalar computed by the
# class formulas is exact in binary floating point (powers of two for L, mu in {0, L/2}, dyadic others).
def _L(rng):
    return rng.choice([0.5, 1, 1.0, 2, 2.0, 4.0])


def draw_params(rng, name):
    if name in ("ConvexFunction", "MonotoneOperator", "NonexpansiveOperator"):
        return {}
    if name in ("SmoothConvexFunction", "SmoothFunction", "ConvexQGFunction", "LipschitzOperator",
                "LinearOperator", "SkewSymmetricLinearOperator"):
        return {"L": _L(rng)}
    if name in ("SmoothStronglyConvexFunction", "SmoothStronglyConvexQuadraticFunction", "SymmetricLinearOperator",
                "LipschitzStronglyMonotoneOperator", "RsiEbFunction"):
        L = _L(rng)
        return {"mu": rng.choice([0, L / 2, L / 2]), "L": L}
    if name in ("StronglyConvexFunction", "StronglyMonotoneOperator"):
        return {"mu": rng.choice([0.5, 1, 2.0, 0.25])}
    if name == "ConvexLipschitzFunction":
        return {"M": rng.choice([0.5, 1, 2.0, 3])}
    if name == "SmoothConvexLipschitzFunction":
        return {"L": _L(rng), "M": rng.choice([0.5, 1, 2.0, 3])}
    if name == "ConvexIndicatorFunction":
        return {"D": rng.choice([INF, INF, 1, 2.0, 0.5])}
    if name == "ConvexSupportFunction":
        return {"M": rng.choice([INF, INF, 1, 2.0, 0.5])}
    if name == "CocoerciveOperator":
        return {"beta": rng.choice([0.5, 1, 2.0, 0.25])}
    if name == "NegativelyComonotoneOperator":
        return {"rho": rng.choice([0.5, 1, 2.0, 0.25])}
    if name == "CocoerciveStronglyMonotoneOperator":
        return {"mu": rng.choice([0.5, 1, 0.25]), "beta": rng.choice([0.5, 1, 0.25])}
    raise KeyError(name)


FUNCTION_CLASSES = ["ConvexFunction", "ConvexIndicatorFunction", "ConvexLipschitzFunction", "ConvexQGFunction",
                    "ConvexSupportFunction", "RsiEbFunction", "SmoothConvexFunction", "SmoothConvexLipschitzFunction",
                    "SmoothFunction", "SmoothStronglyConvexFunction", "SmoothStronglyConvexQuadraticFunction",
                    "StronglyConvexFunction"]
OPERATOR_CLASSES = ["CocoerciveOperator", "CocoerciveStronglyMonotoneOperator", "LinearOperator", "LipschitzOperator",
                    "LipschitzStronglyMonotoneOperator", "MonotoneOperator", "NegativelyComonotoneOperator",
                    "NonexpansiveOperator", "SkewSymmetricLinearOperator", "StronglyMonotoneOperator",
                    "SymmetricLinearOperator"]
ALL_CLASSES = FUNCTION_CLASSES + OPERATOR_CLASSES     # BlockSmoothConvexFunction is driven by the blocks harness


def get_class(name):
    import PEPit.functions
    import PEPit.operators
    return getattr(PEPit.functions, name, None) or getattr(PEPit.operators, name)


def rand_point(rng, leaves, maxterms=3):
    """random combination of leaf points with dyadic weights, built with the real operators"""
    k = rng.randint(1, maxterms)
    p = None
    for _ in range(k):
        leaf = rng.choice(leaves)
        w = rng.choice([1, 1, -1, 2, 0.5, -0.5, 3, 0.25, -2])
        term = leaf if w == 1 else w * leaf
        p = term if p is None else p + term
    return p


def rand_expr(rng, xleaves, leaves):
    from PEPit import Expression
    r = rng.random()
    if r < 0.6:
        return Expression()
    if r < 0.8 and xleaves:
        return rng.choice(xleaves) + rng.choice([1, -1, 0.5, 2])
    a, b = rng.choice(leaves), rng.choice(leaves)
    e = Expression() + 0.5 * (a * b)
    return e


def build_function(rng, name, nsamples=None, named=None):
    """fresh PEP; one function of class `name` with random recorded samples.  Returns (func, context)"""
    from PEPit import PEP, Point, Expression
    pep = PEP()
    params = draw_params(rng, name)
    kwargs = dict(params)
    if named is None:
        named = rng.random() < 0.3
    if named:
        kwargs["name"] = rng.choice(["f", "h", "A_op", "F1"])
    func = pep.declare_function(get_class(name), **kwargs)
    leaves = [Point() for _ in range(rng.randint(2, 4))]
    xleaves = []
    n = nsamples if nsamples is not None else rng.choice([0, 1, 2, 2, 3, 3, 4])
    kinds = []
    for _ in range(n):
        r = rng.random()
        if r < 0.15 and name != "SmoothStronglyConvexQuadraticFunction":
            x = func.stationary_point()
            kinds.append("stationary")
        elif r < 0.25:
            func.fixed_point()
            kinds.append("fixed")
        elif r < 0.5:
            x = rand_point(rng, leaves)
            func.oracle(x)
            kinds.append("oracle")
        else:
            x = rand_point(rng, leaves)
            g = rand_point(rng, leaves) if rng.random() < 0.8 else Point()
            f = rand_expr(rng, xleaves, leaves)
            func.add_point((x, g, f))
            kinds.append("add_point")
        if rng.random() < 0.25 and func.list_of_points:
            func.list_of_points[-1][0].set_name(rng.choice(["x0", "xs", "y", "z1"]))
    if name == "LinearOperator":
        for _ in range(rng.choice([0, 1, 2, 3])):
            u = rand_point(rng, leaves)
            func.T.gradient(u)
            kinds.append("T.gradient")
    if name == "NonexpansiveOperator" and rng.random() < 0.5:
        func.v = rng.choice([Point(), rand_point(rng, leaves)])
        kinds.append("v")
    return func, dict(params=params, kinds=kinds, named=named, pep=pep)


# ------------------------------------------------------------------ dumps
def leaf_maps():
    from PEPit import Point, Expression
    pid = T.IdMap()
    for p in Point.list_of_leaf_points:
        pid.add(p, p.counter)
    xid = T.IdMap()
    for e in Expression.list_of_leaf_expressions:
        xid.add(e, e.counter)
    return pid, xid


def py_sample(tr, pid, xid):
    x, g, f = tr
    return [T.dump_pdict(x.decomposition_dict, pid), T.dump_pdict(g.decomposition_dict, pid),
            T.dump_edict(f.decomposition_dict, pid, xid), [] if x.get_name() is None else [x.get_name()]]


def coq_pd(items):
    return coq_list(["(%s, %s)" % (coq_nat(k), coq_q(v.v)) for k, v in items])


def coq_ek(k):
    if k[0] == 0:
        return "KF %s" % coq_nat(k[1])
    if k[0] == 1:
        return "KG %s %s" % (coq_nat(k[1]), coq_nat(k[2]))
    return "K1"


def coq_ed(items):
    return coq_list(["(%s, %s)" % (coq_ek(k), coq_q(v.v)) for k, v in items])


def coq_sample(s):
    return "mkSample %s %s %s %s" % (coq_pd(s[0]), coq_pd(s[1]), coq_ed(s[2]),
                                     ("(Some %s)" % coq_str(s[3][0])) if s[3] else "None")


def coq_fstate(func):
    """Coq literal of Model.ClassGen.fstate for the function's current state"""
    from PEPit import Point, Expression
    pid, xid = leaf_maps()
    fid = func.get_name()
    if fid is None:
        fid = "Function_{}".format(func.counter)
    par = {}
    inf = {}
    for nm, idx in PARAMS.items():
        if hasattr(func, nm) and not isinstance(getattr(func, nm), list):
            v = getattr(func, nm)
            if v == INF:
                inf[idx] = True
                par[idx] = Fraction(0)
            else:
                par[idx] = T.to_fraction(v)
    parf = "(fun p => match p with %s | _ => 0%%Q end)" % " ".join(
        "| %s => %s" % (coq_nat(i), coq_q(v)) for i, v in sorted(par.items())) if par else "(fun _ => 0%Q)"
    inff = "(fun p => match p with %s | _ => false end)" % " ".join(
        "| %s => true" % coq_nat(i) for i in sorted(inf)) if inf else "(fun _ => false)"
    pts = [py_sample(t, pid, xid) for t in func.list_of_points]
    stat = [py_sample(t, pid, xid) for t in func.list_of_stationary_points]
    tpts = [py_sample(t, pid, xid) for t in func.T.list_of_points] if hasattr(func, "T") else []
    v = getattr(func, "v", None)
    vlit = "None" if v is None else "(Some %s)" % coq_pd(T.dump_pdict(v.decomposition_dict, pid))
    return "mkF %s %s %s %s %s %s %s %s %s" % (
        coq_str(fid), parf, inff, coq_list([coq_sample(s) for s in pts]), coq_list([coq_sample(s) for s in stat]),
        coq_list([coq_sample(s) for s in tpts]), vlit, coq_nat(Point.counter), coq_nat(Expression.counter))


def py_citem(c, pid, xid):
    return [[] if c.get_name() is None else [c.get_name()], T.dump_constraint(c, pid, xid)]


def py_genout(func, n_psd_before):
    """expected dump of Model.ClassDump.dump_genout after func.set_class_constraints()"""
    import numpy as np
    from PEPit import Point, Expression
    from PEPit.constraint import Constraint
    pid, xid = leaf_maps()
    cons = [py_citem(c, pid, xid) for c in func.list_of_class_constraints]
    lmis = []
    for m in func.list_of_class_psd[n_psd_before:]:
        lmis.append([[T.dump_edict(e.decomposition_dict, pid, xid) for e in row] for row in m.matrix_of_expressions])
    tables = []
    for cname, df in func.tables_of_constraints.items():
        rows = []
        vals = df.values if hasattr(df, "values") else df
        for row in vals:
            rows.append([py_citem(el, pid, xid) if isinstance(el, Constraint) else [] for el in row])
        tables.append([cname, rows])
    return [cons, lmis, tables, [py_sample(t, pid, xid) for t in func.list_of_points],
            [py_sample(t, pid, xid) for t in func.list_of_stationary_points], Point.counter, Expression.counter]
