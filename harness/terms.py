"""DSL syntax trees shared by generators, the implementation driver and the Coq renderer.

A tree is a nested tuple whose head names a constructor of Model/Terms.v (with Left/Right variants
for the reflected operators, which the Coq side merges exactly as Python's dispatch does)."""
import random
import warnings
from fractions import Fraction

from .common import coq_q, coq_nat, to_fraction


# ------------------------------------------------------------------ scalars
def rand_scalar(rng, allow_zero=True):
    """dyadic scalar with <= 4 significant bits; int or float at random (both are accepted kinds)"""
    while True:
        k = rng.randint(-8, 8)
        if k == 0 and not allow_zero:
            continue
        break
    den = rng.choice([1, 1, 2, 4])
    f = Fraction(k, den)
    if f.denominator == 1 and rng.random() < 0.5:
        return int(f)
    return float(f)


def rand_divisor(rng):
    return rng.choice([1, -1, 2, -2, 4, 0.5, -0.5, 2.0, 4.0, 0.25])


# ------------------------------------------------------------------ generation
def gen_point(rng, depth, nvars, nscal=2):
    if depth <= 0 or rng.random() < 0.2:
        return ("PVar", rng.randrange(nvars))
    ops = ["PAdd", "PSub", "PNeg"] + (["PScalL", "PScalR", "PDiv"] if nscal > 0 else [])
    op = rng.choice(ops)
    if op in ("PAdd", "PSub"):
        a = gen_point(rng, depth - 1, nvars, nscal)
        # repeated / cancelling operands on purpose
        b = a if rng.random() < 0.15 else gen_point(rng, depth - 1, nvars, nscal)
        return (op, a, b)
    if op == "PNeg":
        return (op, gen_point(rng, depth - 1, nvars, nscal))
    if op == "PScalL":
        return (op, rand_scalar(rng), gen_point(rng, depth - 1, nvars, nscal - 1))
    if op == "PScalR":
        return (op, gen_point(rng, depth - 1, nvars, nscal - 1), rand_scalar(rng))
    return (op, gen_point(rng, depth - 1, nvars, nscal - 1), rand_divisor(rng))


def gen_expr(rng, depth, nvars, nxvars, nscal=2):
    if depth <= 0 or rng.random() < 0.15:
        r = rng.random()
        if r < 0.35:
            return ("XVar", rng.randrange(nxvars))
        if r < 0.8:
            a = gen_point(rng, 2, nvars)
            b = gen_point(rng, 2, nvars)
            if rng.random() < 0.2:   # mirrored product somewhere else in the tree is likely
                a, b = b, a
            return ("XInner", a, b)
        return ("XSq", gen_point(rng, 2, nvars))
    ops = ["XAdd", "XSub", "XAddS", "XSAdd", "XSubS", "XSSub", "XNeg"] + \
          (["XScalL", "XScalR", "XDiv"] if nscal > 0 else [])
    op = rng.choice(ops)
    if op in ("XAdd", "XSub"):
        a = gen_expr(rng, depth - 1, nvars, nxvars, nscal)
        r = rng.random()
        if r < 0.12:
            b = a
        elif r < 0.24 and a[0] == "XInner":
            b = ("XInner", a[2], a[1])       # mirrored inner product
        else:
            b = gen_expr(rng, depth - 1, nvars, nxvars, nscal)
        return (op, a, b)
    if op == "XNeg":
        return (op, gen_expr(rng, depth - 1, nvars, nxvars, nscal))
    if op in ("XAddS", "XSubS"):
        return (op, gen_expr(rng, depth - 1, nvars, nxvars, nscal), rand_scalar(rng))
    if op in ("XSAdd", "XSSub"):
        return (op, rand_scalar(rng), gen_expr(rng, depth - 1, nvars, nxvars, nscal))
    if op == "XScalL":
        return (op, rand_scalar(rng), gen_expr(rng, depth - 1, nvars, nxvars, nscal - 1))
    if op == "XScalR":
        return (op, gen_expr(rng, depth - 1, nvars, nxvars, nscal - 1), rand_scalar(rng))
    return (op, gen_expr(rng, depth - 1, nvars, nxvars, nscal - 1), rand_divisor(rng))


CMP_XX = ["CLe", "CGe", "CEq", "CLt", "CGt"]
CMP_XS = ["CLeS", "CGeS", "CEqS", "CLtS", "CGtS"]
CMP_SX = ["CSLe", "CSGe", "CSEq", "CSLt", "CSGt"]


def gen_cons(rng, depth, nvars, nxvars):
    r = rng.random()
    if r < 0.5:
        return (rng.choice(CMP_XX), gen_expr(rng, depth, nvars, nxvars), gen_expr(rng, depth, nvars, nxvars))
    if r < 0.75:
        return (rng.choice(CMP_XS), gen_expr(rng, depth, nvars, nxvars), rand_scalar(rng))
    return (rng.choice(CMP_SX), rand_scalar(rng), gen_expr(rng, depth, nvars, nxvars))


def size(t):
    if not isinstance(t, tuple):
        return 0
    return 1 + sum(size(x) for x in t[1:])


def kind(t):
    h = t[0]
    return "P" if h.startswith("P") else "X" if h.startswith("X") else "C"


# ------------------------------------------------------------------ implementation side
def py_eval(t, P, X):
    """apply the real operators.  P, X: lists of the objects bound to point / expression variables"""
    h = t[0]
    if h == "PVar":
        return P[t[1]]
    if h == "XVar":
        return X[t[1]]
    if h in ("PAdd", "XAdd"):
        return py_eval(t[1], P, X) + py_eval(t[2], P, X)
    if h in ("PSub", "XSub"):
        return py_eval(t[1], P, X) - py_eval(t[2], P, X)
    if h in ("PNeg", "XNeg"):
        return -py_eval(t[1], P, X)
    if h in ("PScalL", "XScalL"):
        return t[1] * py_eval(t[2], P, X)
    if h in ("PScalR", "XScalR"):
        return py_eval(t[1], P, X) * t[2]
    if h in ("PDiv", "XDiv"):
        return py_eval(t[1], P, X) / t[2]
    if h == "XInner":
        return py_eval(t[1], P, X) * py_eval(t[2], P, X)
    if h == "XSq":
        return py_eval(t[1], P, X) ** 2
    if h == "XAddS":
        return py_eval(t[1], P, X) + t[2]
    if h == "XSAdd":
        return t[1] + py_eval(t[2], P, X)
    if h == "XSubS":
        return py_eval(t[1], P, X) - t[2]
    if h == "XSSub":
        return t[1] - py_eval(t[2], P, X)
    with warnings.catch_warnings():
        warnings.simplefilter("ignore")
        if h in ("CLe", "CLeS"):
            return py_eval(t[1], P, X) <= (py_eval(t[2], P, X) if h == "CLe" else t[2])
        if h in ("CLt", "CLtS"):
            return py_eval(t[1], P, X) < (py_eval(t[2], P, X) if h == "CLt" else t[2])
        if h in ("CGe", "CGeS"):
            return py_eval(t[1], P, X) >= (py_eval(t[2], P, X) if h == "CGe" else t[2])
        if h in ("CGt", "CGtS"):
            return py_eval(t[1], P, X) > (py_eval(t[2], P, X) if h == "CGt" else t[2])
        if h in ("CEq", "CEqS"):
            return py_eval(t[1], P, X) == (py_eval(t[2], P, X) if h == "CEq" else t[2])
        if h == "CSLe":
            return t[1] <= py_eval(t[2], P, X)
        if h == "CSLt":
            return t[1] < py_eval(t[2], P, X)
        if h == "CSGe":
            return t[1] >= py_eval(t[2], P, X)
        if h == "CSGt":
            return t[1] > py_eval(t[2], P, X)
        if h == "CSEq":
            return t[1] == py_eval(t[2], P, X)
    raise ValueError(h)


def dump_pdict(d, pid):
    """pid: Point object -> model id"""
    return [[pid[k], _q(v)] for k, v in d.items()]


def _q(v):
    from .common import Q
    return Q(v)


def dump_ekey(k, pid, xid):
    if isinstance(k, tuple):
        return [1, pid[k[0]], pid[k[1]]]
    if type(k).__name__ == "Expression":
        return [0, xid[k]]
    if isinstance(k, int) and not hasattr(k, "decomposition_dict") and k == 1:
        return [2]
    raise TypeError("unexpected expression key %r" % (k,))


def dump_edict(d, pid, xid):
    return [[dump_ekey(k, pid, xid), _q(v)] for k, v in d.items()]


def dump_constraint(c, pid, xid):
    return [dump_edict(c.expression.decomposition_dict, pid, xid),
            {"inequality": 0, "equality": 1}[c.equality_or_inequality]]


class IdMap(dict):
    """identity-keyed map for objects whose __eq__ is overloaded (Expression)"""
    def __init__(self, objs=()):
        super().__init__()
        for i, o in enumerate(objs):
            self[id(o)] = i

    def __getitem__(self, o):
        return dict.__getitem__(self, id(o))

    def add(self, o, i):
        dict.__setitem__(self, id(o), i)

    def has(self, o):
        return dict.__contains__(self, id(o))


# ------------------------------------------------------------------ Coq side
def coq_s(s):
    return "(SNum %s)" % coq_q(s)


def coq_term(t):
    h = t[0]
    if h in ("PVar", "XVar"):
        return "(%s %s)" % (h, coq_nat(t[1]))
    if h in ("PAdd", "PSub", "XAdd", "XSub", "XInner"):
        return "(%s %s %s)" % (h, coq_term(t[1]), coq_term(t[2]))
    if h in ("PNeg", "XNeg", "XSq"):
        return "(%s %s)" % (h, coq_term(t[1]))
    if h in ("PScalL", "XScalL"):
        return "(%s %s %s)" % (h[:-1], coq_s(t[1]), coq_term(t[2]))
    if h in ("PScalR", "XScalR"):
        return "(%s %s %s)" % (h[:-1], coq_s(t[2]), coq_term(t[1]))
    if h in ("PDiv", "XDiv", "XAddS", "XSubS"):
        return "(%s %s %s)" % (h, coq_term(t[1]), coq_s(t[2]))
    if h == "XSAdd":
        return "(XAddS %s %s)" % (coq_term(t[2]), coq_s(t[1]))
    if h == "XSSub":
        return "(XSSub %s %s)" % (coq_s(t[1]), coq_term(t[2]))
    base = {"CLt": "CLe", "CGt": "CGe", "CLtS": "CLeS", "CGtS": "CGeS", "CSLt": "CSLe", "CSGt": "CSGe"}.get(h, h)
    if base in ("CLe", "CGe", "CEq"):
        return "(%s %s %s)" % (base, coq_term(t[1]), coq_term(t[2]))
    if base in ("CLeS", "CGeS", "CEqS"):
        return "(%s %s %s)" % (base, coq_term(t[1]), coq_s(t[2]))
    if base in ("CSLe", "CSGe", "CSEq"):
        return "(%s %s %s)" % (base, coq_s(t[1]), coq_term(t[2]))
    raise ValueError(h)


# ------------------------------------------------------------------ independent meaning (for failing-input search)
def vec_add(u, v):
    return [a + b for a, b in zip(u, v)]


def vec_scal(c, u):
    return [c * a for a in u]


def dot(u, v):
    return sum(a * b for a, b in zip(u, v))


def sem(t, PV, XV):
    """mathematical meaning of a tree over Fractions: PV point-variable vectors, XV expression-variable numbers.
    For constraints returns (left-minus-right as written for <=/==, right-minus-left for >=, sense)."""
    h = t[0]
    F = to_fraction
    if h == "PVar":
        return PV[t[1]]
    if h == "XVar":
        return XV[t[1]]
    if h == "PAdd":
        return vec_add(sem(t[1], PV, XV), sem(t[2], PV, XV))
    if h == "PSub":
        return vec_add(sem(t[1], PV, XV), vec_scal(-1, sem(t[2], PV, XV)))
    if h == "PNeg":
        return vec_scal(-1, sem(t[1], PV, XV))
    if h == "PScalL":
        return vec_scal(F(t[1]), sem(t[2], PV, XV))
    if h == "PScalR":
        return vec_scal(F(t[2]), sem(t[1], PV, XV))
    if h == "PDiv":
        return vec_scal(1 / F(t[2]), sem(t[1], PV, XV))
    if h == "XInner":
        return dot(sem(t[1], PV, XV), sem(t[2], PV, XV))
    if h == "XSq":
        u = sem(t[1], PV, XV)
        return dot(u, u)
    if h == "XAdd":
        return sem(t[1], PV, XV) + sem(t[2], PV, XV)
    if h == "XSub":
        return sem(t[1], PV, XV) - sem(t[2], PV, XV)
    if h == "XNeg":
        return -sem(t[1], PV, XV)
    if h == "XAddS":
        return sem(t[1], PV, XV) + F(t[2])
    if h == "XSAdd":
        return F(t[1]) + sem(t[2], PV, XV)
    if h == "XSubS":
        return sem(t[1], PV, XV) - F(t[2])
    if h == "XSSub":
        return F(t[1]) - sem(t[2], PV, XV)
    if h == "XScalL":
        return F(t[1]) * sem(t[2], PV, XV)
    if h == "XScalR":
        return F(t[2]) * sem(t[1], PV, XV)
    if h == "XDiv":
        return sem(t[1], PV, XV) / F(t[2])
    a = sem(t[1], PV, XV) if isinstance(t[1], tuple) else F(t[1])
    b = sem(t[2], PV, XV) if isinstance(t[2], tuple) else F(t[2])
    if h in ("CLe", "CLt", "CLeS", "CLtS", "CSLe", "CSLt"):
        return (a - b, 0)
    if h in ("CGe", "CGt", "CGeS", "CGtS", "CSGe", "CSGt"):
        return (b - a, 0)
    if h in ("CEq", "CEqS"):
        return (a - b, 1)
    if h == "CSEq":
        return (b - a, 1)   # reflected: the object built is (expr - scalar)
    raise ValueError(h)


def eval_pdict_items(items, PV):
    """items: [(leaf index, Fraction)]"""
    dim = len(PV[0]) if PV else 0
    acc = [Fraction(0)] * dim
    for k, v in items:
        acc = vec_add(acc, vec_scal(v, PV[k]))
    return acc


def eval_edict_items(items, PV, XV):
    acc = Fraction(0)
    for k, v in items:
        if k[0] == 0:
            acc += v * XV[k[1]]
        elif k[0] == 1:
            acc += v * dot(PV[k[1]], PV[k[2]])
        else:
            acc += v
    return acc
