"""Shared plumbing of the checks: paths, Coq literals, running generated case files through coqc,
building the proof closure of a property, evidence files."""
import fcntl
import hashlib
import json
import os
import re
import shutil
import subprocess
import sys
import time
from fractions import Fraction

VERIF = os.path.dirname(os.path.dirname(os.path.abspath(__file__)))
REPO = os.environ.get("PEPIT_REPO", "/repo")
COQ = os.path.join(VERIF, "coq")
WORK = os.path.join(VERIF, "work")
EVID = os.path.join(VERIF, "evidence")
REPLAYS = os.path.join(VERIF, "replays")
NPROC = min(16, os.cpu_count() or 4)
PER_FILE_TIMEOUT = int(os.environ.get("VERIF_COQC_TIMEOUT", "900"))

if REPO not in sys.path:
    sys.path.insert(0, REPO)


# ----------------------------------------------------------------------------- Coq literals
def to_fraction(x):
    """exact rational value of a Python / numpy scalar"""
    if isinstance(x, Fraction):
        return x
    if isinstance(x, bool):
        return Fraction(int(x))
    if isinstance(x, int):
        return Fraction(x)
    try:
        import numpy as np
        if isinstance(x, np.integer):
            return Fraction(int(x))
        if isinstance(x, np.floating):
            return Fraction(float(x))
    except ImportError:
        pass
    if isinstance(x, float):
        return Fraction(x)       # exact: every float is a dyadic rational
    raise TypeError("not a scalar: %r" % (x,))


def coq_z(n):
    return "(%d)%%Z" % n if n < 0 else "%d%%Z" % n


def coq_q(x):
    f = to_fraction(x)
    n, d = f.numerator, f.denominator
    return "(%s # %d)%%Q" % (("(%d)" % n) if n < 0 else str(n), d)


def coq_nat(n):
    assert n >= 0 and n < 5000, n
    return "%d%%nat" % n


def coq_list(items):
    return "[" + "; ".join(items) + "]"


def coq_str(s):
    return '"' + s.replace('"', '""') + '"%string'


class Q(object):
    """marker: force a value to be dumped as a rational even when it is an int"""
    def __init__(self, v):
        self.v = to_fraction(v)


def coq_D(o):
    """Python value -> literal of Model.Dump.D"""
    if isinstance(o, Q):
        return "DQ " + coq_q(o.v)
    if isinstance(o, bool):
        return "DZ " + coq_z(int(o))
    if isinstance(o, int):
        return "DZ " + coq_z(o)
    if isinstance(o, (float, Fraction)):
        return "DQ " + coq_q(o)
    if isinstance(o, str):
        return "DS " + coq_str(o)
    if o is None:
        return "DL []"
    if isinstance(o, (list, tuple)):
        return "DL " + coq_list([coq_D(x) for x in o])
    try:
        import numpy as np
        if isinstance(o, np.integer):
            return "DZ " + coq_z(int(o))
        if isinstance(o, np.floating):
            return "DQ " + coq_q(float(o))
    except ImportError:
        pass
    raise TypeError("cannot dump %r" % (o,))


def jsonable(o):
    if isinstance(o, Q):
        return str(o.v)
    if isinstance(o, Fraction):
        return str(o)
    if isinstance(o, (list, tuple)):
        return [jsonable(x) for x in o]
    if isinstance(o, dict):
        return {str(k): jsonable(v) for k, v in o.items()}
    try:
        import numpy as np
        if isinstance(o, np.generic):
            return o.item()
        if isinstance(o, np.ndarray):
            return o.tolist()
    except ImportError:
        pass
    if isinstance(o, (int, float, str, bool)) or o is None:
        return o
    return repr(o)


# ----------------------------------------------------------------------------- running Coq
class CoqError(Exception):
    pass


def coqc(path, timeout=600):
    p = subprocess.run(["coqc", "-R", COQ, "PV", "-w", "-all", path], capture_output=True, text=True,
                       timeout=timeout, cwd=os.path.dirname(path))
    return p.returncode, p.stdout, p.stderr


_workdir = None


def workdir():
    global _workdir
    if _workdir is None:
        _workdir = os.path.join(WORK, "run_%d" % os.getpid())
        shutil.rmtree(_workdir, ignore_errors=True)
        os.makedirs(_workdir)
    return _workdir


def cleanup_workdir():
    global _workdir
    if _workdir and os.path.isdir(_workdir):
        shutil.rmtree(_workdir, ignore_errors=True)
    _workdir = None


_built_for_cases = set()


def ensure_modules(imports):
    """the executable model modules a generated case file imports must be compiled (a fresh checkout has no
    .vo; the proof closure of Props/<id>.vo does not always contain Model/Dump or the *Dump modules)"""
    mods = ["Model.Dict", "Model.Terms", "Model.Dump"]
    for imp in imports:
        m = re.match(r"\s*From\s+PV\s+Require\s+(?:Import|Export)?\s*(.*?)\.\s*$", imp.strip(), re.S)
        if m:
            mods += m.group(1).split()
        else:
            m = re.match(r"\s*Require\s+(?:Import|Export)?\s*(.*?)\.\s*$", imp.strip(), re.S)
            if m:
                mods += [x[3:] for x in m.group(1).split() if x.startswith("PV.")]
    targets = sorted(set(x.replace(".", "/") + ".vo" for x in mods
                         if os.path.exists(os.path.join(COQ, x.replace(".", "/") + ".v"))))
    key = tuple(targets)
    if key in _built_for_cases:
        return
    ok, log = make(targets)
    if not ok:
        raise CoqError("cannot build the model modules %s:\n%s" % (targets, log[-3000:]))
    _built_for_cases.add(key)


def run_cases(name, imports, run_expr, cases, shard=300, input_type=None):
    """cases: list of (coq_input_literal, expected_python_dump).
    Evaluates [mismatches run_expr cases] inside Coq (vm_compute), sharded and in parallel.
    Returns the sorted list of indices (into `cases`) on which model and implementation disagree."""
    ensure_modules(imports)
    wd = workdir()
    files = []
    for k in range(0, len(cases), shard):
        chunk = cases[k:k + shard]
        path = os.path.join(wd, "%s_%d.v" % (name, k // shard))
        with open(path, "w") as f:
            f.write("From Coq Require Import List QArith ZArith String Bool.\n")
            f.write("From PV Require Import Model.Dict Model.Terms Model.Dump.\n")
            for imp in imports:
                f.write(imp + "\n")
            f.write("Import ListNotations.\nOpen Scope string_scope.\n")
            ty = (" : list (%s * D)" % input_type) if input_type else ""
            f.write("Definition cases%s := [\n" % ty)
            f.write(";\n".join("(%s,\n %s)" % (inp, coq_D(exp)) for inp, exp in chunk))
            f.write("\n].\n")
            f.write("Definition result := Eval vm_compute in (mismatches (%s) cases).\n" % run_expr)
            f.write("Print result.\n")
        files.append((k, path))
    bad = []
    procs = []

    def harvest(k, path, proc):
        out, err = proc.communicate()
        if proc.returncode != 0:
            raise CoqError("coqc failed on %s:\n%s\n%s" % (path, out[-2000:], err[-3000:]))
        m = re.search(r"result\s*=\s*\[(.*?)\]\s*:\s*list nat", out, re.S)
        if not m:
            raise CoqError("unparsable coqc output for %s: %s" % (path, out[-2000:]))
        body = m.group(1).strip()
        if body:
            for tok in body.split(";"):
                bad.append(k + int(tok.strip().replace("%nat", "")))

    pending = list(files)
    running = []
    while pending or running:
        while pending and len(running) < NPROC:
            k, path = pending.pop(0)
            proc = subprocess.Popen(["coqc", "-R", COQ, "PV", "-w", "-all", path], stdout=subprocess.PIPE,
                                    stderr=subprocess.PIPE, text=True, cwd=wd)
            running.append((k, path, proc))
        k, path, proc = running.pop(0)
        harvest(k, path, proc)
    return sorted(bad)


def model_output(imports, run_expr, coq_input):
    """pretty-printed model result for one input (used in replay reports)"""
    ensure_modules(imports)
    wd = workdir()
    path = os.path.join(wd, "show_%s.v" % hashlib.md5(coq_input.encode()).hexdigest()[:10])
    with open(path, "w") as f:
        f.write("From Coq Require Import List QArith ZArith String Bool.\n")
        f.write("From PV Require Import Model.Dict Model.Terms Model.Dump.\n")
        for imp in imports:
            f.write(imp + "\n")
        f.write("Import ListNotations.\nOpen Scope string_scope.\n")
        f.write("Eval vm_compute in ((%s) (%s)).\n" % (run_expr, coq_input))
    rc, out, err = coqc(path)
    return (out + err).strip()[:6000]


# ----------------------------------------------------------------------------- building proofs
class BuildLock(object):
    def __enter__(self):
        os.makedirs(WORK, exist_ok=True)
        self.f = open(os.path.join(WORK, ".buildlock"), "w")
        fcntl.flock(self.f, fcntl.LOCK_EX)
        return self

    def __exit__(self, *a):
        fcntl.flock(self.f, fcntl.LOCK_UN)
        self.f.close()


def make(targets, timeout=3000, keep_going=True):
    """(re)build .vo targets (paths relative to coq/), returns (ok, log)"""
    with BuildLock():
        if not os.path.exists(os.path.join(COQ, "Makefile")) or \
                os.path.getmtime(os.path.join(COQ, "Makefile")) < os.path.getmtime(os.path.join(COQ, "_CoqProject")):
            regenerate_makefile()
        # every coqc call is bounded: a diverging tactic in one file must not stall the whole build
        cmd = ["make", "-C", COQ, "-j%d" % NPROC, "COQC=timeout %d coqc" % PER_FILE_TIMEOUT] + \
              (["-k"] if keep_going else []) + list(targets)
        p = subprocess.run(cmd, capture_output=True, text=True, timeout=timeout)
        return p.returncode == 0, p.stdout + p.stderr


def regenerate_makefile():
    files = []
    for sub in ("Base", "Model", "Gen", "Spec", "Proofs", "Props"):
        d = os.path.join(COQ, sub)
        if os.path.isdir(d):
            files += sorted(os.path.join(sub, f) for f in os.listdir(d) if f.endswith(".v"))
    with open(os.path.join(COQ, "_CoqProject"), "w") as f:
        f.write("-R . PV\n-arg -w -arg -all\n")
        f.write("\n".join(files) + "\n")
    subprocess.run(["coq_makefile", "-f", "_CoqProject", "-o", "Makefile"], cwd=COQ, check=True,
                   capture_output=True)


def props_report(pid):
    """Re-run coqc on Props/<pid>.v (always, it is small) to capture Print Assumptions output.
    Returns dict(ok, theorems=[names], assumptions={thm: [axioms]}, log)."""
    path = os.path.join(COQ, "Props", pid + ".v")
    src = open(path).read()
    theorems = re.findall(r"^\s*Theorem\s+([A-Za-z0-9_']+)", src, re.M)
    with BuildLock():
        p = subprocess.run(["coqc", "-R", COQ, "PV", "-w", "-all", path], capture_output=True, text=True,
                           timeout=1200, cwd=COQ)
    out = p.stdout
    assumptions = {}
    # Print Assumptions output blocks follow the order of the commands in the file
    blocks = re.split(r"(?=Closed under the global context|Axioms:)", out)
    blocks = [b for b in blocks if b.startswith("Closed under") or b.startswith("Axioms:")]
    pa = re.findall(r"Print Assumptions\s+([A-Za-z0-9_']+)", src)
    for name, b in zip(pa, blocks):
        if b.startswith("Closed"):
            assumptions[name] = []
        else:
            assumptions[name] = sorted(set(re.findall(r"^([A-Za-z0-9_.']+)\s*\n?\s+:", b, re.M)) - {"Axioms"})
    return dict(ok=(p.returncode == 0), theorems=theorems, assumptions=assumptions,
                log=(p.stdout[-1500:] + p.stderr[-3000:]) if p.returncode != 0 else "")


def coqchk_axioms(pid, timeout=2400):
    """independent re-check of Props/<pid>.vo and everything it depends on with coqchk; returns
    (ok, axioms of all loaded libraries, tail of the output)"""
    try:
        p = subprocess.run(["coqchk", "-silent", "-o", "-R", COQ, "PV", "PV.Props.%s" % pid], capture_output=True,
                           text=True, timeout=timeout, cwd=COQ)
    except subprocess.TimeoutExpired:
        return False, [], "coqchk timed out after %d s" % timeout
    out = p.stdout + p.stderr
    m = re.search(r"\* Axioms:(.*?)\n\s*\n", out, re.S)
    axioms = [l.strip() for l in (m.group(1).split("\n") if m else []) if l.strip()]
    return p.returncode == 0, axioms, out[-1200:]


FORBIDDEN = re.compile(r"\b(Admitted|admit|Axiom|Axioms|Parameter|Parameters|Conjecture|Abort All|"
                       r"Unset Guard Checking|bypass_check|Admit Obligations|Unset Positivity|Unset Universe Checking)\b")


def scan_forbidden():
    """no Admitted / Axiom / Parameter ... anywhere in the development (generated files included)"""
    hits = []
    for root, _, files in os.walk(COQ):
        for fn in files:
            if fn.endswith(".v"):
                p = os.path.join(root, fn)
                txt = re.sub(r"\(\*.*?\*\)", "", open(p).read(), flags=re.S)
                for i, line in enumerate(txt.split("\n"), 1):
                    if FORBIDDEN.search(line):
                        hits.append("%s:%d: %s" % (os.path.relpath(p, COQ), i, line.strip()))
    return hits


# ----------------------------------------------------------------------------- evidence / replays
def write_replay(pid, payload):
    os.makedirs(REPLAYS, exist_ok=True)
    blob = json.dumps(jsonable(payload), indent=1, sort_keys=True)
    h = hashlib.sha1(blob.encode()).hexdigest()[:12]
    path = os.path.join(REPLAYS, "%s-%s.json" % (pid, h))
    with open(path, "w") as f:
        f.write(blob)
    return path


def write_evidence(pid, tier, seed, coverage, assumptions, wall, violations, level="proof"):
    os.makedirs(EVID, exist_ok=True)
    ev = dict(property_id=pid, tier=tier, seed=int(seed), level=level, coverage=jsonable(coverage),
              assumptions=list(assumptions), wall_s=round(wall, 2), violations=int(violations))
    with open(os.path.join(EVID, pid + ".json"), "w") as f:
        json.dump(ev, f, indent=1, sort_keys=True)
    return ev
