"""C04 — class constraints are complete and independent of the declaration order.

Proof side (coq/Props/C04.v): pair enumeration of the generic generator (each selected pair exactly once),
symmetry of every formula used with symmetry=True, completeness over all required pairs for every shipped plan,
order independence (scalar constraints and LMIs), the 41 formula = reference equalities.
Tie: (T) formulas and plans are regenerated from the sources on every run (Gen/Classes.v); (H) the stream of
harness/classgen_stream.py compares Function.set_class_constraints() with the model on every class.
On the implementation itself (problems / search): exact-rational valuations under which the generated constraints
are not, pair by pair, the reference conditions over all required pairs; the same samples recorded in two orders
giving different sets of conditions."""
import random

from . import classes as K
from . import classgen_stream as S

GEN_DEPS = ["Classes.v"]
TRUSTED = [
    "Model/ClassGen.v (pair / single-point generators, tables, names, BlockSmooth loop, plan interpreter) is written "
    "by hand and tied to PEPit/function.py and the class files by the class-generation correspondence stream",
    "Spec/Reference.v: the reference conditions of the 24 classes are typed by hand from the docstrings and the cited "
    "papers; harness/classgen_stream.py REF is an independent second copy used on the implementation",
    "object identity (Python `is`) is modelled by integer ids handed out by the harness from id(obj)",
    "sufficiency of the interpolation conditions (a finite primal value is attained by a real member) is the cited "
    "literature, not proved here",
]
ASSUMES = [
    "recorded coefficient dictionaries have unique keys (wf_state), as every Python dict has",
    "order independence is stated for permutations that keep list_of_stationary_points[0] (the quadratic class refers "
    "to it by position)",
]


def _direct(meta, func):
    """C04 checked directly on the implementation for one stream case; documented triggers are left to
    known_findings()"""
    if meta["kind"] != "class":
        return []
    rng = random.Random(meta["case_seed"] ^ 0xC04)
    out = []
    for d in S.check_reference(meta["cls"], func, rng):
        if S.known_trigger(meta["cls"], d):
            continue
        out.append(dict(kind="C04-" + d["kind"], detail=d))
        break
    return out


def correspondence(tier, seed, corpus):
    st = S.run_stream("c04_classgen", tier, seed, on_case=_direct)
    # regression case of the repaired F-C04c (reported as a violation if it ever fails again)
    reg = S.regression_block_same_xg()
    st["problems"] = (reg + st["problems"])[:5]
    st["n_problems"] += len(reg)
    st["evaluations"] += 1
    st["distribution"]["regression_cases"] = {"F-C04c (block-smooth samples sharing x and g)": "fails" if reg else "passes"}
    return [st]


# ------------------------------------------------------------------ order independence on the implementation
def two_orders(case_seed, name):
    """the same samples (same Point / Expression objects) recorded on two functions of one class in two orders;
    returns a discrepancy dict or None.  Conditions are compared as multisets of exact values under random
    rational valuations (an equality up to its sign)."""
    from PEPit import PEP, Point, Expression
    rng = random.Random(case_seed)
    pep = PEP()
    params = K.draw_params(rng, name)
    fa = K.declare(pep, rng, name, dict(params), False)
    kwargs = dict(params)
    if name == "BlockSmoothConvexFunction":
        kwargs.pop("d")
        kwargs["partition"] = fa.partition
    fb = pep.declare_function(K.get_class(name), **kwargs)
    leaves = [Point() for _ in range(3)]
    n = rng.choice([2, 3, 4])
    trip = []
    for k in range(n):
        x = K.rand_point(rng, leaves)
        if rng.random() < 0.25 and name not in ("SmoothStronglyConvexQuadraticFunction",):
            g = Point(is_leaf=False, decomposition_dict=dict())      # a stationary sample
        else:
            g = K.rand_point(rng, leaves)
        trip.append((x, g, Expression()))
    order_b = list(range(n))
    rng.shuffle(order_b)
    if name in ("ConvexQGFunction", "RsiEbFunction") and not any(t[1].decomposition_dict == {} for t in trip):
        trip[0] = (trip[0][0], Point(is_leaf=False, decomposition_dict=dict()), trip[0][2])
    for t in trip:
        fa.add_point(t)
    for k in order_b:
        fb.add_point(trip[k])
    if name == "LinearOperator":
        ts = [(K.rand_point(rng, leaves), K.rand_point(rng, leaves), Expression()) for _ in range(rng.choice([1, 2]))]
        for t in ts:
            fa.T.add_point(t)
        for t in reversed(ts):
            fb.T.add_point(t)
    if name == "SmoothStronglyConvexQuadraticFunction":
        # both must refer to the same stationary sample
        fb.list_of_stationary_points[0] = fa.list_of_stationary_points[0]
        fb.list_of_points[0] = fa.list_of_points[0]
    if name == "NonexpansiveOperator":
        fa.v = fb.v = K.rand_point(rng, leaves)
    if name in ("ConvexQGFunction", "RsiEbFunction"):
        # several stationary samples: same first one is not required by these classes
        pass
    fa.set_class_constraints()
    fb.set_class_constraints()
    for _ in range(2):
        val = S.Valuation(rng)

        def conds(f):
            res = []
            for c in f.list_of_class_constraints:
                v, s = val.constraint(c)
                nm = c.get_name() or ""
                cond = nm.split("(")[0].replace(K.function_id(f), "F")
                res.append((cond, s, str(abs(v)) if s == 1 else str(v)))
            return sorted(res)
        ca, cb = conds(fa), conds(fb)
        if ca != cb:
            return dict(kind="C04-two-orders-differ", cls=name, case_seed=case_seed, order_b=order_b,
                        only_a=[c for c in ca if c not in cb][:3], only_b=[c for c in cb if c not in ca][:3])
        # LMIs: same multiset of diagonal entries and of symmetrised off-diagonal entries (a congruence by a
        # permutation matrix permutes rows and columns simultaneously)
        for ma, mb in zip(fa.list_of_class_psd, fb.list_of_class_psd):
            A, B = ma.matrix_of_expressions, mb.matrix_of_expressions
            na = A.shape[0]
            da = sorted(str(val.expr(A[i, i])) for i in range(na))
            db = sorted(str(val.expr(B[i, i])) for i in range(na))
            oa = sorted(str(val.expr(A[i, j])) for i in range(na) for j in range(na) if i != j)
            ob = sorted(str(val.expr(B[i, j])) for i in range(na) for j in range(na) if i != j)
            if da != db or oa != ob:
                return dict(kind="C04-two-orders-lmi-differ", cls=name, case_seed=case_seed, order_b=order_b)
    return None


def search(tier, seed):
    """failing-input search on the implementation alone"""
    rng = random.Random(seed + 40404)
    n = 40 if tier == "quick" else 400
    for name in K.ALL_CLASSES:
        for _ in range(n):
            cs = rng.getrandbits(48)
            inp, dump, meta, func = S.class_case(cs, name)
            for d in S.check_reference(name, func, random.Random(cs ^ 0xC04)):
                if S.known_trigger(name, d):
                    continue
                return dict(kind="C04-" + d["kind"], detail=d,
                            case=dict(kind="class", cls=name, case_seed=cs, forced=None))
        for _ in range(n // 2):
            cs = rng.getrandbits(48)
            bad = two_orders(cs, name)
            if bad:
                return bad
    return None


# ------------------------------------------------------------------ known findings
def _skew_diag():
    """F-C04b: one sample of a skew-symmetric operator: no scalar class constraint; the PEP
    max <x, Ax> s.t. |x|^2 <= 1 returns 1 instead of 0"""
    from PEPit import PEP, Point
    from PEPit.operators import SkewSymmetricLinearOperator
    pep = PEP()
    A = pep.declare_function(SkewSymmetricLinearOperator, L=1.)
    x = Point()
    y = A.gradient(x)
    pep.set_initial_condition(x ** 2 <= 1)
    pep.set_performance_metric(x * y)
    A.set_class_constraints()
    ncons = len(A.list_of_class_constraints)
    value = None
    try:
        value = pep.solve(verbose=0)
    except Exception:
        pass
    diag_missing = (ncons == 0)
    return diag_missing and (value is None or value > 0.5), "class constraints: %d, max <x,Ax> = %r (antisymmetry demands 0)" % (ncons, value)


REPLAYS = {"F-C04b": _skew_diag}


def known_findings(known):
    out = []
    for k in known:
        fn = REPLAYS.get(k["id"])
        if fn is None:
            continue
        still, what = fn()
        out.append((k["id"], bool(still), k["what"] + " [" + what + "]"))
    return out


def is_known(payload, known):
    ids = {k["id"] for k in known}
    d = payload.get("detail") or {}
    cls = (payload.get("case") or {}).get("cls")
    fid = S.known_trigger(cls, d) if cls else None
    return fid if fid in ids else None


def replay(payload):
    """True iff the stored case still fails on the current implementation (or against the model)"""
    case = payload.get("case")
    if payload.get("kind") == "regression-F-C04c":
        return bool(S.regression_block_same_xg())
    if payload.get("kind") == "implementation-raised" and case:
        try:
            S.rebuild(case)
            return False
        except Exception:
            return True
    if payload.get("kind", "").startswith("C04-two-orders"):
        return two_orders(payload["case_seed"], payload["cls"]) is not None
    if case:
        inp, dump, meta, func = S.rebuild(case)
        if case["kind"] == "class":
            for d in S.check_reference(case["cls"], func, random.Random(case["case_seed"] ^ 0xC04)):
                if not S.known_trigger(case["cls"], d):
                    return True
        return not S.model_agrees(case)
    for b in payload.get("broken", []):
        for m in b.get("first", []):
            if isinstance(m, dict) and m.get("case") and not S.model_agrees(m["case"]):
                return True
    return search("quick", int(payload.get("seed", 0))) is not None
