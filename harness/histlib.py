"""Recording wrapper, seeded model programs and process histories (properties C12, C16).

* RecordingWrapper: a PEPit.wrapper.Wrapper registered in PEPit.wrappers.WRAPPERS from outside /repo; it records
  every call the PEP makes on its wrapper as a canonical dump (expression dictionaries with leaf INDICES, senses,
  LMI entries, names, every class-level counter and registry) and reports "no value" (so solve() returns None).
  RecordingCvxpyWrapper records the same and then lets the real CvxpyWrapper / SCS solve.
* program(seed, size): a deterministic model-building program (several classes, composites, primitive steps,
  partitions, pep- and function-level LMIs and constraints, several metrics).
* history_item(rng): one piece of process history: a model that is built and abandoned / solved / unbounded /
  recorded, objects created outside any PEP, exceptions raised in the middle of a construction, the shared null
  objects evaluated.
* `python -m harness.histlib fresh <seed> <size> <verbose>`: run one program in THIS (fresh) interpreter and print
  its dump as JSON.
"""
import contextlib
import importlib.machinery
import io
import json
import os
import random
import subprocess
import sys
import tempfile
import types

RECORDER = "pepit_recorder"
RECORDER_CVX = "pepit_recorder_cvxpy"


# ----------------------------------------------------------------------------------------- canonical dumps
def num(v):
    """bit-exact, type-exact rendering of a coefficient"""
    try:
        import numpy as np
        if isinstance(v, np.generic):
            return "%s:%s" % (type(v).__name__, float(v).hex() if isinstance(v, np.floating) else repr(v.item()))
    except ImportError:
        pass
    if isinstance(v, bool):
        return "bool:%r" % v
    if isinstance(v, float):
        return "float:" + v.hex()
    if isinstance(v, int):
        return "int:%d" % v
    return "%s:%r" % (type(v).__name__, v)


def dump_key(k):
    from PEPit import Expression, Point
    if isinstance(k, tuple):
        return ["G"] + [p.counter if isinstance(p, Point) else repr(type(p)) for p in k]
    if isinstance(k, Expression):
        return ["F", k.counter]
    if isinstance(k, (int, float)) and k == 1:
        return ["1"]
    return ["?", repr(type(k))]


def dump_expr(e):
    return [[dump_key(k), num(v)] for k, v in e.decomposition_dict.items()]


def dump_constraint(c):
    return dict(kind="constraint", counter=c.counter, sense=c.equality_or_inequality, name=c.get_name(),
                expr=dump_expr(c.expression), leaf=c.expression.get_is_leaf(), ecounter=c.expression.counter)


def dump_psd(m):
    n0, n1 = m.shape
    return dict(kind="lmi", counter=m.counter, name=m.get_name(), shape=[n0, n1],
                entries=[[dump_expr(m[i, j]) for j in range(n1)] for i in range(n0)])


def dump_globals():
    from PEPit import PEP, Point, Expression, Function, Constraint, PSDMatrix, BlockPartition
    return dict(
        Point_counter=Point.counter, Point_leaves=[p.counter for p in Point.list_of_leaf_points],
        Expression_counter=Expression.counter, Expression_leaves=[e.counter for e in Expression.list_of_leaf_expressions],
        Function_counter=Function.counter,
        Function_list=[[type(f).__name__, getattr(f, "counter", "?"), f.get_name() if hasattr(f, "name") else "?",
                        ("Function_%s" % getattr(f, "counter", "?"))] for f in Function.list_of_functions],
        Constraint_counter=Constraint.counter, PSDMatrix_counter=PSDMatrix.counter,
        BlockPartition_counter=BlockPartition.counter,
        BlockPartition_list=[[p.counter, p.get_nb_blocks(), len(p.blocks_dict)] for p in BlockPartition.list_of_partitions],
        PEP_counter=PEP.counter)


def _base():
    from PEPit.wrapper import Wrapper
    return Wrapper


def make_recording_classes():
    from PEPit.wrapper import Wrapper
    from PEPit.wrappers.cvxpy_wrapper import CvxpyWrapper

    class RecordingWrapper(Wrapper):
        last = None

        def __init__(self, verbose=1):
            super().__init__(verbose=verbose)
            self.rec = []
            RecordingWrapper.last = self

        def check_license(self):
            return True

        def set_main_variables(self):
            self.rec.append(["set_main_variables", dump_globals()])

        def send_constraint_to_solver(self, constraint):
            self._list_of_constraints_sent_to_solver.append(constraint)
            self.rec.append(["send_constraint", dump_constraint(constraint)])

        def send_lmi_constraint_to_solver(self, psd_counter, psd_matrix):
            self._list_of_constraints_sent_to_solver.append(psd_matrix)
            self.rec.append(["send_lmi", psd_counter, dump_psd(psd_matrix)])

        def generate_problem(self, objective):
            self.objective = objective
            self.rec.append(["generate_problem", dict(objective=dump_expr(objective), counter=objective.counter),
                             dump_globals()])

        def solve(self, **kwargs):
            self.rec.append(["solve", sorted(kwargs)])
            self.solver_name = "RECORDER"
            return "recorded", self.solver_name, None

    class RecordingCvxpyWrapper(CvxpyWrapper):
        last = None

        def __init__(self, verbose=1):
            super().__init__(verbose=verbose)
            self.rec = []
            RecordingCvxpyWrapper.last = self

        def set_main_variables(self):
            self.rec.append(["set_main_variables", dump_globals()])
            return super().set_main_variables()

        def send_constraint_to_solver(self, constraint):
            self.rec.append(["send_constraint", dump_constraint(constraint)])
            return super().send_constraint_to_solver(constraint)

        def send_lmi_constraint_to_solver(self, psd_counter, psd_matrix):
            self.rec.append(["send_lmi", psd_counter, dump_psd(psd_matrix)])
            return super().send_lmi_constraint_to_solver(psd_counter, psd_matrix)

        def generate_problem(self, objective):
            self.rec.append(["generate_problem", dict(objective=dump_expr(objective), counter=objective.counter),
                             dump_globals()])
            return super().generate_problem(objective)

        def solve(self, **kwargs):
            self.rec.append(["solve", sorted(k for k in kwargs if k != "verbose")])
            return super().solve(**kwargs)

    return RecordingWrapper, RecordingCvxpyWrapper


_REG = {}


def register():
    """make the two recording wrappers selectable by name in PEP.solve(wrapper=...).  PEP.solve insists that the
    wrapper name is an importable module (importlib.util.find_spec): two empty modules of that name are put in
    sys.modules."""
    if _REG:
        return _REG["rec"], _REG["cvx"]
    import PEPit.wrappers
    rec, cvx = make_recording_classes()
    for name, cls in ((RECORDER, rec), (RECORDER_CVX, cvx)):
        if name not in sys.modules:
            m = types.ModuleType(name)
            m.__spec__ = importlib.machinery.ModuleSpec(name, None)
            sys.modules[name] = m
        PEPit.wrappers.WRAPPERS[name] = cls
    _REG["rec"], _REG["cvx"] = rec, cvx
    return rec, cvx


@contextlib.contextmanager
def captured_output():
    """capture Python-level and C-level (solver) output written to stdout / stderr; yields a dict filled on exit
    (text = what was printed to stdout, log = what went to stderr: cvxpy's logger)"""
    out = {}
    sys.stdout.flush()
    sys.stderr.flush()
    saved1, saved2 = os.dup(1), os.dup(2)
    tmp1 = tempfile.TemporaryFile(mode="w+b")
    tmp2 = tempfile.TemporaryFile(mode="w+b")
    py = io.StringIO()
    old1, old2 = sys.stdout, sys.stderr
    try:
        os.dup2(tmp1.fileno(), 1)
        os.dup2(tmp2.fileno(), 2)
        sys.stdout = py
        yield out
    finally:
        sys.stdout = old1
        for f in (old1, old2):
            try:
                f.flush()        # loggers that kept the original stream objects (cvxpy) wrote into their buffers
            except Exception:
                pass
        try:
            os.dup2(saved1, 1)
            os.dup2(saved2, 2)
        finally:
            os.close(saved1)
            os.close(saved2)
        tmp1.seek(0)
        tmp2.seek(0)
        out["text"] = py.getvalue() + tmp1.read().decode("utf-8", "replace")
        out["log"] = tmp2.read().decode("utf-8", "replace")
        tmp1.close()
        tmp2.close()


# ----------------------------------------------------------------------------------------- programs
CLASS_TABLE = [
    ("SmoothConvexFunction", dict(L=1.)), ("SmoothStronglyConvexFunction", dict(mu=0.5, L=2.)),
    ("ConvexFunction", dict()), ("StronglyConvexFunction", dict(mu=0.5)), ("SmoothFunction", dict(L=2.)),
    ("ConvexLipschitzFunction", dict(M=1.)), ("ConvexIndicatorFunction", dict(D=2.)),
    ("ConvexSupportFunction", dict(M=1.)), ("ConvexQGFunction", dict(L=1.)), ("RsiEbFunction", dict(mu=0.5, L=2.)),
    ("SmoothConvexLipschitzFunction", dict(L=1., M=2.)),
    ("SmoothStronglyConvexQuadraticFunction", dict(mu=0.5, L=2.)),
    ("MonotoneOperator", dict()), ("StronglyMonotoneOperator", dict(mu=0.5)), ("LipschitzOperator", dict(L=1.)),
    ("CocoerciveOperator", dict(beta=1.)), ("LipschitzStronglyMonotoneOperator", dict(mu=0.5, L=2.)),
    ("NonexpansiveOperator", dict()), ("NegativelyComonotoneOperator", dict(rho=0.5)),
    ("CocoerciveStronglyMonotoneOperator", dict(mu=0.5, beta=1.)),
    ("LinearOperator", dict(L=1.)), ("SymmetricLinearOperator", dict(mu=0.5, L=2.)),
    ("SkewSymmetricLinearOperator", dict(L=1.)),
]


def get_class(name):
    import PEPit.functions
    import PEPit.operators
    return getattr(PEPit.functions, name, None) or getattr(PEPit.operators, name)


def program(seed, size=2):
    """build (not solve) one model; every random choice comes from `seed` alone.  Returns (pep, info)."""
    from PEPit import PEP, Point, Expression, PSDMatrix
    from PEPit.functions import BlockSmoothConvexFunction
    from PEPit import primitive_steps as ps
    rng = random.Random(seed * 1000003 + 17)
    used = []
    pep = PEP()
    nfun = rng.randint(1, 2 + (size > 1))
    funcs = []
    for _ in range(nfun):
        name, params = rng.choice(CLASS_TABLE)
        kw = dict(params)
        if rng.random() < 0.3:
            kw["name"] = rng.choice(["f", "g", "h", "A"])
        if rng.random() < 0.2 and name not in ("LinearOperator",):
            kw["reuse_gradient"] = rng.random() < 0.5
        funcs.append(pep.declare_function(get_class(name), **kw))
        used.append(name)
    part = None
    if rng.random() < 0.35:
        d = rng.choice([1, 2, 3])
        part = pep.declare_block_partition(d=d)
        fb = pep.declare_function(BlockSmoothConvexFunction, partition=part, L=[rng.choice([1., 2., 0.5]) for _ in range(d)])
        funcs.append(fb)
        used.append("BlockSmoothConvexFunction")
    comp = None
    if len(funcs) >= 2 and rng.random() < 0.6:
        a, b = rng.sample(funcs, 2)
        comp = rng.choice([lambda: a + b, lambda: a + 0.5 * b, lambda: 2 * a - b / 4, lambda: (a + b) / 2])()
        used.append("composite")
    x0 = pep.set_initial_point(name=rng.choice([None, "x0"]))
    leaves = [x0] + [Point() for _ in range(rng.randint(0, 2))]
    main = funcs[0]
    xs = main.stationary_point() if rng.random() < 0.7 else Point()
    pep.set_initial_condition((x0 - xs) ** 2 <= rng.choice([1, 1., 4, 0.25]))
    x = x0
    metrics = []
    nsteps = rng.randint(1, 2 + size)
    for it in range(nsteps):
        f = rng.choice(funcs + ([comp] if comp is not None else []))
        r = rng.random()
        gamma = rng.choice([1., 0.5, 0.25, 2])
        if r < 0.30:
            g = f.gradient(x)
            x = x - gamma * g
            used.append("gradient")
        elif r < 0.42:
            x, _, _ = ps.proximal_step(x, f, gamma)
            used.append("proximal_step")
        elif r < 0.52:
            x, _, _ = ps.inexact_gradient_step(x, f, gamma=gamma, epsilon=0.25,
                                               notion=rng.choice(["absolute", "relative"]))
            used.append("inexact_gradient_step")
        elif r < 0.60:
            dirs = [f.gradient(x)] + ([x - x0] if it else [])
            x, _, _ = ps.exact_linesearch_step(x, f, dirs)
            used.append("exact_linesearch_step")
        elif r < 0.66:
            x, _, _, _, _, _, eps = ps.inexact_proximal_step(x, f, gamma, opt=rng.choice(
                ["PD_gapI", "PD_gapII", "PD_gapIII"]))
            f.add_constraint(eps <= 0.5)
            used.append("inexact_proximal_step")
        elif r < 0.72:
            x, _, _, eps = ps.epsilon_subgradient_step(x, f, gamma)
            pep.add_constraint(eps <= 0.25)
            used.append("epsilon_subgradient_step")
        elif r < 0.78:
            x, _, _ = ps.linear_optimization_step(f.gradient(x), f)
            used.append("linear_optimization_step")
        elif r < 0.84 and len(funcs) >= 2:
            h, f2 = funcs[0], funcs[-1]
            gx = f2.gradient(x)
            sx, hx = h.oracle(x)
            x, _, _ = ps.bregman_gradient_step(gx, sx, h, gamma)
            used.append("bregman_gradient_step")
        elif r < 0.90 and part is not None:
            k = rng.randrange(part.get_nb_blocks())
            g = f.gradient(x)
            x = x - gamma * part.get_block(g, k)
            used.append("block_step")
        else:
            gx, fx = f.oracle(x)
            f.value(x)
            x = x - gamma * gx + rng.choice([0, 0.5]) * (x - rng.choice(leaves))
            used.append("oracle")
        if rng.random() < 0.4:
            metrics.append(rng.choice([(x - xs) ** 2, main(x) - main(xs), main.gradient(x) ** 2]))
    metrics.append((x - xs) ** 2 if rng.random() < 0.5 else main(x) - main(xs))
    # LMIs and extra constraints at both levels
    if rng.random() < 0.5:
        t = Expression()
        e = (x - xs) ** 2
        pep.add_psd_matrix([[e, t], [t, 1]], name=rng.choice([None, "lmi0"]))
        if rng.random() < 0.5:
            metrics.append(t)
        used.append("pep_lmi")
    if rng.random() < 0.4:
        f = rng.choice(funcs)
        s = Expression()
        u = rng.choice(leaves)
        f.add_psd_matrix([[u ** 2, s, 0], [s, 1., u * x0], [0, u * x0, 2]])
        used.append("function_lmi")
    if rng.random() < 0.5:
        f = rng.choice(funcs)
        f.add_constraint(rng.choice(leaves) ** 2 <= 2, name=rng.choice([None, "c_f"]))
        used.append("function_constraint")
    if rng.random() < 0.4:
        pep.add_constraint(Expression() + x0 * xs == 0.5)
        used.append("pep_equality")
    if part is not None and rng.random() < 0.7:
        part.get_block(x, rng.randrange(part.get_nb_blocks()))
    for m in metrics:
        pep.set_performance_metric(m)
    return pep, dict(used=used, nfun=len(funcs), nmetrics=len(metrics))


def run_program(seed, size, verbose, wrapper=RECORDER, solver_kwargs=None):
    """build and solve program(seed, size) through a recording wrapper; returns (dump string, return value, printed)"""
    rec, cvx = register()
    pep, info = program(seed, size)
    with captured_output() as cap:
        try:
            ret = pep.solve(wrapper=wrapper, verbose=verbose, **(solver_kwargs or {}))
            err = None
        except Exception as e:      # a program must not raise; reported by the caller
            ret, err = None, "%s: %s" % (type(e).__name__, e)
    w = pep.wrapper
    body = dict(seed=seed, size=size, sent=getattr(w, "rec", None), error=err)
    return json.dumps(body, sort_keys=True), ret, cap["text"], info


def null_state():
    """state of the two shared module-level objects"""
    from PEPit import null_point, null_expression
    return dict(null_point_dict=len(null_point.decomposition_dict), null_expression_dict=len(null_expression.decomposition_dict),
                null_point_value=None if null_point._value is None else list(null_point._value.shape),
                null_expression_value=null_expression._value, null_point_name=null_point.name)


# ----------------------------------------------------------------------------------------- histories
HISTORY_KINDS = ["built", "solved", "unbounded", "recorded", "outside", "exception", "solve_raises", "null_eval",
                 "partition", "lmi_solved", "subset"]


def small_solvable(rng, lmi=False):
    from PEPit import PEP, Expression
    from PEPit.functions import SmoothConvexFunction, SmoothStronglyConvexFunction
    pep = PEP()
    if rng.random() < 0.5:
        f = pep.declare_function(SmoothConvexFunction, L=1.)
    else:
        f = pep.declare_function(SmoothStronglyConvexFunction, mu=0.5, L=2.)
    xs = f.stationary_point()
    x0 = pep.set_initial_point()
    pep.set_initial_condition((x0 - xs) ** 2 <= 1)
    x = x0
    for _ in range(rng.randint(1, 3)):
        x = x - 0.5 * f.gradient(x)
    if lmi:
        t = Expression()
        pep.add_psd_matrix([[(x - xs) ** 2, t], [t, 1]])
        pep.set_performance_metric(t)
    else:
        pep.set_performance_metric(f(x) - f(xs))
    return pep


def history_item(rng, kind=None):
    """run one piece of history in this process; returns its kind"""
    from PEPit import PEP, Point, Expression, Function, Constraint, PSDMatrix, BlockPartition, null_point, null_expression
    register()
    kind = kind or rng.choice(HISTORY_KINDS)
    with captured_output():
        if kind == "built":
            program(rng.randrange(10 ** 6), rng.choice([1, 2, 3]))           # abandoned without solving
        elif kind == "recorded":
            pep, _ = program(rng.randrange(10 ** 6), rng.choice([1, 2]))
            pep.solve(wrapper=RECORDER, verbose=rng.choice([0, 1, 2]))
        elif kind == "solved":
            small_solvable(rng).solve(verbose=rng.choice([0, 1]))
        elif kind == "lmi_solved":
            small_solvable(rng, lmi=True).solve(verbose=0, dimension_reduction_heuristic=rng.choice([None, "trace"]))
        elif kind == "unbounded":
            from PEPit.functions import SmoothConvexFunction
            pep = PEP()
            f = pep.declare_function(SmoothConvexFunction, L=1.)
            xs = f.stationary_point()
            x0 = pep.set_initial_point()
            for _ in range(rng.randint(0, 3)):
                Point()
            pep.set_performance_metric((x0 - xs) ** 2)
            pep.solve(verbose=rng.choice([0, 1]))
        elif kind == "outside":
            # objects created outside any (new) PEP: they land in the registries of whatever came before
            pts = [Point() for _ in range(rng.randint(1, 4))]
            ex = [Expression() for _ in range(rng.randint(0, 3))]
            Function(is_leaf=True)
            Function(is_leaf=False, decomposition_dict=dict())
            for _ in range(rng.randint(0, 3)):
                (pts[0] ** 2 <= 1)
            PSDMatrix([[pts[0] ** 2, 1], [1, Expression()]])
            BlockPartition(rng.choice([1, 2, 3])).get_block(pts[-1], 0)
            (null_point + pts[0])
            (null_expression + 1)
        elif kind == "exception":
            # constructions that fail half-way: several of them have already touched a counter or a registry
            for attempt in rng.sample(range(7), 4):
                try:
                    if attempt == 0:
                        Function(is_leaf=True, decomposition_dict=dict())      # registered, then AssertionError
                    elif attempt == 1:
                        PSDMatrix([[Expression(), 1, 2]])                       # counter incremented, then AssertionError
                    elif attempt == 2:
                        Constraint(Expression(), "lower")                       # counter incremented, then AssertionError
                    elif attempt == 3:
                        Point(is_leaf=False, decomposition_dict=None)
                    elif attempt == 4:
                        BlockPartition(0)
                    elif attempt == 5:
                        PSDMatrix([[Expression(), "a"], ["a", 1]])              # TypeError in _store
                    else:
                        pep = PEP()
                        pep.set_initial_point()
                        pep.add_constraint(3)                                   # AssertionError mid-model
                except (AssertionError, TypeError, ValueError):
                    pass
        elif kind == "subset":
            # a new PEP in which only SOME of the classes are used (no point, or no function, or no expression ...)
            PEP()
            use = set(rng.sample(["point", "expression", "function", "composite", "constraint", "psd", "partition"],
                                 rng.randint(1, 3)))
            if "point" in use:
                Point()
            es = [Expression() for _ in range(rng.randint(1, 3))] if ("expression" in use or "constraint" in use
                                                                      or "psd" in use) and rng.random() < 0.8 else []
            if "function" in use:
                Function(is_leaf=True)
            if "composite" in use:
                Function(is_leaf=False, decomposition_dict=dict())
            if "constraint" in use:
                for _ in range(rng.randint(1, 3)):
                    Constraint(es[0] if es else null_expression, "inequality")
            if "psd" in use:
                PSDMatrix([[es[0] if es else null_expression]])
            if "partition" in use:
                BlockPartition(rng.choice([1, 2]))
        elif kind == "solve_raises":
            pep = small_solvable(rng)
            try:
                pep.solve(verbose=0, **rng.choice([dict(return_primal_or_dual="both"),
                                                   dict(dimension_reduction_heuristic="rank")]))
            except ValueError:
                pass
        elif kind == "null_eval":
            PEP()
            for _ in range(rng.randint(1, 5)):
                Point()
            null_point._value = None
            null_point.eval()
            null_expression.eval()
        elif kind == "partition":
            from PEPit.functions import BlockSmoothConvexFunction
            pep = PEP()
            d = rng.choice([2, 3])
            part = pep.declare_block_partition(d=d)
            f = pep.declare_function(BlockSmoothConvexFunction, partition=part, L=[1.] * d)
            x0 = pep.set_initial_point()
            xs = f.stationary_point()
            g = f.gradient(x0)
            x1 = x0 - part.get_block(g, 0)
            pep.set_initial_condition((x0 - xs) ** 2 <= 1)
            pep.set_performance_metric(f(x1) - f(xs))
            if rng.random() < 0.6:
                pep.solve(verbose=0)
        else:
            raise KeyError(kind)
    return kind


# ----------------------------------------------------------------------------------------- fresh interpreter
def fresh_dump(seed, size, verbose, wrapper=RECORDER, timeout=300):
    """run program(seed, size) as the FIRST thing a new interpreter does"""
    env = dict(os.environ)
    p = subprocess.run([sys.executable, "-m", "harness.histlib", "fresh", str(seed), str(size), str(verbose), wrapper],
                       capture_output=True, text=True, timeout=timeout, env=env,
                       cwd=os.path.dirname(os.path.dirname(os.path.abspath(__file__))))
    if p.returncode != 0:
        raise RuntimeError("fresh interpreter failed for seed %s: %s" % (seed, p.stderr[-2000:]))
    line = [l for l in p.stdout.split("\n") if l.startswith("@@DUMP@@")][-1]
    return json.loads(line[len("@@DUMP@@"):])


def run_chain(chain):
    """chain: list of ["hist", kind, item_seed] | ["prog", seed, size, verbose] | ["nullstate"], run in order in
    THIS process.  Returns the list of dumps of the prog items."""
    out = []
    for it in chain:
        if it[0] == "hist":
            try:
                history_item(random.Random(it[2]), it[1])
            except Exception:
                pass
        elif it[0] == "prog":
            dump, ret, text, info = run_program(it[1], it[2], it[3])
            out.append(dict(dump=dump, ret=ret, printed=len(text)))
        elif it[0] == "nullstate":
            out.append(dict(null=null_state()))
        else:
            raise KeyError(it[0])
    return out


def chain_in_subprocess(chain, timeout=600):
    p = subprocess.run([sys.executable, "-m", "harness.histlib", "chain", json.dumps(chain)],
                       capture_output=True, text=True, timeout=timeout, env=dict(os.environ),
                       cwd=os.path.dirname(os.path.dirname(os.path.abspath(__file__))))
    if p.returncode != 0:
        raise RuntimeError("chain failed: %s" % p.stderr[-2000:])
    line = [l for l in p.stdout.split("\n") if l.startswith("@@DUMP@@")][-1]
    return json.loads(line[len("@@DUMP@@"):])


def first_difference(a, b):
    """first record on which two dumps (JSON strings) differ"""
    ja, jb = json.loads(a), json.loads(b)
    sa, sb = ja.get("sent") or [], jb.get("sent") or []
    for i, (x, y) in enumerate(zip(sa, sb)):
        if x != y:
            return dict(index=i, fresh=x, after_history=y)
    if len(sa) != len(sb):
        return dict(index=min(len(sa), len(sb)), fresh_len=len(sa), after_history_len=len(sb))
    if ja.get("error") != jb.get("error"):
        return dict(fresh_error=ja.get("error"), after_history_error=jb.get("error"))
    return None


def main(argv):
    if argv and argv[0] == "chain":
        res = run_chain(json.loads(argv[1]))
        sys.stdout.write("@@DUMP@@" + json.dumps(res) + "\n")
        return 0
    if argv and argv[0] == "fresh":
        seed, size, verbose = int(argv[1]), int(argv[2]), int(argv[3])
        wrapper = argv[4] if len(argv) > 4 else RECORDER
        dump, ret, text, info = run_program(seed, size, verbose, wrapper=wrapper)
        sys.stdout.write("@@DUMP@@" + json.dumps(dict(dump=dump, ret=ret, printed=len(text), info=info,
                                                      null=null_state())) + "\n")
        return 0
    print(__doc__)
    return 2


if __name__ == "__main__":
    sys.exit(main(sys.argv[1:]))
