"""C13 -- solving again gives fresh, consistent answers.

Tie (H): seeded op programs with 2-4 solves (injected answers, different at each solve, one may be a failed
solve) interleaved with edits (replace the initial condition, add a metric / an LMI / a constraint, new oracle
calls, new leaf points, new blocks), evaluations and dual evaluations of held objects, on the real PEPit with
real function classes (smooth strongly convex, convex, symmetric linear operator and quadratic -- the last two
generate class LMIs) and real block partitions, and on Model/Resolve.run.  Compared at every solve: everything
that was sent (item by item, dictionaries with leaf indices, counters, index of the objective leaf); at every
evaluation: value, cache flag, exception kind; duals exactly.  What a class / partition generates from its
samples is measured by a scratch call just before each solve and given to the model as data; the model decides
what the pipeline does with it (reset-then-fill with fresh objects, fresh tracking lists, duals of sent items,
early return).  A second stream re-solves small models with SCS."""
from . import solvelib as S

GEN_DEPS = []
TRUSTED = [
    "Model/Resolve.v models _solve_with_wrapper / check_feasibility / assign_dual_values / set_class_constraints / "
    "add_partition_constraints by hand at the level of object lists (tied by the injected-solution stream)",
    "class / partition generation itself is data in the model (measured per solve); its content is C03/C04/C15's subject",
    "harness/solvelib.py: FakeSolveWrapper, program generator, Fraction oracle, cache-epoch bookkeeping",
    "renaming of leaf indices between a re-solved and a newly built model is C12's subject: C13_sent_fresh compares "
    "states with the same declared dictionaries",
]
ASSUMES = ["the wrapper's answer is an input of the model (any answer): no assumption on the solver"]
OWN = {"stale-cache-after-resolve", "values-survive-failed-solve"}


def stream_real(tier, seed):
    n = 4 if tier == "quick" else 24
    problems, stats, samples = [], {}, []
    for idx in range(n):
        m = idx + 6 * (seed % 1000)
        try:
            r = S.check_resolve(m, problems, stats, None)
            if idx < 2:
                samples.append(r)
        except Exception as e:         # re-solving / evaluating a well-posed model must not raise
            problems.append(dict(kind="real-model-raised", model=m, error="%s: %s" % (type(e).__name__, str(e)[:200])))
    try:
        samples.append(S.check_resolve_linop(problems, stats))
    except Exception as e:
        problems.append(dict(kind="real-model-raised", model="linop", error="%s: %s" % (type(e).__name__, str(e)[:200])))
    for pr in problems:
        pr["generator"] = "real"
    return dict(name="scs-resolves", evaluations=6 * n + 3, distinct_nontrivial=n + 1,
                rule="per model 6 SCS solves: twice unchanged (same value 1e-3, same counts sent), after one more iteration + "
                     "metric (new leaf expressions between solves) and after replacing the "
                     "initial condition radius 1 -> 4 (value = value of the newly built radius-4 model, 1e-3), and that "
                     "newly built model; distinct = distinct models",
                n_mismatch=0, mismatches=[], problems=problems[:5], n_problems=len(problems), samples=samples,
                distribution=dict(max_relative_differences={k: float("%.3g" % v) for k, v in stats.items()}))


def correspondence(tier, seed, corpus=()):
    n = 300 if tier == "quick" else 4000
    base = seed * 1000003 + 130000
    seeds = [int(c["case_seed"]) for c in corpus if c.get("generator") == "c13"] + [base + i for i in range(n)]
    return [S.run_stream("c13-injected", "c13", seeds, OWN), stream_real(tier, seed), S.stream_cvxpy_heuristic(tier)]


def search(tier, seed):
    n = 1500 if tier == "quick" else 15000
    found = S.direct_search("c13", [seed * 1000003 + 913000 + i for i in range(n)])
    if found:
        return found
    try:
        _, hp, _ = S.run_heuristic_histories(len(S.HEUR_HISTORIES))
    except Exception as e:
        hp = [dict(generator="cvxpy-heuristic", kind="real-model-raised", error="%s: %s" % (type(e).__name__, str(e)[:200]))]
    if hp:
        return hp[0]
    problems, stats = [], {}
    for idx in ["linop"] + list(range(6)):
        try:
            S.check_resolve_linop(problems, stats) if idx == "linop" else S.check_resolve(idx, problems, stats, None)
        except Exception as e:
            problems.append(dict(kind="real-model-raised", model=idx, error="%s: %s" % (type(e).__name__, str(e)[:200])))
        if problems:
            return dict(generator="real", **problems[0])
    return None


def _finding_C13a():
    """hold d = (x0 - xs)**2, solve, replace the initial condition radius 1 -> 4, re-solve: d.eval() unchanged"""
    p, h = S.real_model(0)
    d = (h["x0"] - h["xs"]) ** 2
    S._quiet_solve(p)
    first = float(d.eval())
    p.list_of_constraints = [c for c in p.list_of_constraints if c is not h["cond"]]
    p.set_initial_condition((h["x0"] - h["xs"]) ** 2 <= 4)
    S._quiet_solve(p)
    new = float(((h["x0"] - h["xs"]) ** 2).eval())
    return abs(float(d.eval()) - first) < 1e-12 and abs(new - 4) < 1e-2 and abs(first - 1) < 1e-2


def _finding_C13d():
    """solve, remove the initial condition (unbounded), re-solve -> None; held objects still return numbers"""
    p, h = S.real_model(0)
    d = (h["x0"] - h["xs"]) ** 2
    S._quiet_solve(p)
    p.list_of_constraints = []
    ret = S._quiet_solve(p)
    if ret is not None:
        return False
    try:
        d.eval()
        h["x0"].eval()
        h["cond"].eval_dual()
    except ValueError:
        return False
    return True


def known_findings(known):
    out = []
    for k in known:
        fn = {"F-C13a": _finding_C13a, "F-C13d": _finding_C13d}.get(k["id"])
        if fn:
            try:
                still = fn()
            except Exception:          # anything else than the listed behaviour is not this finding
                still = False
            out.append((k["id"], still, k["what"]))
    return out


def is_known(payload, known):
    fid = S.KNOWN_KINDS.get(payload.get("kind"))
    if fid and fid.startswith("F-C13") and any(k["id"] == fid for k in known):
        return fid
    return None


def replay(payload):
    if payload.get("generator") == "cvxpy-heuristic":
        try:
            return bool(S.run_heuristic_histories(len(S.HEUR_HISTORIES))[1])
        except Exception:
            return True
    if payload.get("generator") == "real":
        problems, stats = [], {}
        try:
            if payload["model"] == "linop":
                S.check_resolve_linop(problems, stats)
            else:
                S.check_resolve(payload["model"], problems, stats, None)
        except Exception:
            return True
        return bool(problems)
    if "case_seed" in payload:
        return S.replay_case(payload)
    return search("quick", int(payload.get("seed", 0))) is not None
