"""C12 — a model's result does not depend on what happened earlier in the process.

Proof side: Props/C12.v over Gen/Globals.v (every class-level attribute, every write to class state, the
assignments of PEP._reset_classes) and Gen/Guards.v (every use of `verbose`).
Streams (all on the real PEPit):
  history-independence  each seeded program B (several classes, composites, primitive steps, partitions, pep- and
                        function-level LMIs / constraints, several metrics) is run (i) as the first thing of a FRESH
                        interpreter and (ii) in this process after 1..4 further random history items (models built and
                        abandoned / solved / unbounded / recorded, objects outside any PEP, constructions that raise
                        half-way, solve() raising, null objects evaluated), verbose 0 / 1 / 2; what the PEP hands to its
                        wrapper (recorded by a Wrapper subclass registered from here) must be byte-identical.
  verbosity             well-posed programs solved by the real CvxpyWrapper/SCS through a recording subclass under
                        verbose 0, 1, 2: identical solver input, identical result.
  globals-machine       random operation sequences on the real classes vs. Model.Reset.run (vm_compute): indices handed
                        out, globals, registries.
"""
import json
import random
from concurrent.futures import ThreadPoolExecutor

from . import histlib as H
from .common import run_cases, model_output, NPROC, CoqError

GEN_DEPS = ["Globals.v", "Guards.v", "tr_globals", "tr_guards"]
TRUSTED = [
    "translator/tr_globals.py: the scan of class bodies, module tops and `Class.attr` writes (grammar in its docstring); "
    "state reachable only through aliases (x = Point; x.counter = ..) or through C extensions is outside the scan",
    "translator/tr_guards.py: classification of the uses of `verbose`; the purity whitelist of calls inside printed "
    "expressions (format, len, np.min, get_nb_blocks)",
    "Model/Reset.v: the operations' effect on the globals is modelled by hand, tied by the globals-machine stream",
    "the link from `same class-level state after PEP()` to `same solver input` for full programs is established by the "
    "history-independence stream (real code), not by a theorem about the whole pipeline",
    "harness/histlib.py: recording wrapper and canonical dump",
]
ASSUMES = [
    "no code outside PEPit mutates PEPit's class attributes between PEP() and solve()",
    "C12_noninterference is stated for programs that do not call null_point.eval() (finding F-C12a)",
]

SIZES = [1, 2, 2, 3]


def _fresh_many(jobs):
    """jobs: list of (seed, size, verbose) -> list of fresh-interpreter results, in parallel"""
    with ThreadPoolExecutor(max_workers=max(2, min(8, NPROC))) as ex:
        return list(ex.map(lambda j: H.fresh_dump(*j), jobs))


def stream_history(tier, seed, n_programs=None):
    rng = random.Random(seed * 104729 + 12)
    n = n_programs or (25 if tier == "quick" else 150)
    progs = [(rng.randrange(10 ** 6), rng.choice(SIZES)) for _ in range(n)]
    fresh = _fresh_many([(s, z, rng.choice([0, 1, 2])) for s, z in progs])
    H.register()
    problems, samples = [], []
    evaluations, distinct = 0, set()
    hist_kinds, used_hist, lens = {}, {}, []
    chain = []            # everything this process did so far (for replays)
    for (ps, pz), fr in zip(progs, fresh):
        if json.loads(fr["dump"]).get("error"):
            problems.append(dict(kind="program-raised", program=[ps, pz], error=json.loads(fr["dump"])["error"]))
            continue
        for verbose in (0, 1, 2):
            k = rng.randint(1, 4)
            local = []
            for _ in range(k):
                kind = rng.choice(H.HISTORY_KINDS)
                iseed = rng.randrange(10 ** 6)
                try:
                    H.history_item(random.Random(iseed), kind)
                except Exception as e:      # a history item that dies half-way is still history
                    hist_kinds["(raised) " + kind] = hist_kinds.get("(raised) " + kind, 0) + 1
                local.append(["hist", kind, iseed])
                hist_kinds[kind] = hist_kinds.get(kind, 0) + 1
            ns = H.null_state()
            if ns["null_point_dict"] or ns["null_expression_dict"] or ns["null_point_name"] is not None:
                problems.append(dict(kind="null-object-mutated", chain=chain + local, state=ns))
            chain += local
            dump, ret, text, info = H.run_program(ps, pz, verbose)
            chain.append(["prog", ps, pz, verbose])
            evaluations += 1
            nsent = len(json.loads(dump)["sent"] or [])
            lens.append(nsent)
            if nsent >= 6:
                distinct.add((ps, pz, tuple(tuple(x) for x in local)))
            for u in info["used"]:
                used_hist[u] = used_hist.get(u, 0) + 1
            if dump != fr["dump"]:
                payload = dict(kind="history-dependence", program=[ps, pz], verbose=verbose, history=local,
                               first_difference=H.first_difference(fr["dump"], dump))
                # does the local history alone reproduce it in a clean process?  otherwise keep the whole chain
                try:
                    r = H.chain_in_subprocess(local + [["prog", ps, pz, verbose]])
                    payload["chain"] = (local + [["prog", ps, pz, verbose]]) if r[-1]["dump"] != fr["dump"] else list(chain)
                except Exception as e:
                    payload["chain"] = list(chain)
                    payload["note"] = "isolation run failed: %r" % (e,)
                problems.append(payload)
            if verbose == 0 and text.strip():
                # not part of the property, only recorded
                pass
            if len(samples) < 2:
                samples.append(dict(program=[ps, pz], verbose=verbose, history=local, records_sent=nsent,
                                    identical_to_fresh_interpreter=(dump == fr["dump"]), used=info["used"][:8]))
    return dict(name="history-independence", evaluations=evaluations, distinct_nontrivial=len(distinct),
                rule="one evaluation = one (program, history, verbosity) run compared byte-for-byte with the run of the "
                     "same program in a fresh interpreter; non-trivial = at least 6 records sent to the wrapper and a "
                     "non-empty history; distinct by (program seed, size, history items)",
                samples=samples, n_mismatch=0, mismatches=[], problems=problems[:5], n_problems=len(problems),
                distribution=dict(history_items=hist_kinds, program_features=used_hist, programs=len(progs),
                                  records_sent_min=min(lens) if lens else 0, records_sent_max=max(lens) if lens else 0,
                                  process_history_length=len(chain)))


# ------------------------------------------------------------------------------------------ verbosity with a real solve
def solvable_program(seed):
    rng = random.Random(seed * 31 + 5)
    return H.small_solvable(rng, lmi=rng.random() < 0.5), rng


def run_solvable(seed, verbose, heuristic=None):
    H.register()
    pep, rng = solvable_program(seed)
    with H.captured_output() as cap:
        try:
            ret = pep.solve(wrapper=H.RECORDER_CVX, verbose=verbose, dimension_reduction_heuristic=heuristic)
        except Exception as e:          # compared like a result: it must not depend on the verbosity either
            ret = "raised %s" % type(e).__name__
    return json.dumps(getattr(pep.wrapper, "rec", None), sort_keys=True), ret, cap["text"]


def stream_verbosity(tier, seed):
    rng = random.Random(seed * 7 + 1212)
    n = 6 if tier == "quick" else 40
    problems, samples, evaluations = [], [], 0
    maxdiff = 0.0
    printed = {0: 0, 1: 0, 2: 0}
    for _ in range(n):
        s = rng.randrange(10 ** 6)
        heur = rng.choice([None, None, "trace", "logdet1"])
        runs = {v: run_solvable(s, v, heur) for v in (0, 1, 2)}
        evaluations += 3
        for v in (1, 2):
            if runs[v][0] != runs[0][0]:
                problems.append(dict(kind="verbosity-dependence", solvable_seed=s, heuristic=heur, verbose=v,
                                     first_difference=H.first_difference(json.dumps(dict(sent=json.loads(runs[0][0]))),
                                                                         json.dumps(dict(sent=json.loads(runs[v][0]))))))
            a, b = runs[0][1], runs[v][1]
            if isinstance(a, str) or isinstance(b, str):
                if a != b:
                    problems.append(dict(kind="verbosity-dependence", solvable_seed=s, heuristic=heur, verbose=v,
                                         result_verbose0=a, result=b))
            elif (a is None) != (b is None):
                problems.append(dict(kind="verbosity-dependence", solvable_seed=s, heuristic=heur, verbose=v,
                                     result_verbose0=a, result=b))
            elif a is not None:
                maxdiff = max(maxdiff, abs(a - b))
                if abs(a - b) > 1e-6 * max(1.0, abs(a)):
                    problems.append(dict(kind="verbosity-dependence", solvable_seed=s, heuristic=heur, verbose=v,
                                         result_verbose0=a, result=b))
        for v in (0, 1, 2):
            printed[v] += len(runs[v][2])
        if len(samples) < 2:
            samples.append(dict(solvable_seed=s, heuristic=heur, result=runs[0][1],
                                records=len(json.loads(runs[0][0]) or []),
                                printed_chars={v: len(runs[v][2]) for v in (0, 1, 2)}))
    return dict(name="verbosity", evaluations=evaluations, distinct_nontrivial=n,
                rule="one evaluation = one real solve (CvxpyWrapper/SCS behind a recording subclass) of a well-posed "
                     "program under one verbosity; compared: every record sent to the wrapper (exactly) and the "
                     "returned value (1e-6 relative); distinct = distinct program seeds",
                samples=samples, n_mismatch=0, mismatches=[], problems=problems[:5], n_problems=len(problems),
                distribution=dict(printed_chars_by_verbosity=printed, max_abs_result_difference=maxdiff))


# ------------------------------------------------------------------------------------------ the globals machine
OPS = ["NewPEP", "NewPoint", "NewExpression", "NewFunction true", "NewFunction false", "NewLinearOperator",
       "NewConstraint", "NewPSD", "NewPartition", "ReadGlobals", "EvalNull"]
MACHINE_IMPORTS = ["From PV Require Import Model.Reset Gen.Globals."]
MACHINE_RUN = (
    "fun prog : list op => DL (map (fun o : out => match o with OIdx z => DZ z | ONone => DL [] "
    "| OState l => DL (map (fun v : PV.Model.Reset.val => match v with VN z => DZ z "
    "| VL l => DL (map (fun x : option Z => match x with Some z => DZ z | None => DL [] end) l) | VC s => DS s end) l) "
    "| ODim z => DL [DZ z] end) "
    "(fst (PV.Model.Reset.run (fields_of reset_fields) prog (init_state (fields_of class_attrs)))))")


def _class_inits():
    from translator import tr_globals
    c = tr_globals.collect()
    return c["class_attrs"]


def force_fresh_state():
    """put every class attribute back to its class-body value (the harness' own list, read from the sources, NOT
    PEP._reset_classes) and forget the null objects' caches: the state of a fresh interpreter"""
    import PEPit
    from PEPit import null_point, null_expression
    import PEPit.pep
    classes = dict(Point=PEPit.Point, Expression=PEPit.Expression, Function=PEPit.Function, Constraint=PEPit.Constraint,
                   PSDMatrix=PEPit.PSDMatrix, BlockPartition=PEPit.BlockPartition, PEP=PEPit.PEP)
    for cls, attr, iv, _ in _class_inits():
        if cls not in classes:
            continue
        if iv.startswith("IInt"):
            setattr(classes[cls], attr, int(iv.split()[1].strip("()%Z")))
        elif iv == "IEmptyList":
            setattr(classes[cls], attr, list())
        elif iv == "IEmptyDict":
            setattr(classes[cls], attr, dict())
        elif iv == "IEmptySet":
            setattr(classes[cls], attr, set())
    null_point._value = None
    null_expression._value = None


def impl_machine(ops):
    from PEPit import PEP, Point, Expression, Function, Constraint, PSDMatrix, BlockPartition, null_point, null_expression
    from PEPit.operators import LinearOperator
    force_fresh_state()
    outs = []
    for o in ops:
        if o == "NewPEP":
            outs.append(PEP().counter)
        elif o == "NewPoint":
            outs.append(Point().counter)
        elif o == "NewExpression":
            outs.append(Expression().counter)
        elif o == "NewFunction true":
            outs.append(Function(is_leaf=True).counter)
        elif o == "NewFunction false":
            outs.append(Function(is_leaf=False, decomposition_dict=dict()).counter)
        elif o == "NewLinearOperator":
            outs.append(LinearOperator(L=1.).counter)
        elif o == "NewConstraint":
            outs.append(Constraint(null_expression, "equality").counter)
        elif o == "NewPSD":
            outs.append(PSDMatrix([[null_expression]]).counter)
        elif o == "NewPartition":
            outs.append(BlockPartition(2).counter)
        elif o == "ReadGlobals":
            outs.append([Point.counter, [p.counter for p in Point.list_of_leaf_points],
                         Expression.counter, [e.counter for e in Expression.list_of_leaf_expressions],
                         Function.counter, [f.counter for f in Function.list_of_functions],
                         Constraint.counter, PSDMatrix.counter,
                         BlockPartition.counter, [p.counter for p in BlockPartition.list_of_partitions],
                         PEP.counter])
        elif o == "EvalNull":
            outs.append([len(null_point.eval())])
        else:
            raise KeyError(o)
    return outs


def suffix_differs(ops, full_out):
    """property oracle on the implementation at the level of operations: what follows the last PEP() must give the same
    outputs whether it runs from the fresh-interpreter state or after the operations before it (null_point.eval()
    excepted: finding F-C12a)"""
    idx = [i for i, o in enumerate(ops) if o == "NewPEP" and i > 0]
    if not idx:
        return None
    i = idx[-1]
    fresh_out = impl_machine(ops[i:])
    keep = [j for j, o in enumerate(ops[i:]) if o != "EvalNull"]
    a = [full_out[i:][j] for j in keep]
    b = [fresh_out[j] for j in keep]
    if a != b:
        return dict(kind="op-history-dependence", ops=ops, index_of_PEP=i, after_history=a, fresh=b)
    return None


def coq_ops(ops):
    return "[" + "; ".join(("(%s)" % o) if " " in o else o for o in ops) + "]"


def gen_ops(rng):
    n = rng.choice([3, 6, 10, 16, 24])
    ops = []
    for _ in range(n):
        r = rng.random()
        if r < 0.12:
            ops.append("NewPEP")
        elif r < 0.22:
            ops.append("ReadGlobals")
        elif r < 0.27:
            ops.append("EvalNull")
        else:
            ops.append(rng.choice(OPS[1:9]))
    ops.append("ReadGlobals")
    return ops


def stream_machine(tier, seed):
    rng = random.Random(seed * 15485863 + 120)
    n = 300 if tier == "quick" else 3000
    cases, progs, problems = [], [], []
    hist = {}
    n_suffix = 0
    for _ in range(n):
        ops = gen_ops(rng)
        d = impl_machine(ops)
        cases.append((coq_ops(ops), d))
        progs.append(ops)
        for o in ops:
            hist[o] = hist.get(o, 0) + 1
        bad = suffix_differs(ops, d)
        n_suffix += bad is not None
        if bad:
            problems.append(bad)
    force_fresh_state()
    try:
        bad = run_cases("c12m", MACHINE_IMPORTS, MACHINE_RUN, cases, input_type="list op")
    except CoqError as e:       # the model does not build: reported as a broken stream
        return dict(name="globals-machine", evaluations=0, distinct_nontrivial=0, rule="(model unavailable)",
                    samples=[dict(error=str(e)[-800:])], n_mismatch=1,
                    mismatches=[dict(kind="model-unavailable", error=str(e)[-1500:])], problems=[], distribution={})
    mism = [dict(kind="model-differs", ops=progs[i], implementation=cases[i][1],
                 model=model_output(MACHINE_IMPORTS, MACHINE_RUN, cases[i][0])) for i in bad[:4]]
    return dict(name="globals-machine", evaluations=len(cases),
                distinct_nontrivial=len(set(tuple(p) for p in progs if len(p) >= 6)),
                rule="seeded operation sequences (constructors of the 7 classes with class-level state, PEP(), reading the "
                     "globals, null_point.eval()) started from the fresh-interpreter state; compared: every index handed "
                     "out, every counter and registry; non-trivial = at least 6 operations; distinct by sequence",
                samples=[dict(ops=progs[i], outputs=cases[i][1]) for i in range(min(2, len(cases)))],
                n_mismatch=len(bad), mismatches=mism, problems=problems[:5], n_problems=len(problems),
                distribution=dict(ops=hist, lengths=sorted(set(len(p) for p in progs)),
                                  suffix_after_PEP_compared_with_fresh_state=sum(1 for p in progs if "NewPEP" in p[1:])))


def correspondence(tier, seed, corpus=()):
    out = []
    # stored replays first
    problems = []
    for payload in corpus or []:
        if replay(payload):
            problems.append(dict(kind="corpus-case-fails", case=payload))
    for name, fn in (("history-independence", stream_history), ("verbosity", stream_verbosity),
                     ("globals-machine", stream_machine)):
        try:
            s = fn(tier, seed)
        except Exception:       # one stream dying must not hide what the others found
            import traceback
            s = dict(name=name, evaluations=0, distinct_nontrivial=0, rule="(stream crashed)", samples=["(stream crashed)"],
                     n_mismatch=1, mismatches=[dict(kind="stream-crashed", error=traceback.format_exc()[-1500:])],
                     problems=[], distribution={})
        out.append(s)
    out[0]["problems"] = (problems + out[0]["problems"])[:5]
    return out


# ------------------------------------------------------------------------------------------ search / findings / replay
def _fails(chain, fresh_cache):
    """run the chain in a clean process; True iff some program's dump differs from its fresh-interpreter dump"""
    res = [r for r in H.chain_in_subprocess(chain) if "dump" in r]
    progs = [it for it in chain if it[0] == "prog"]
    for it, r in zip(progs, res):
        key = (it[1], it[2])
        if key not in fresh_cache:
            fresh_cache[key] = H.fresh_dump(it[1], it[2], 1)["dump"]
        if r["dump"] != fresh_cache[key]:
            return dict(program=[it[1], it[2]], verbose=it[3], first_difference=H.first_difference(fresh_cache[key], r["dump"]))
    return None


def search(tier, seed):
    """longer / more histories than the stream, each (history, program) pair in its own clean process; a failing pair
    is shrunk (history items removed one by one while the difference persists)"""
    rng = random.Random(seed + 121212)
    n = 16 if tier == "quick" else 120
    fresh_cache = {}
    jobs = []
    for _ in range(n):
        hist = [["hist", rng.choice(H.HISTORY_KINDS), rng.randrange(10 ** 6)] for _ in range(rng.randint(1, 8))]
        jobs.append(hist + [["prog", rng.randrange(10 ** 6), rng.choice(SIZES), rng.choice([0, 1, 2])]])
    with ThreadPoolExecutor(max_workers=max(2, min(8, NPROC))) as ex:
        results = list(ex.map(lambda c: _fails(c, fresh_cache), jobs))
    for chain, bad in zip(jobs, results):
        if bad:
            hist, prog = chain[:-1], chain[-1]
            i = 0
            while i < len(hist):
                cand = hist[:i] + hist[i + 1:]
                b2 = _fails(cand + [prog], fresh_cache)
                if b2:
                    hist, bad = cand, b2
                else:
                    i += 1
            return dict(kind="history-dependence", chain=hist + [prog], **bad)
    # verbosity on real solves
    s = stream_verbosity("quick", seed + 1)
    if s["problems"]:
        return s["problems"][0]
    bad = probe_results_after_history()
    if bad:
        return bad
    return None


def probe_results_after_history():
    """RESULTS (not solver input) of a model B after a solved model A of another size, in a child process: the value of B's
    stationary gradient -- a zero vector -- has as many coordinates as B's other points (a module-level null object handed
    out as that gradient would keep the length of model A: seed C12-12)."""
    code = (
        "import warnings; warnings.filterwarnings('ignore')\n"
        "from PEPit import PEP\n"
        "from PEPit.functions import SmoothConvexFunction\n"
        "def model(n):\n"
        "    pep = PEP(); f = pep.declare_function(SmoothConvexFunction, L=1.)\n"
        "    xs = f.stationary_point(); x = pep.set_initial_point(); pep.set_initial_condition((x - xs) ** 2 <= 1)\n"
        "    for _ in range(n): x = x - f.gradient(x)\n"
        "    pep.set_performance_metric(f(x) - f(xs)); pep.solve(verbose=0)\n"
        "    g = f.list_of_stationary_points[0][1]\n"
        "    return len(g.eval()), len(xs.eval())\n"
        "a = model(1); b = model(3)\n"
        "print('RES', a[0], a[1], b[0], b[1])\n")
    import subprocess
    import sys
    try:
        out = subprocess.run([sys.executable, "-c", code], capture_output=True, text=True, timeout=300).stdout
        vals = [int(x) for x in out.split("RES")[1].split()]
    except Exception:
        return None
    if vals[2] != vals[3]:
        return dict(kind="result-depends-on-history", what="stationary gradient of the second model evaluates to a vector of "
                    "length %d, its points have %d coordinates (the first model had %d)" % (vals[2], vals[3], vals[1]),
                    program="model(1); model(3): gradient-descent PEPs with 1 and 3 steps, stationary gradient evaluated after each solve")
    return None


def null_point_leak():
    """F-C12a on the real code: True iff null_point.eval() after a new PEP still has the length of the earlier model"""
    from PEPit import PEP, Point, null_point
    saved = null_point._value
    try:
        null_point._value = None             # as in a fresh interpreter
        PEP()
        for _ in range(3):
            Point()
        a = len(null_point.eval())           # 3
        PEP()
        Point()
        b = len(null_point.eval())           # fresh interpreter: 1
        return (a, b, Point.counter), b != Point.counter
    finally:
        null_point._value = saved


def known_findings(known):
    out = []
    for k in known:
        if k["id"] == "F-C12a":
            try:
                (a, b, n), still = null_point_leak()
            except Exception as e:       # the replay itself must never take the check down
                out.append((k["id"], False, "replay raised %s: %s" % (type(e).__name__, str(e)[:80])))
                continue
            out.append((k["id"], still, "null_point.eval() keeps the zero vector of an earlier model: history PEP(); 3x Point(); "
                        "null_point.eval() -> length %d; then PEP(); Point(); null_point.eval() -> length %d, Point.counter = %d "
                        "(fresh interpreter: %d)" % (a, b, n, n)))
        else:
            out.append((k["id"], False, "no replay known for this id"))
    return out


def is_known(payload, known):
    ids = [k["id"] for k in known]
    if payload.get("kind") == "null-point-cache" and "F-C12a" in ids:
        return "F-C12a"
    return None


def replay(payload):
    kind = payload.get("kind")
    if kind == "history-dependence":
        return _fails([list(x) for x in payload["chain"]], {}) is not None
    if kind == "verbosity-dependence":
        s, heur, v = payload["solvable_seed"], payload.get("heuristic"), payload["verbose"]
        a, b = run_solvable(s, 0, heur), run_solvable(s, v, heur)
        if a[0] != b[0] or (a[1] is None) != (b[1] is None) or isinstance(a[1], str) != isinstance(b[1], str):
            return True
        if isinstance(a[1], str):
            return a[1] != b[1]
        return a[1] is not None and abs(a[1] - b[1]) > 1e-6 * max(1.0, abs(a[1]))
    if kind == "result-depends-on-history":
        return probe_results_after_history() is not None
    if kind == "null-point-cache":
        return null_point_leak()[1]
    if kind == "null-object-mutated":
        r = H.chain_in_subprocess([list(x) for x in payload["chain"]] + [["nullstate"]])
        ns = r[-1]["null"]
        return bool(ns["null_point_dict"] or ns["null_expression_dict"] or ns["null_point_name"] is not None)
    if kind == "op-history-dependence":
        return suffix_differs(payload["ops"], impl_machine(payload["ops"])) is not None
    if kind == "model-differs" or "ops" in payload:
        ops = payload["ops"]
        d = impl_machine(ops)
        return bool(run_cases("c12r", MACHINE_IMPORTS, MACHINE_RUN, [(coq_ops(ops), d)], input_type="list op"))
    if kind == "program-raised":
        ps, pz = payload["program"]
        return bool(json.loads(H.fresh_dump(ps, pz, 1)["dump"]).get("error"))
    if "broken" in payload:
        return _obligations_broken("C12", GEN_DEPS)
    return False


def _obligations_broken(pid, deps):
    """a replay that names a proof / generated obligation instead of an input: regenerate Gen/, rebuild Props/<pid>.vo"""
    from translator import pep2coq
    from . import common
    st = pep2coq.regenerate()
    if any(v is not True for k, v in st.items() if any(k == g or k.startswith(g + ":") for g in deps)):
        return True
    common.regenerate_makefile()
    ok, _ = common.make(["Props/%s.vo" % pid])
    return not ok
