"""Driver of every check (see DESIGN.md §1.3).

  1 regenerate coq/Gen/*.v from /repo's working tree (translator, fail-closed)
  2 build the .vo closure of Props/<id>.v; collect theorems + Print Assumptions
  3 correspondence streams of the property (model evaluated by coqc/vm_compute vs. the implementation)
  4 replay KNOWN_FINDINGS entries of the property on the implementation
  5 if 1-3 broke: failing-input search on the implementation
  6 evidence/<id>.json, exit status, VIOLATION / KNOWN-FINDING lines
"""
import argparse
import importlib
import json
import os
import sys
import time
import traceback

from . import common
from .common import VERIF, COQ

def _discover():
    """every harness/p_cNN.py is the check of property CNN; its GEN_DEPS (prefixes of translator status keys,
    e.g. "Classes.v") name the generated files its proofs depend on"""
    reg = {}
    here = os.path.dirname(os.path.abspath(__file__))
    for fn in sorted(os.listdir(here)):
        if fn.startswith("p_c") and fn.endswith(".py"):
            reg["C" + fn[3:-3].upper()] = (fn[:-3], None)
    return reg


REGISTRY = _discover()

TRUSTED_COMMON = [
    "Coq 8.16.1 kernel + vm_compute (no native_compute)",
    "translator/pep2coq.py (Python ast -> Gallina, fail-closed) for every Gen/*.v the property depends on",
    "correspondence harness (generators, canonical dumps, comparison by Model.Dump.D_eqb inside Coq)",
    "model computes in exact rationals; float rounding of coefficient arithmetic is outside the model",
    "Model/*.v and Spec/*.v are modelled / specified by hand, tied to the code by the correspondence streams",
]


def load_known():
    """KNOWN_FINDINGS.json (+ known_findings.d/*.json, one file per property while it is being built):
    open findings, each identified by its specific trigger.  Never written at run time."""
    out = []
    paths = [os.path.join(VERIF, "KNOWN_FINDINGS.json")]
    d = os.path.join(VERIF, "known_findings.d")
    if os.path.isdir(d):
        paths += sorted(os.path.join(d, f) for f in os.listdir(d) if f.endswith(".json"))
    for p in paths:
        if os.path.exists(p):
            out += json.load(open(p)).get("findings", [])
    return out


def setup():
    """build everything once (full .vo build, keep going); fails only when the proof closure of a property
    claimed in MANIFEST.json does not build or a forbidden construct is present"""
    from translator import pep2coq
    st = pep2coq.regenerate()
    bad = {k: v for k, v in st.items() if v is not True}
    for k, v in bad.items():
        print("translator:", k, v)
    common.regenerate_makefile()
    ok, log = common.make([], keep_going=True)
    sys.stdout.write(log[-2500:])
    hits = common.scan_forbidden()
    if hits:
        print("forbidden constructs:\n" + "\n".join(hits))
        return 1
    claimed = []
    try:
        claimed = [c["property_id"] for c in json.load(open(os.path.join(VERIF, "MANIFEST.json")))["checks"]]
    except Exception as e:
        print("cannot read MANIFEST.json:", e)
    missing = [pid for pid in claimed if not os.path.exists(os.path.join(COQ, "Props", pid + ".vo"))]
    if missing:
        print("proof closure not built for claimed properties:", missing)
        return 1
    print("setup: %s; claimed properties built: %s" % ("all files built" if ok else "some unclaimed files did not build", claimed))
    return 0


def run_check(pid, tier, seed):
    t0 = time.time()
    modname, gen_deps = REGISTRY[pid]
    mod = importlib.import_module("harness." + modname)
    broken = []       # names of obligations / streams that no longer check
    violations = []   # (payload, found_input: bool)
    notes = []

    # 1 ---- translator
    from translator import pep2coq
    gen_status = pep2coq.regenerate()
    gen_deps = list(getattr(mod, "GEN_DEPS", []))
    for key, st in sorted(gen_status.items()):
        if st is not True and any(key == g or key.startswith(g + ":") or key == g.split(".")[0] for g in gen_deps):
            broken.append(dict(what="translator", item=key, error=str(st)))

    # 2 ---- proofs
    common.regenerate_makefile()
    ok, log = common.make(["Props/%s.vo" % pid])
    rep = common.props_report(pid)
    forbidden = common.scan_forbidden()
    obligations = len(rep["theorems"])
    discharged = obligations if (ok and rep["ok"] and not forbidden) else 0
    if not (ok and rep["ok"]):
        failing = sorted(set(l.split('"')[1] for l in log.split("\n") if l.startswith('File "') and "Error" not in l))
        errs = [l for l in log.split("\n") if "Error" in l or l.startswith('File "')]
        broken.append(dict(what="proof", files=failing, log="\n".join(errs[-12:])[-2500:] + rep["log"][-1500:]))
    if forbidden:
        broken.append(dict(what="forbidden-construct", hits=forbidden))
    axioms = sorted(set(a for l in rep["assumptions"].values() for a in l))
    coqchk = None
    if tier == "thorough" and ok and rep["ok"]:
        ck_ok, ck_axioms, ck_tail = common.coqchk_axioms(pid)
        coqchk = dict(ok=ck_ok, axioms_of_all_loaded_libraries=ck_axioms, output_tail=ck_tail)
        if not ck_ok:
            broken.append(dict(what="coqchk", log=ck_tail))

    # 3 ---- correspondence
    streams = []
    try:
        corpus = load_corpus(pid)
        res = mod.correspondence(tier, seed, corpus or [])
        streams = res if isinstance(res, list) else [res]
    except Exception as e:
        broken.append(dict(what="correspondence-crashed", error=traceback.format_exc()[-3000:]))
    known = [k for k in load_known() if k["property"] == pid and k.get("status", "open") == "open"]
    for s in streams:
        for pr in s.get("problems", []):
            violations.append((dict(stream=s["name"], **pr), True))
        if s.get("n_mismatch", 0) > 0:
            broken.append(dict(what="correspondence", stream=s["name"], n=s["n_mismatch"], first=s["mismatches"][:2]))

    # 4 ---- known findings
    kf_lines = []
    if hasattr(mod, "known_findings"):
        for fid, still, what in mod.known_findings(known):
            if still:
                kf_lines.append("KNOWN-FINDING: property=%s %s %s" % (pid, fid, what))
            else:
                notes.append("known finding %s no longer reproduces" % fid)

    # a violation that is a listed known finding is not reported again
    if hasattr(mod, "is_known"):
        kept = []
        for payload, found in violations:
            fid = mod.is_known(payload, known) if found else None
            if fid:
                line = "KNOWN-FINDING: property=%s %s (re-found by this run)" % (pid, fid)
                if not any(fid in l for l in kf_lines):
                    kf_lines.append(line)
            else:
                kept.append((payload, found))
        violations = kept

    # 5 ---- failing-input search when something broke
    if broken and not violations:
        found = None
        try:
            found = mod.search(tier, seed) if hasattr(mod, "search") else None
        except Exception:
            notes.append("search crashed: " + traceback.format_exc()[-1500:])
        if found is not None:
            violations.append((dict(found_by="search", broken=broken, **found), True))
        else:
            violations.append((dict(broken=broken, note="no failing input found by the search; the listed theorem / "
                                    "correspondence stream no longer checks, so the property is no longer shown to hold"),
                               False))
    if hasattr(mod, "is_known"):
        kept = []
        for payload, found in violations:
            fid = mod.is_known(payload, known) if found else None
            if fid:
                if not any(fid in l for l in kf_lines):
                    kf_lines.append("KNOWN-FINDING: property=%s %s (re-found by this run)" % (pid, fid))
                # the broken obligation itself is still unexplained by a NEW failing input
                kept.append((dict(broken=broken, note="the only failing input found is the listed known finding %s; the "
                                  "listed theorem / correspondence stream no longer checks" % fid), False))
            else:
                kept.append((payload, found))
        violations = kept
    n_viol_total = len(violations)
    violations = violations[:1]      # one VIOLATION line per run; the count goes to the evidence
    # 6 ---- evidence + verdict
    wall = time.time() - t0
    evals = sum(s.get("evaluations", 0) for s in streams)
    distinct = sum(s.get("distinct_nontrivial", 0) for s in streams)
    samples = []
    for s in streams:
        samples += [dict(stream=s["name"], **x) if isinstance(x, dict) else x for x in s.get("samples", [])[:2]]
    samples += [dict(obligation=t, axioms=rep["assumptions"].get(t)) for t in rep["theorems"][:3]]
    coverage = dict(
        obligations=max(obligations, 1), discharged=discharged,
        checker_cmd="make -C /verif/coq Props/%s.vo (coqc 8.16.1, full .vo build) ; coqc Props/%s.v for Print Assumptions" % (pid, pid),
        trusted_base=TRUSTED_COMMON + ["axioms (Print Assumptions): " + (", ".join(axioms) or "none")] +
                     list(getattr(mod, "TRUSTED", [])),
        theorems=rep["theorems"], assumptions_per_theorem=rep["assumptions"],
        evaluations=evals, distinct_nontrivial=distinct,
        rule="; ".join("%s: %s" % (s["name"], s.get("rule", "")) for s in streams),
        samples=samples or ["(no stream ran)"],
        traces_validated_against_impl=evals,
        streams=[{k: v for k, v in s.items() if k not in ("samples", "mismatches", "problems")} for s in streams],
        generated_files={k: (v is True) for k, v in gen_status.items()},
        broken=broken, notes=notes, known_findings=kf_lines, coqchk=coqchk,
    )
    common.write_evidence(pid, tier, seed, coverage,
                          assumptions=TRUSTED_COMMON + list(getattr(mod, "ASSUMES", [])),
                          wall=wall, violations=n_viol_total)
    for l in kf_lines:
        print(l)
    rc = 0
    for payload, found in violations:
        path = common.write_replay(pid, dict(property=pid, seed=seed, tier=tier, **payload))
        print("VIOLATION property=%s replay=%s%s" % (pid, path, "" if found else " no-failing-input-found"))
        rc = 1
    print("%s: %d/%d obligations, %d correspondence cases, %d violation(s), %.1fs" %
          (pid, discharged, obligations, evals, len(violations), wall))
    common.cleanup_workdir()
    return rc


def load_corpus(pid):
    p = os.path.join(VERIF, "corpus", pid + ".json")
    if not os.path.exists(p):
        return None
    return json.load(open(p))


def replay(path):
    payload = json.load(open(path))
    pid = payload["property"]
    mod = importlib.import_module("harness." + REGISTRY[pid][0])
    if not hasattr(mod, "replay"):
        print("no replay for", pid)
        return 2
    still = mod.replay(payload)
    print("replay %s: %s" % (path, "STILL FAILS" if still else "passes"))
    common.cleanup_workdir()
    return 1 if still else 0


def main():
    ap = argparse.ArgumentParser()
    ap.add_argument("what")
    ap.add_argument("arg", nargs="?")
    ap.add_argument("--tier", default=os.environ.get("VERIF_TIER", "quick"))
    a = ap.parse_args()
    seed = int(os.environ.get("VERIF_SEED", "0") or 0)
    if a.what == "setup":
        sys.exit(setup())
    if a.what == "replay":
        sys.exit(replay(a.arg))
    if a.what == "all":
        rc = 0
        for pid in sorted(REGISTRY):
            rc |= run_check(pid, a.tier, seed)
        sys.exit(rc)
    sys.exit(run_check(a.what, a.tier if a.tier in ("quick", "thorough") else "quick", seed))


if __name__ == "__main__":
    main()
