"""Correspondence stream "class generation" (used by C04, C17 and C03).

For each of the 24 shipped classes: random recorded sample lists through the REAL API (oracle / gradient /
value / stationary_point / fixed_point / add_point, repeated evaluations, stationary points declared first, in
the middle, last or never; named and unnamed points and functions; LinearOperator with samples of T;
NonexpansiveOperator with v), then the real Function.set_class_constraints(), and a canonical dump of
  list_of_class_constraints (names + dictionaries + senses), list_of_class_psd, tables_of_constraints (cell by
  cell: scalar 0 or the *object*, identified by its position in list_of_class_constraints; index / column
  labels), get_class_constraints_duals() after tagging every class constraint with its position, the resulting
  sample lists and the Point / Expression counters,
compared inside Coq with  dump_genout (run_plan plan_<Class> state)  on the same state.

A second family of cases calls the two generic generators of function.py directly with arbitrary pairs of
lists (different lists, shared and non-shared triplet objects, empty lists, both symmetry flags).

Every case is rebuilt deterministically from (kind, class, case_seed, forced placement): that triple is the
replayable description of a case.

The module also holds the hand-written REFERENCE conditions of the 24 classes (mirror of coq/Spec/Reference.v,
typed from the docstrings / papers, independent of the PEPit formulas) and exact-rational evaluators, used by
the C04 / C17 property checks on the implementation."""
import random
import time
from fractions import Fraction

from . import classes as K
from .common import run_cases, model_output

IMPORTS = ["From PV Require Import Model.ClassGen Model.ClassDump Gen.Classes."]
RUN = "fun c => dump_genout (run_plan (fst c) (snd c))"
INPUT_TYPE = "(list plan_item * fstate)"

# (class, method, arity) used by the raw-generator cases; the Coq name of the translated formula is
# f_<class>_<method without set_>
RAW_FORMULAS = [
    ("ConvexFunction", "set_convexity_constraint_i_j", 6),
    ("SmoothConvexFunction", "set_smoothness_convexity_constraint_i_j", 6),
    ("MonotoneOperator", "set_monotonicity_constraint_i_j", 6),
    ("LipschitzOperator", "set_lipschitz_continuity_constraint_i_j", 6),
    ("SkewSymmetricLinearOperator", "set_antisymmetric_linear_constraint_i_j", 6),
    ("ConvexLipschitzFunction", "set_lipschitz_continuity_constraint_i", 3),
    ("ConvexSupportFunction", "set_fenchel_value_constraint_i", 3),
]


# ------------------------------------------------------------------------------------------ cases
def _stage(func, name, case_seed, forced, ctx, resolve, regen, stage):
    """snapshot the state, run the real set_class_constraints(), dump"""
    oid = K.ObjIds()
    state = K.coq_fstate(func, oid, declared=ctx.get("params"))
    func.tables_of_constraints = K.RecDict(func.tables_of_constraints)     # records which tables this call writes
    func.set_class_constraints()
    dump = K.py_genout(func, oid)
    meta = dict(kind="class", cls=name, case_seed=case_seed, forced=forced, regen=regen, stage=stage,
                params=ctx["params"], ops=ctx["kinds"], named_function=ctx["named"],
                stationary_at=ctx["stationary_at"], resolve=resolve,
                n_points=len(func.list_of_points), n_stationary=len(func.list_of_stationary_points),
                n_constraints=len(func.list_of_class_constraints), n_lmi=len(func.list_of_class_psd),
                n_tables=len(func.tables_of_constraints),
                names=[c.get_name() for c in func.list_of_class_constraints[:3]])
    return ("(plan_%s, %s)" % (name, state), dump, meta, func)


def class_stages(case_seed, name, forced=None, regen=False):
    """generator over the stages of one class case, each a tuple (coq input, dump, meta, func) taken right after a
    real set_class_constraints():
      stage 0  first generation on the recorded samples;
    and, for REGENERATION cases (regen=True: what a second / third solve of the same PEP object does),
      stage 1  set_class_constraints() again on the unchanged function,
      stage 2  one more sample recorded (a new oracle call at a new point; for LinearOperator sometimes only on
               its transpose), then set_class_constraints() a third time.
    The model has no memory: every stage is one more evaluation of run_plan on the state of that moment."""
    from PEPit import Point
    rng = random.Random(case_seed)
    kw = {}
    if forced in ("empty", "A-only", "T-only"):
        # zero-sample cases of the linear operator classes: declared but never evaluated; a LinearOperator used only
        # through A.gradient (no sample of its transpose); only through A.T
        kw = dict(nsamples=(0 if forced != "A-only" else rng.choice([1, 2])), stationary_at="none",
                  t_samples=(rng.choice([1, 2]) if forced == "T-only" else 0))
    elif forced is not None:
        kw = dict(stationary_at=forced, nsamples=rng.choice([2, 3, 4]))
    func, ctx = K.build_function(rng, name, **kw)
    resolve = rng.random() < 0.2
    if resolve:
        func.set_class_constraints()       # an earlier solve: lists and tables already filled once
    yield _stage(func, name, case_seed, forced, ctx, resolve, regen, 0)
    if not regen:
        return
    yield _stage(func, name, case_seed, forced, ctx, resolve, regen, 1)
    ctx = dict(ctx, kinds=list(ctx["kinds"]))
    only_T = (name == "LinearOperator" and rng.random() < 0.5)
    if only_T:
        func.T.gradient(Point())
        ctx["kinds"].append("late:T.gradient")
    else:
        func.oracle(Point())
        ctx["kinds"].append("late:oracle")
        if name == "LinearOperator" and rng.random() < 0.5:
            func.T.gradient(Point())
            ctx["kinds"].append("late:T.gradient")
    yield _stage(func, name, case_seed, forced, ctx, resolve, regen, 2)


def class_case(case_seed, name, forced=None, regen=False, stage=0):
    """one case through the class's own add_class_constraints; returns (coq input, dump, meta, func) of the
    requested stage"""
    for k, st in enumerate(class_stages(case_seed, name, forced, regen)):
        if k == stage:
            return st
    raise ValueError("no stage %d" % stage)


def regen_checks(prev, cur):
    """what must hold of a REgeneration, checked on the implementation (prev / cur: stage tuples, func is the same
    live object): list_of_class_psd does not grow (fix 3c192be); every table cell holding an object holds an
    object of the CURRENT list_of_class_constraints (C17_tables_hold_objects); on an unchanged function the
    regenerated constraints are the same dictionaries under the same names."""
    from PEPit.constraint import Constraint
    out = []
    func = cur[3]
    stage = cur[2]["stage"]
    if stage == 1 and cur[2]["n_lmi"] != prev[2]["n_lmi"]:
        out.append(dict(kind="regeneration-lmi-list-changes", before=prev[2]["n_lmi"], after=cur[2]["n_lmi"]))
    if stage == 1 and (cur[1][0] != _plain(prev[1][0]) and _plain(cur[1][0]) != _plain(prev[1][0])):
        out.append(dict(kind="regeneration-of-unchanged-function-differs",
                        n_before=len(prev[1][0]), n_after=len(cur[1][0])))
    current = {id(c) for c in func.list_of_class_constraints}
    for key, df in func.tables_of_constraints.items():
        stale = sum(1 for row in df.values for el in row if isinstance(el, Constraint) and id(el) not in current)
        if stale:
            out.append(dict(kind="regeneration-table-holds-objects-of-a-previous-generation", condition=key,
                            cells=stale, stage=stage))
            break
    return out


def _plain(d):
    """dump tree -> comparable plain data (Q markers to Fractions)"""
    from .common import Q
    if isinstance(d, Q):
        return d.v
    if isinstance(d, (list, tuple)):
        return [_plain(x) for x in d]
    return d


def raw_case(case_seed):
    """one case through function.py's generic generators, called directly with two arbitrary lists"""
    from PEPit import PEP, Point
    rng = random.Random(case_seed)
    cls, method, arity = rng.choice(RAW_FORMULAS)
    pep = PEP()
    params = K.draw_params(rng, cls)
    named = rng.random() < 0.3
    func = K.declare(pep, rng, cls, params, named)
    leaves = [Point() for _ in range(rng.randint(2, 4))]
    pool = []
    for _ in range(rng.randint(0, 5)):
        x = K.rand_point(rng, leaves)
        g = K.rand_point(rng, leaves)
        f = K.rand_expr(rng, [], leaves)
        if rng.random() < 0.3:
            x.set_name(rng.choice(K.POINT_NAMES))
        pool.append((x, g, f))

    def sublist():
        if not pool:
            return []
        l = [t for t in pool if rng.random() < 0.7]
        rng.shuffle(l)
        if l and rng.random() < 0.2:
            l.append(rng.choice(l))                     # the same tuple object twice
        if l and rng.random() < 0.2:
            x, g, f = rng.choice(l)
            l.append((x, g, f))                          # a distinct tuple holding the same objects
        return l
    l1 = sublist()
    mode = rng.random()
    l2 = l1 if mode < 0.4 else (list(l1) if mode < 0.5 else sublist())
    sym = rng.random() < 0.5
    cname = rng.choice(["cond", "convexity", "c_1"])
    oid = K.ObjIds()
    par = {K.PARAMS[k]: (Fraction(0) if v == K.INF else K.T.to_fraction(v)) for k, v in params.items()}
    inf = {K.PARAMS[k]: True for k, v in params.items() if v == K.INF}
    fname = "f_%s_%s" % (cls, method[4:])
    if arity == 6:
        state = K.coq_state(K.function_id(func), par, inf, l1, [], l2, None, oid)
        plan = '[Pairs LPoints LTPoints %s %s %s]' % (K.coq_str(cname), fname, "true" if sym else "false")
        func.add_constraints_from_two_lists_of_points(list_of_points_1=l1, list_of_points_2=l2,
                                                      constraint_name=cname,
                                                      set_class_constraint_i_j=getattr(func, method), symmetry=sym)
    else:
        state = K.coq_state(K.function_id(func), par, inf, l1, [], [], None, oid)
        plan = '[Singles LPoints %s %s]' % (K.coq_str(cname), fname)
        func.add_constraints_from_one_list_of_points(list_of_points=l1, constraint_name=cname,
                                                     set_class_constraint_i=getattr(func, method))
    dump = K.py_genout(func, oid, points=l1, stat=[])
    meta = dict(kind="raw", cls=cls, case_seed=case_seed, method=method, arity=arity, symmetry=sym,
                same_list=(l2 is l1), n1=len(l1), n2=len(l2), cname=cname,
                n_constraints=len(func.list_of_class_constraints),
                names=[c.get_name() for c in func.list_of_class_constraints[:3]])
    func._verif_raw = dict(l1=l1, l2=l2 if arity == 6 else None, sym=sym, cname=cname)
    return ("(%s, %s)" % (plan, state), dump, meta, func)


def rebuild(meta):
    """rebuild a case (at its stage) from its replayable description"""
    if meta["kind"] == "raw":
        return raw_case(meta["case_seed"])
    return class_case(meta["case_seed"], meta["cls"], meta.get("forced"), bool(meta.get("regen")),
                      int(meta.get("stage") or 0))


def stages_of(desc):
    """all stage tuples of a case description, in order (generator)"""
    if desc["kind"] == "raw":
        yield raw_case(desc["case_seed"])
    else:
        for st in class_stages(desc["case_seed"], desc["cls"], desc.get("forced"), bool(desc.get("regen"))):
            yield st


def short(meta):
    return dict(kind=meta["kind"], cls=meta["cls"], case_seed=meta["case_seed"], forced=meta.get("forced"),
                regen=bool(meta.get("regen")), stage=int(meta.get("stage") or 0))


def case_list(seed, n_class, n_raw, classes=None):
    """the replayable descriptions of the cases of a run"""
    classes = classes or K.ALL_CLASSES
    rng = random.Random(seed * 104729 + 417)
    out = []
    per = max(1, n_class // len(classes))
    forced = ["first", "middle", "last", "none"]
    for name in classes:
        for k in range(per):
            # one class case in three is a regeneration case (three generations on one live function)
            out.append(dict(kind="class", cls=name, case_seed=rng.getrandbits(48),
                            forced=forced[k] if k < len(forced) else None, regen=(k % 3 == 2)))
    for _ in range(n_raw):
        out.append(dict(kind="raw", cls=None, case_seed=rng.getrandbits(48)))
    # zero-sample cases of the classes that carry an LMI (no 0 x 0 LMI may be generated: /repo 818e4b8)
    for name, modes in (("LinearOperator", ("empty", "A-only", "T-only")), ("SymmetricLinearOperator", ("empty",)),
                        ("SkewSymmetricLinearOperator", ("empty",)), ("SmoothStronglyConvexQuadraticFunction", ("empty",))):
        if name in classes:
            for mode in modes:
                for regen in (False, True):
                    out.append(dict(kind="class", cls=name, case_seed=rng.getrandbits(48), forced=mode, regen=regen))
    return out


def run_stream(tag, tier, seed, on_case=None, classes=None, sizes=None):
    """the stream dict of BUILDING.md (name, evaluations, distinct_nontrivial, rule, samples, mismatches, ...).
    on_case(meta, func) may inspect the real objects of each case (C04 / C17 check their property directly on
    the implementation there) and returns a list of problem dicts."""
    n_class, n_raw = sizes or ((720, 160) if tier == "quick" else (7200, 1600))
    t0 = time.time()
    cases, metas, problems = [], [], []
    # classes whose plan / formulas the translator refused are reported by the driver (translator item broken);
    # their cases cannot be stated in Coq, the implementation-side checks still run on them
    import os, re
    from .common import COQ
    gen = open(os.path.join(COQ, "Gen", "Classes.v")).read()
    have = set(re.findall(r"Definition plan_(\w+) ", gen))
    have_f = set(re.findall(r"Definition (f_\w+) ", gen))
    skipped = {}
    for desc in case_list(seed, n_class, n_raw, classes):
        untranslated = (desc["kind"] == "class" and desc["cls"] not in have)
        if untranslated:
            skipped[desc["cls"]] = skipped.get(desc["cls"], 0) + 1
        prev = None
        try:
            for st in stages_of(desc):
                inp, dump, meta, func = st
                if meta["kind"] == "raw" and "f_%s_%s" % (meta["cls"], meta["method"][4:]) not in have_f:
                    skipped["raw:" + meta["method"]] = skipped.get("raw:" + meta["method"], 0) + 1
                    continue
                if not untranslated:
                    cases.append((inp, dump))
                    metas.append(meta)
                if prev is not None:
                    for pr in regen_checks(prev, st):
                        problems.append(dict(case=short(meta), **pr))
                if on_case:
                    for pr in on_case(meta, func) or []:
                        problems.append(dict(case=short(meta), **pr))
                prev = st
        except Exception as e:      # recording samples / generating / reading the tables must not raise
            problems.append(dict(kind="implementation-raised", case=dict(desc, stage=(prev[2]["stage"] + 1) if prev else 0),
                                 error=repr(e)[:500]))
            continue
    t1 = time.time()
    bad = run_cases(tag, IMPORTS, RUN, cases, shard=40, input_type=INPUT_TYPE)
    t2 = time.time()
    mism = []
    for i in bad[:3]:
        mism.append(dict(kind="model-differs", case=short(metas[i]),
                         meta=metas[i], implementation=cases[i][1],
                         model=model_output(IMPORTS, RUN, cases[i][0])[:3000]))
    # a class whose generated constraints / LMI / tables differ from what the generated plan and formulas give for the
    # DECLARED parameters and recorded samples is a failing input in its own right (replayable by its case seed)
    for i in bad[:2]:
        problems.append(dict(kind="class-generation-differs-from-model", case=short(metas[i]), meta=metas[i]))
    distinct = set()
    hist_cls, hist_ops, hist_n, hist_stage = {}, {}, {}, {}
    for m, (inp, _) in zip(metas, cases):
        key = m["cls"] if m["kind"] == "class" else "raw:" + m["method"]
        hist_cls[key] = hist_cls.get(key, 0) + 1
        for o in m.get("ops", []):
            hist_ops[o] = hist_ops.get(o, 0) + 1
        hist_n[m["n_constraints"]] = hist_n.get(m["n_constraints"], 0) + 1
        if m.get("regen"):
            hist_stage["stage %d" % m["stage"]] = hist_stage.get("stage %d" % m["stage"], 0) + 1
        if m["n_constraints"] + m.get("n_lmi", 0) >= 1:
            distinct.add(inp)
    return dict(name=tag, evaluations=len(cases), distinct_nontrivial=len(distinct),
                rule="seeded random recorded sample lists per class through the real API, then the real "
                     "set_class_constraints(); plus direct calls of the two generic generators on arbitrary list "
                     "pairs; one class case in three is a regeneration case (set_class_constraints() again on the "
                     "unchanged function, then once more after a new sample: three model evaluations); "
                     "non-trivial = at least one constraint or LMI generated; distinct by model input",
                mismatches=mism, n_mismatch=len(bad), problems=problems[:5], n_problems=len(problems),
                samples=[dict(case=metas[i]) for i in (0, len(metas) - 1)],
                distribution=dict(per_class=hist_cls, ops=hist_ops,
                                  n_constraints={str(k): v for k, v in sorted(hist_n.items())},
                                  untranslated_skipped=skipped, regeneration_stages=hist_stage,
                                  seconds_impl=round(t1 - t0, 1), seconds_model=round(t2 - t1, 1)))


def model_agrees(desc):
    """one case through implementation and model; True iff the dumps agree"""
    inp, dump, meta, func = rebuild(desc)
    return not run_cases("cg_replay", IMPORTS, RUN, [(inp, dump)], input_type=INPUT_TYPE)


# ------------------------------------------------------------------------------------------ exact evaluation
class Valuation(object):
    """random rational values of the leaf points (vectors of Q^3) and leaf expressions, drawn on demand"""
    def __init__(self, rng, dim=3):
        self.rng, self.dim = rng, dim
        self.P, self.X = {}, {}

    def leaf_point(self, p):
        k = id(p)
        if k not in self.P:
            self.P[k] = [Fraction(self.rng.randint(-6, 6), self.rng.choice([1, 2, 3])) for _ in range(self.dim)]
        return self.P[k]

    def leaf_expr(self, e):
        k = id(e)
        if k not in self.X:
            self.X[k] = Fraction(self.rng.randint(-9, 9), self.rng.choice([1, 2, 5]))
        return self.X[k]

    def point(self, p):
        acc = [Fraction(0)] * self.dim
        for leaf, w in p.decomposition_dict.items():
            v = self.leaf_point(leaf)
            w = K.T.to_fraction(w)
            acc = [a + w * b for a, b in zip(acc, v)]
        return acc

    def expr(self, e):
        acc = Fraction(0)
        for key, w in e.decomposition_dict.items():
            w = K.T.to_fraction(w)
            if isinstance(key, tuple):
                acc += w * dot(self.leaf_point(key[0]), self.leaf_point(key[1]))
            elif type(key).__name__ == "Expression":
                acc += w * self.leaf_expr(key)
            else:
                acc += w
        return acc

    def constraint(self, c):
        return (self.expr(c.expression), 0 if c.equality_or_inequality == "inequality" else 1)


def dot(u, v):
    return sum(a * b for a, b in zip(u, v))


def sub(u, v):
    return [a - b for a, b in zip(u, v)]


def add(u, v):
    return [a + b for a, b in zip(u, v)]


def scal(c, u):
    return [c * a for a in u]


def nrm2(u):
    return dot(u, u)


class S(object):
    """an evaluated sample"""
    def __init__(self, tr, val, blocks=None):
        self.tr = tr
        self.x, self.g, self.f = val.point(tr[0]), val.point(tr[1]), val.expr(tr[2])
        self.gb = blocks or []


# ------------------------------------------------------------------------------------------ reference conditions
# Each entry: (condition name, rows, cols, diagonal?, value(p, a, b), sense, guard) with rows / cols in
# {"points", "stat", "single"}; value = left-minus-right of "... <= 0" (sense 0) or "... = 0" (sense 1) as in
# coq/Spec/Reference.v.  `diagonal` = the documented condition is also required for i = j (only the antisymmetry
# of skew-symmetric operators: <x, Ax> = 0).  Pairs range over DISTINCT recorded samples (distinct triplets).
def _convex(p, a, b):
    return b.f - a.f + dot(b.g, sub(a.x, b.x))


def _smooth_convex(p, a, b):
    return b.f - a.f + dot(b.g, sub(a.x, b.x)) + Fraction(1, 2) / p["L"] * nrm2(sub(a.g, b.g))


def _strong_monotone(p, a, b):
    return p["mu"] * nrm2(sub(a.x, b.x)) - dot(sub(a.g, b.g), sub(a.x, b.x))


def _lipschitz(p, a, b):
    return nrm2(sub(a.g, b.g)) - p["L"] ** 2 * nrm2(sub(a.x, b.x))


def _cocoercive(p, a, b):
    return p["beta"] * nrm2(sub(a.g, b.g)) - dot(sub(a.g, b.g), sub(a.x, b.x))


def _bounded_g(p, a, b):
    return nrm2(a.g) - p["M"] ** 2


def _ssc(p, a, b):
    mu, L = p["mu"], p["L"]
    d = sub(sub(a.x, b.x), scal(1 / L, sub(a.g, b.g)))
    return (b.f - a.f + dot(b.g, sub(a.x, b.x)) + Fraction(1, 2) / L * nrm2(sub(a.g, b.g))
            + mu / (2 * (1 - mu / L)) * nrm2(d))


def _smooth(p, a, b):
    L = p["L"]
    return (b.f - a.f - L / 4 * nrm2(sub(a.x, b.x)) + Fraction(1, 2) * dot(add(a.g, b.g), sub(a.x, b.x))
            + 1 / (4 * L) * nrm2(sub(a.g, b.g)))


FINITE = lambda k: (lambda p: p[k] is not None)
REF = {
    "ConvexFunction": [("convexity", "points", "points", False, _convex, 0, None)],
    "ConvexIndicatorFunction": [
        ("value", "single", "points", False, lambda p, a, b: a.f, 1, None),
        ("convexity", "points", "points", False, lambda p, a, b: dot(b.g, sub(a.x, b.x)), 0, None),
        ("diameter", "points", "points", False, lambda p, a, b: nrm2(sub(a.x, b.x)) - p["D"] ** 2, 0, FINITE("D"))],
    "ConvexLipschitzFunction": [
        ("lipschitz_continuity", "single", "points", False, _bounded_g, 0, None),
        ("convexity", "points", "points", False, _convex, 0, None)],
    "ConvexQGFunction": [
        ("qg_convexity", "stat", "points", False,
         lambda p, a, b: b.f - a.f + dot(b.g, sub(a.x, b.x)) + Fraction(1, 2) / p["L"] * nrm2(b.g), 0, None),
        ("convexity", "points", "points", False, _convex, 0, None)],
    "ConvexSupportFunction": [
        ("fenchel_value", "single", "points", False, lambda p, a, b: dot(a.g, a.x) - a.f, 1, None),
        ("lipschitz_continuity", "single", "points", False, _bounded_g, 0, FINITE("M")),
        ("convexity", "points", "points", False, lambda p, a, b: dot(b.x, sub(a.g, b.g)), 0, None)],
    "RsiEbFunction": [
        ("rsi", "stat", "points", False, _strong_monotone, 0, None),
        ("eb", "stat", "points", False, _lipschitz, 0, None)],
    "SmoothConvexFunction": [("smoothness_convexity", "points", "points", False, _smooth_convex, 0, None)],
    "SmoothConvexLipschitzFunction": [
        ("smoothness_convexity", "points", "points", False, _smooth_convex, 0, None),
        ("lipschitz_continuity", "single", "points", False, _bounded_g, 0, None)],
    "SmoothFunction": [("smoothness", "points", "points", False, _smooth, 0, None)],
    "SmoothStronglyConvexFunction": [("smoothness_strong_convexity", "points", "points", False, _ssc, 0, None)],
    "SmoothStronglyConvexQuadraticFunction": [
        ("value", "single", "points", False,
         lambda p, a, b: a.f - p["fs"] - Fraction(1, 2) * dot(sub(a.x, p["xs"]), a.g), 1, None),
        ("symmetry", "points", "points", False,
         lambda p, a, b: dot(sub(a.x, p["xs"]), b.g) - dot(sub(b.x, p["xs"]), a.g), 1, None)],
    "StronglyConvexFunction": [
        ("strong_convexity", "points", "points", False,
         lambda p, a, b: b.f - a.f + dot(b.g, sub(a.x, b.x)) + p["mu"] / 2 * nrm2(sub(a.x, b.x)), 0, None)],
    "CocoerciveOperator": [("cocoercivity", "points", "points", False, _cocoercive, 0, None)],
    "CocoerciveStronglyMonotoneOperator": [
        ("cocoercivity", "points", "points", False, _cocoercive, 0, None),
        ("strong_monotonicity", "points", "points", False, _strong_monotone, 0, None)],
    # (x_i, y_i) a sample of the operator, (u_j, v_j) a sample of its transpose: <x_i, v_j> = <y_i, u_j>
    "LinearOperator": [
        ("adjoint", "points", "tpoints", False, lambda p, a, b: dot(a.x, b.g) - dot(a.g, b.x), 1, None)],
    "LipschitzOperator": [("lipschitz_continuity", "points", "points", False, _lipschitz, 0, None)],
    "LipschitzStronglyMonotoneOperator": [
        ("strong_monotonicity", "points", "points", False, _strong_monotone, 0, None),
        ("lipschitz_continuity", "points", "points", False, _lipschitz, 0, None)],
    "MonotoneOperator": [
        ("monotonicity", "points", "points", False, lambda p, a, b: -dot(sub(a.g, b.g), sub(a.x, b.x)), 0, None)],
    "NegativelyComonotoneOperator": [
        ("negative_comonotonicity", "points", "points", False,
         lambda p, a, b: -dot(sub(a.g, b.g), sub(a.x, b.x)) - p["rho"] * nrm2(sub(a.g, b.g)), 0, None)],
    "NonexpansiveOperator": [
        ("nonexpansiveness", "points", "points", False,
         lambda p, a, b: nrm2(sub(a.g, b.g)) - nrm2(sub(a.x, b.x)), 0, None),
        ("infimal_displacement_vector", "single", "points", False,
         lambda p, a, b: nrm2(p["v"]) - dot(sub(a.x, a.g), p["v"]), 0, lambda p: p["v"] is not None)],
    "SkewSymmetricLinearOperator": [
        ("antisymmetric_linearity", "points", "points", True,
         lambda p, a, b: dot(a.x, b.g) + dot(b.x, a.g), 1, None)],
    "StronglyMonotoneOperator": [("strong_monotonicity", "points", "points", False, _strong_monotone, 0, None)],
    "SymmetricLinearOperator": [
        ("symmetric_linearity", "points", "points", False, lambda p, a, b: dot(a.x, b.g) - dot(b.x, a.g), 1, None)],
    "BlockSmoothConvexFunction": [],   # per block, see ref_block
}
# class -> [(list, entry(p, a, b))] : the LMIs, in order
REF_LMI = {
    "SmoothStronglyConvexQuadraticFunction": [
        ("points", lambda p, a, b: (p["L"] + p["mu"]) * dot(a.g, sub(b.x, p["xs"])) - dot(a.g, b.g)
         - p["mu"] * p["L"] * dot(sub(a.x, p["xs"]), sub(b.x, p["xs"])))],
    "LinearOperator": [("points", lambda p, a, b: p["L"] ** 2 * dot(a.x, b.x) - dot(a.g, b.g)),
                       ("tpoints", lambda p, a, b: p["L"] ** 2 * dot(a.x, b.x) - dot(a.g, b.g))],
    "SkewSymmetricLinearOperator": [("points", lambda p, a, b: p["L"] ** 2 * dot(a.x, b.x) - dot(a.g, b.g))],
    "SymmetricLinearOperator": [
        ("points", lambda p, a, b: p["L"] * dot(a.g, b.x) - dot(a.g, b.g) - p["mu"] * p["L"] * dot(a.x, b.x)
         + p["mu"] * dot(a.x, b.g))],
}


def ref_params(func, val):
    p = {}
    for k in ("L", "mu", "M", "D", "beta", "rho"):
        if hasattr(func, k) and not isinstance(getattr(func, k), list):
            v = getattr(func, k)
            p[k] = None if v == K.INF else K.T.to_fraction(v)
    v = getattr(func, "v", None)
    p["v"] = None if v is None else val.point(v)
    if func.list_of_stationary_points:
        xs, _, fs = func.list_of_stationary_points[0]
        p["xs"], p["fs"] = val.point(xs), val.expr(fs)
    return p


def check_reference(name, func, rng, n_val=2):
    """C04 on the implementation: under random exact-rational valuations, the constraints found in
    tables_of_constraints / list_of_class_constraints / list_of_class_psd must be, pair by pair, the reference
    conditions over ALL required pairs of recorded samples.  Returns a list of discrepancy dicts
    (kind, condition, i, j, ...).  Call after func.set_class_constraints()."""
    from PEPit.constraint import Constraint
    out = []
    partition = getattr(func, "partition", None)
    for _ in range(n_val):
        val = Valuation(rng)
        p = ref_params(func, val)

        def samples(l):
            res = []
            for tr in l:
                blocks = None
                if partition is not None:
                    blocks = [val.point(partition.get_block(tr[1], k)) for k in range(partition.get_nb_blocks())]
                res.append(S(tr, val, blocks))
            return res
        # "stationary sample" is a property of the recorded data: a sample whose gradient has the empty (pruned)
        # decomposition -- however it was recorded (stationary_point(), add_point with a zero gradient, a composite)
        stat_data = [t for t in func.list_of_points if K.T_prune_empty(t[1])]
        if [id(t) for t in stat_data] != [id(t) for t in func.list_of_stationary_points]:
            out.append(dict(kind="stationary-list-is-not-the-zero-gradient-samples",
                            zero_gradient_positions=[i for i, t in enumerate(func.list_of_points) if K.T_prune_empty(t[1])],
                            n_in_list_of_stationary_points=len(func.list_of_stationary_points),
                            n_points=len(func.list_of_points)))
            break
        lists = {"points": samples(func.list_of_points), "stat": samples(stat_data),
                 "tpoints": samples(func.T.list_of_points) if hasattr(func, "T") else []}
        conds = list(REF[name])
        if name == "BlockSmoothConvexFunction":
            for k in range(partition.get_nb_blocks()):
                Lk = K.T.to_fraction(func.L[k])
                conds.append(("smoothness_convexity_block_%d" % k, "points", "points", False,
                              (lambda k, Lk: lambda p, a, b: b.f - a.f + dot(b.g, sub(a.x, b.x))
                               + Fraction(1, 2) / Lk * nrm2(sub(a.gb[k], b.gb[k])))(k, Lk), 0, None))
        for cname, rows, cols, diag, fval, sense, guard in conds:
            if guard is not None and not guard(p):
                if cname in func.tables_of_constraints and not getattr(func, "_verif_resolved", False):
                    out.append(dict(kind="condition-generated-under-false-guard", condition=cname))
                continue
            L2 = lists[cols]
            L1 = [None] if rows == "single" else lists[rows]
            if not L1 or (rows != "single" and not L1):
                continue
            df = func.tables_of_constraints.get(cname)
            cells = df.values if df is not None else None
            if cells is None:
                if L1 and (rows == "single" or any(a.tr is not b.tr for a in L1 for b in L2)):
                    out.append(dict(kind="no-table-for-condition", condition=cname))
                continue
            if cells.shape != (len(L1), len(L2)):
                out.append(dict(kind="table-shape", condition=cname, shape=list(cells.shape),
                                expected=[len(L1), len(L2)]))
                continue
            gen = {}
            for i in range(len(L1)):
                for j in range(len(L2)):
                    if isinstance(cells[i][j], Constraint):
                        gen[(i, j)] = val.constraint(cells[i][j])
            for i, a in enumerate(L1):
                for j, b in enumerate(L2):
                    aa = b if rows == "single" else a
                    r = fval(p, aa, b)
                    same = (rows != "single") and (aa.tr is b.tr)
                    if (i, j) in gen:
                        gv, gs = gen[(i, j)]
                        if gs != sense or not (gv == r or (sense == 1 and gv == -r)):
                            out.append(dict(kind="generated-differs-from-reference", condition=cname, i=i, j=j,
                                            generated=str(gv), reference=str(r), sense=[gs, sense]))
                        continue
                    if same and not diag:
                        continue
                    # not generated at (i, j): acceptable only if the mirrored constraint states the same condition
                    ok = False
                    if rows == cols and (j, i) in gen:
                        gv, gs = gen[(j, i)]
                        ok = gs == sense and (gv == r or (sense == 1 and gv == -r))
                    if not ok:
                        out.append(dict(kind="required-pair-not-covered", condition=cname, i=i, j=j,
                                        diagonal=bool(same), same_x_g=bool(aa.tr[0] is b.tr[0] and aa.tr[1] is b.tr[1]),
                                        reference=str(r)))
        # LMIs
        # one LMI per documented matrix condition over a NON-EMPTY list of samples; never a 0 x 0 matrix
        for k, m in enumerate(func.list_of_class_psd):
            if 0 in tuple(m.matrix_of_expressions.shape) or m.matrix_of_expressions.size == 0:
                out.append(dict(kind="empty-lmi-generated", lmi=k, shape=list(m.matrix_of_expressions.shape)))
        if out:
            break
        lm = [(lname, entry) for lname, entry in REF_LMI.get(name, []) if lists[lname]]
        if len(func.list_of_class_psd) != len(lm):
            out.append(dict(kind="lmi-count", generated=len(func.list_of_class_psd), reference=len(lm)))
        else:
            for k, (lname, entry) in enumerate(lm):
                M = func.list_of_class_psd[k].matrix_of_expressions
                Ls = lists[lname]
                if tuple(M.shape) != (len(Ls), len(Ls)):
                    out.append(dict(kind="lmi-shape", lmi=k, shape=list(M.shape), expected=len(Ls)))
                    continue
                for i, a in enumerate(Ls):
                    for j, b in enumerate(Ls):
                        if val.expr(M[i, j]) != entry(p, a, b):
                            out.append(dict(kind="lmi-entry-differs-from-reference", lmi=k, i=i, j=j,
                                            generated=str(val.expr(M[i, j])), reference=str(entry(p, a, b))))
        if out:
            break
    return out


def known_trigger(name, d):
    """is this discrepancy the documented open trigger?  (F-C04b: diagonal of the skew-symmetric class)"""
    if d.get("kind") == "required-pair-not-covered":
        if name == "SkewSymmetricLinearOperator" and d.get("diagonal"):
            return "F-C04b"
    return None


def check_tables(name, func, injected=True):
    """C17 on the implementation, after py_genout stored dual_tag(p) (values of both signs) on the p-th class
    constraint (injected=True), or after a real solve (injected=False: whatever the solver stored):
    every table has one row per sample of its first list / one column per recorded sample, carries the point
    names as labels; cell (i, j) of the dual table is the tag of THE constraint named for that condition and
    pair, 0 iff there is none; every named class constraint sits in exactly one cell; names carry function id
    and condition.  Returns discrepancy dicts."""
    from PEPit.constraint import Constraint
    out = []
    fid = K.function_id(func)
    cons = func.list_of_class_constraints
    by_name = {}
    for k, c in enumerate(cons):
        by_name.setdefault(c.get_name(), []).append(k)
    duals = func.get_class_constraints_duals()
    if list(duals.keys()) != list(func.tables_of_constraints.keys()):
        out.append(dict(kind="dual-tables-keys", got=list(duals.keys()), want=list(func.tables_of_constraints.keys())))
        return out
    raw = getattr(func, "_verif_raw", None)
    npts = len(func.list_of_points) if raw is None else None
    seen = {}
    for key, df in func.tables_of_constraints.items():
        dd = duals[key]
        cells = df.values
        if dd.values.shape != cells.shape or list(dd.index) != list(df.index) or list(dd.columns) != list(df.columns):
            out.append(dict(kind="dual-table-shape-or-labels", condition=key))
            continue
        if raw is None:
            nstat = len(func.list_of_stationary_points)
            ntp = len(func.T.list_of_points) if hasattr(func, "T") else None
            if cells.shape[1] not in (npts, ntp) or cells.shape[0] not in (1, npts, nstat):
                out.append(dict(kind="table-shape", condition=key, shape=list(cells.shape), n_points=npts,
                                n_stationary=nstat))
        if str(df.columns.name) != "IC_" + fid:
            out.append(dict(kind="table-title", condition=key, got=str(df.columns.name)))
        single = (list(df.index) == [0])
        for i in range(cells.shape[0]):
            for j in range(cells.shape[1]):
                if single:
                    nm = "IC_{}_{}({})".format(fid, key, df.columns[j])
                else:
                    nm = "IC_{}_{}({}, {})".format(fid, key, df.index[i], df.columns[j])
                el = cells[i][j]
                if isinstance(el, Constraint):
                    pos = next((k for k, c in enumerate(cons) if c is el), None)
                    if pos is None:
                        out.append(dict(kind="cell-object-not-a-class-constraint", condition=key, i=i, j=j))
                        continue
                    if el.get_name() != nm:
                        out.append(dict(kind="cell-holds-constraint-of-another-pair", condition=key, i=i, j=j,
                                        name=el.get_name(), expected=nm))
                    stored = el._dual_variable_value
                    if stored is None or K.T.to_fraction(dd.values[i][j]) != K.T.to_fraction(stored):
                        out.append(dict(kind="dual-not-the-multiplier-of-the-cell-constraint", condition=key, i=i, j=j,
                                        got=str(dd.values[i][j]), stored=str(stored), position=pos))
                    elif injected and K.T.to_fraction(stored) != K.T.to_fraction(K.dual_tag(pos)):
                        out.append(dict(kind="cell-object-carries-the-tag-of-another-position", condition=key, i=i,
                                        j=j, stored=str(stored), position=pos))
                    seen[pos] = seen.get(pos, 0) + 1
                else:
                    if K.T.to_fraction(dd.values[i][j]) != 0:
                        out.append(dict(kind="dual-nonzero-without-constraint", condition=key, i=i, j=j))
                    # labels unique: a constraint with this very name must then not exist
                    if nm in by_name and list(df.index).count(df.index[i]) == 1 \
                            and list(df.columns).count(df.columns[j]) == 1:
                        out.append(dict(kind="constraint-exists-but-cell-is-zero", condition=key, i=i, j=j, name=nm))
    for k, c in enumerate(cons):
        if c.get_name() is None:
            out.append(dict(kind="unnamed-class-constraint", position=k))
        elif seen.get(k, 0) != 1:
            out.append(dict(kind="class-constraint-in-%d-cells" % seen.get(k, 0), position=k, name=c.get_name()))
        elif not c.get_name().startswith("IC_" + fid + "_"):
            out.append(dict(kind="name-without-function-id", position=k, name=c.get_name()))
    return out


def known_trigger_c17(name, d):
    """no open C17 finding has a trigger in this stream (F-C17b was repaired in /repo 763e32e)"""
    return None


# ------------------------------------------------------------------------------------------ regression cases
def regression_block_same_xg():
    """repaired F-C04c (/repo b61687d): two samples of a BlockSmoothConvexFunction holding the same Point objects
    x and g but different function values must get their conditions (both ordered pairs, every block), and no
    throw-away Constraint may be created.  Returns a list of problem dicts (empty = passes)."""
    from PEPit import PEP, Point, Expression
    from PEPit.constraint import Constraint
    from PEPit.functions import BlockSmoothConvexFunction
    pep = PEP()
    part = pep.declare_block_partition(d=2)
    f = pep.declare_function(BlockSmoothConvexFunction, partition=part, L=[1., 2.])
    x, g = Point(), Point()
    f.add_point((x, g, Expression()))
    f.add_point((x, g, Expression()))
    part.get_block(g, 0)
    c0 = Constraint.counter
    f.set_class_constraints()
    out = []
    n = len(f.list_of_class_constraints)
    if n != 4:
        out.append(dict(kind="regression-F-C04c", what="two samples (x, g, f1), (x, g, f2): %d class constraints "
                        "instead of 4 (2 ordered pairs x 2 blocks)" % n))
    elif Constraint.counter - c0 != 4:
        out.append(dict(kind="regression-F-C04c", what="%d Constraint objects created for 4 class constraints"
                        % (Constraint.counter - c0)))
    else:
        for d in check_reference("BlockSmoothConvexFunction", f, random.Random(4)):
            out.append(dict(kind="regression-F-C04c", what="reference check", detail=d))
            break
    return out


def regression_linear_adjoint():
    """repaired F-C17b (/repo 763e32e): LinearOperator's adjoint equalities are named IC_<fid>_adjoint(xi, uj),
    tabulated under "adjoint" (|points| x |T.points|, zero columns when T has no sample) and reported by
    get_class_constraints_duals()."""
    from PEPit import PEP, Point
    from PEPit.operators import LinearOperator
    out = []
    for nT in (0, 1, 2):
        pep = PEP()
        M = pep.declare_function(LinearOperator, L=1.)
        for _ in range(2):
            M.gradient(Point())
        for _ in range(nT):
            M.T.gradient(Point())
        M.set_class_constraints()
        names = [c.get_name() for c in M.list_of_class_constraints]
        want = ["IC_Function_0_adjoint(Point_%d, Point_%d)" % (i, j) for i in range(2) for j in range(nT)]
        df = M.tables_of_constraints.get("adjoint")
        if names != want:
            out.append(dict(kind="regression-F-C17b", what="names %r, expected %r" % (names, want)))
        elif df is None or df.values.shape != (2, nT):
            out.append(dict(kind="regression-F-C17b", what="table 'adjoint' %s for 2 x %d samples"
                            % ("missing" if df is None else "of shape %r" % (df.values.shape,), nT)))
        else:
            for k, c in enumerate(M.list_of_class_constraints):
                c._dual_variable_value = K.dual_tag(k)
            for d in check_tables("LinearOperator", M):
                out.append(dict(kind="regression-F-C17b", what="table check", detail=d))
                break
            dv = M.get_class_constraints_duals()["adjoint"].values
            got = [[float(v) for v in row] for row in dv]
            if not out and got != [[K.dual_tag(i * nT + j) for j in range(nT)] for i in range(2)]:
                out.append(dict(kind="regression-F-C17b", what="duals table %r" % (got,)))
        if out:
            break
    return out
