"""Correspondence stream "class generation" (used by C04, C17 and C03).

For each of the 24 shipped classes: random recorded sample lists through the REAL API (oracle / gradient /
value / stationary_point / fixed_point / add_point, repeated evaluations, stationary points declared first, in
the middle, last or never; named and unnamed points and functions; LinearOperator with samples of T;
NonexpansiveOperator with v), then the real Function.set_class_constraints(), and a canonical dump of
  list_of_class_constraints (names + dictionaries + senses), list_of_class_psd, tables_of_constraints (cell by
  cell: scalar 0 or the *object*, identified by its position in list_of_class_constraints; index / column
  labels), get_class_constraints_duals() after tagging every class constraint with its position, the resulting
  sample lists and the Point / Expression counters,
compared inside Coq with  dump_genout (run_plan plan_<Class> state)  on the same state.

A second family of cases calls the two generic generators of function.py directly with arbitrary pairs of
lists (different lists, shared and non-shared triplet objects, empty lists, both symmetry flags)."""
import random
import time

from . import classes as K
from .common import run_cases, model_output

IMPORTS = ["From PV Require Import Model.ClassGen Model.ClassDump Gen.Classes."]
RUN = "fun c => dump_genout (run_plan (fst c) (snd c))"
INPUT_TYPE = "(list plan_item * fstate)"

# (class, method, arity) used by the raw-generator cases; the Coq name of the translated formula is
# f_<class>_<method without set_>
RAW_FORMULAS = [
    ("ConvexFunction", "set_convexity_constraint_i_j", 6),
    ("SmoothConvexFunction", "set_smoothness_convexity_constraint_i_j", 6),
    ("MonotoneOperator", "set_monotonicity_constraint_i_j", 6),
    ("LipschitzOperator", "set_lipschitz_continuity_constraint_i_j", 6),
    ("SkewSymmetricLinearOperator", "set_antisymmetric_linear_constraint_i_j", 6),
    ("ConvexLipschitzFunction", "set_lipschitz_continuity_constraint_i", 3),
    ("ConvexSupportFunction", "set_fenchel_value_constraint_i", 3),
]


def class_case(rng, name, **kw):
    """one case through the class's own add_class_constraints"""
    func, ctx = K.build_function(rng, name, **kw)
    resolve = rng.random() < 0.2
    if resolve:
        func.set_class_constraints()       # an earlier solve: lists and tables already filled once
    oid = K.ObjIds()
    state = K.coq_fstate(func, oid)
    func.set_class_constraints()
    dump = K.py_genout(func, oid)
    meta = dict(kind="class", cls=name, params=ctx["params"], ops=ctx["kinds"], named_function=ctx["named"],
                stationary_at=ctx["stationary_at"], resolve=resolve,
                n_points=len(func.list_of_points), n_stationary=len(func.list_of_stationary_points),
                n_constraints=len(func.list_of_class_constraints), n_lmi=len(func.list_of_class_psd),
                n_tables=len(func.tables_of_constraints),
                names=[c.get_name() for c in func.list_of_class_constraints[:3]])
    return ("(plan_%s, %s)" % (name, state), dump, meta, func)


def raw_case(rng):
    """one case through function.py's generic generators, called directly with two arbitrary lists"""
    from PEPit import PEP, Point, Expression
    cls, method, arity = rng.choice(RAW_FORMULAS)
    pep = PEP()
    params = K.draw_params(rng, cls)
    named = rng.random() < 0.3
    func = K.declare(pep, rng, cls, params, named)
    leaves = [Point() for _ in range(rng.randint(2, 4))]
    pool = []
    for _ in range(rng.randint(0, 5)):
        x = K.rand_point(rng, leaves)
        g = K.rand_point(rng, leaves)
        f = K.rand_expr(rng, [], leaves)
        if rng.random() < 0.3:
            x.set_name(rng.choice(K.POINT_NAMES))
        pool.append((x, g, f))

    def sublist():
        if not pool:
            return []
        l = [t for t in pool if rng.random() < 0.7]
        rng.shuffle(l)
        if l and rng.random() < 0.2:
            l.append(rng.choice(l))                     # the same tuple object twice
        if l and rng.random() < 0.2:
            x, g, f = rng.choice(l)
            l.append((x, g, f))                          # a distinct tuple holding the same objects
        return l
    l1 = sublist()
    mode = rng.random()
    l2 = l1 if mode < 0.4 else (list(l1) if mode < 0.5 else sublist())
    sym = rng.random() < 0.5
    cname = rng.choice(["cond", "convexity", "c_1"])
    oid = K.ObjIds()
    par = {K.PARAMS[k]: (K.Fraction(0) if v == K.INF else K.T.to_fraction(v)) for k, v in params.items()}
    inf = {K.PARAMS[k]: True for k, v in params.items() if v == K.INF}
    fname = "f_%s_%s" % (cls, method[4:])
    if arity == 6:
        state = K.coq_state(K.function_id(func), par, inf, l1, [], l2, None, oid)
        plan = '[Pairs LPoints LTPoints %s %s %s]' % (K.coq_str(cname), fname, "true" if sym else "false")
        func.add_constraints_from_two_lists_of_points(list_of_points_1=l1, list_of_points_2=l2,
                                                      constraint_name=cname,
                                                      set_class_constraint_i_j=getattr(func, method), symmetry=sym)
    else:
        state = K.coq_state(K.function_id(func), par, inf, l1, [], [], None, oid)
        plan = '[Singles LPoints %s %s]' % (K.coq_str(cname), fname)
        func.add_constraints_from_one_list_of_points(list_of_points=l1, constraint_name=cname,
                                                     set_class_constraint_i=getattr(func, method))
    dump = K.py_genout(func, oid, points=l1, stat=[])
    meta = dict(kind="raw", cls=cls, method=method, symmetry=sym, same_list=(l2 is l1), n1=len(l1), n2=len(l2),
                n_constraints=len(func.list_of_class_constraints),
                names=[c.get_name() for c in func.list_of_class_constraints[:3]])
    return ("(%s, %s)" % (plan, state), dump, meta, func)


def gen_cases(rng, n_class, n_raw, classes=None, on_case=None):
    """returns (cases, metas).  on_case(meta, func) may inspect the real objects of each case (C04/C17 use it
    to check their property directly on the implementation) and return a problem dict or None."""
    classes = classes or K.ALL_CLASSES
    cases, metas, problems = [], [], []
    order = []
    per = max(1, n_class // len(classes))
    for name in classes:
        # the four stationary placements first, then random
        forced = ["first", "middle", "last", "none"]
        for k in range(per):
            order.append((name, forced[k] if k < len(forced) else None))
    for name, where in order:
        kw = {}
        if where is not None:
            kw = dict(stationary_at=where, nsamples=rng.choice([2, 3, 4]))
        inp, dump, meta, func = class_case(rng, name, **kw)
        cases.append((inp, dump))
        metas.append(meta)
        if on_case:
            pr = on_case(meta, func)
            if pr:
                problems.append(pr)
    for _ in range(n_raw):
        inp, dump, meta, func = raw_case(rng)
        cases.append((inp, dump))
        metas.append(meta)
        if on_case:
            pr = on_case(meta, func)
            if pr:
                problems.append(pr)
    return cases, metas, problems


def run_stream(tag, tier, seed, on_case=None, classes=None):
    """the stream dict of BUILDING.md (name, evaluations, distinct_nontrivial, rule, samples, mismatches, ...)"""
    rng = random.Random(seed * 104729 + 417)
    n_class, n_raw = (720, 160) if tier == "quick" else (7200, 1600)
    t0 = time.time()
    cases, metas, problems = gen_cases(rng, n_class, n_raw, classes=classes, on_case=on_case)
    t1 = time.time()
    bad = run_cases(tag, IMPORTS, RUN, cases, shard=60, input_type=INPUT_TYPE)
    t2 = time.time()
    mism = []
    for i in bad[:3]:
        mism.append(dict(kind="model-differs", case=metas[i], implementation=cases[i][1],
                         model=model_output(IMPORTS, RUN, cases[i][0])[:3000]))
    distinct = set()
    hist_cls, hist_ops, hist_n = {}, {}, {}
    for m, (inp, _) in zip(metas, cases):
        key = m["cls"] if m["kind"] == "class" else "raw:" + m["method"]
        hist_cls[key] = hist_cls.get(key, 0) + 1
        for o in m.get("ops", []):
            hist_ops[o] = hist_ops.get(o, 0) + 1
        hist_n[m["n_constraints"]] = hist_n.get(m["n_constraints"], 0) + 1
        if m["n_constraints"] + m.get("n_lmi", 0) >= 1:
            distinct.add(inp)
    return dict(name=tag, evaluations=len(cases), distinct_nontrivial=len(distinct),
                rule="seeded random recorded sample lists per class through the real API, then the real "
                     "set_class_constraints(); plus direct calls of the two generic generators on arbitrary list "
                     "pairs; non-trivial = at least one constraint or LMI generated; distinct by model input",
                mismatches=mism, n_mismatch=len(bad), problems=problems[:5], n_problems=len(problems),
                samples=[dict(case=metas[i]) for i in (0, len(metas) - 1)],
                distribution=dict(per_class=hist_cls, ops=hist_ops,
                                  n_constraints={str(k): v for k, v in sorted(hist_n.items())},
                                  seconds_impl=round(t1 - t0, 1), seconds_model=round(t2 - t1, 1)))
