"""Block-partition scenarios shared by the C15 correspondence stream and failing-input search.

A scenario is a list of ops mirroring Model/Blocks.v `wop`:
  ("WLeaf",)            Point()
  ("WTerm", tree)       a combination of existing objects built with the real operators (harness/terms.py trees,
                        PVar v = object number v)
  ("WPart", d, how)     how = "pep": pep.declare_block_partition(d); "other": the same through ANOTHER PEP object
                        (declare_block_partition is a staticmethod); "ctor": BlockPartition(d), the class constructor.
                        All three register the partition in BlockPartition.list_of_partitions.
  ("WSolve",)           pep.solve() through the recording wrapper (harness/recording.py): dump of every scalar
                        constraint in pep._list_of_constraints_sent_to_wrapper (the PEP has nothing else to send)
  ("WGet", p, obj, k)   partitions[p].get_block(objects[obj], k); on the first decomposition of an object the d
                        block objects become objects number len(objects) ... len(objects)+d-1
  ("WGetT", p, tree, ks) a TEMPORARY: the combination `tree` is built inline inside a helper, decomposed, blocks ks are
                        asked, and every reference to the combination is dropped (only its blocks survive, as objects).
                        For the model this is WTerm tree; WGet p n k ... (the history of get_block calls decides who was
                        decomposed); the harness keeps None at object number n and never refers to it again.
  ("WCons", p)          partitions[p].add_partition_constraints(); dump of partitions[p].list_of_constraints
Objects are identified by identity (IdMap); leaf points by their `counter`."""
import gc
import random
from fractions import Fraction

from . import terms as T
from .common import coq_nat, coq_list, Q, to_fraction

MAX_PARTS = 3
MAX_D = 4


# ------------------------------------------------------------------ generation
def gen_scenario(rng, nops=None, max_dec=4):
    """seeded random scenario.  max_dec bounds the number of decomposed objects per partition (the constraint list
    grows with its square)."""
    nops = nops or rng.randint(6, 24)
    ops = []
    nobj = 0
    parts = []                # d of each partition
    dec = []                  # per partition: list of decomposed object numbers
    twins = []                # pairs of distinct objects with equal decomposition
    dead = set()              # object numbers of temporaries (nothing may refer to them any more)
    ndec = {}                 # decomposed objects per partition, temporaries included

    def live(v):
        while v in dead:
            v = (v - 1) % nobj
        return v

    def remap(t):             # a generated tree must not mention a dead temporary
        if t[0] == "PVar":
            return ("PVar", live(t[1]))
        return tuple(remap(x) if isinstance(x, tuple) else x for x in t)

    def fresh_tree():
        t = remap(T.gen_point(rng, rng.choice([1, 2, 2, 3]), nobj))
        if t[0] == "PVar":          # a bare variable is the SAME object; `1 * x` is a new one with x's dictionary
            t = ("PScalL", 1, t)
        return t
    for _ in range(rng.randint(1, 3)):
        ops.append(("WLeaf",))
        nobj += 1
    def new_part():
        ops.append(("WPart", rng.choice([1, 2, 2, 3, 3, 4]), rng.choice(["pep", "pep", "ctor", "ctor", "other"])))
        parts.append(ops[-1][1])
        dec.append([])

    if rng.random() < 0.25:         # a partition declared before anything else, often never used
        new_part()
    new_part()
    mid_cons = rng.random() < 0.3
    mid_solve = rng.random() < 0.25
    while len(ops) < nops:
        r = rng.random()
        if r < 0.10:
            ops.append(("WLeaf",))
            nobj += 1
        elif r < 0.30:
            t = fresh_tree()
            ops.append(("WTerm", t))
            nobj += 1
            if rng.random() < 0.4:      # a second, distinct object with the same decomposition
                ops.append(("WTerm", t))
                twins.append((nobj - 1, nobj))
                nobj += 1
        elif r < 0.38 and len(parts) < MAX_PARTS:
            new_part()
        elif r < 0.44 and mid_cons:
            ops.append(("WCons", rng.randrange(len(parts))))
        elif r < 0.48 and mid_solve:
            ops.append(("WSolve",))
        elif r < 0.60 and ndec.get(len(parts) - 1, 0) < max_dec:
            # a temporary combination decomposed inline: g + beta * (x - x_prev) style
            p = rng.randrange(len(parts))
            if ndec.get(p, 0) >= max_dec:
                p = len(parts) - 1
            d = parts[p]
            ks = rng.sample(range(d), rng.randint(1, d))
            if rng.random() < 0.03:
                ks = [d]
            ops.append(("WGetT", p, fresh_tree(), ks))
            dead.add(nobj)
            nobj += 1
            if ks[0] < d:
                ndec[p] = ndec.get(p, 0) + 1
                nobj += d
        else:
            p = rng.randrange(len(parts))
            d = parts[p]
            r2 = rng.random()
            if r2 < 0.30 and dec[p]:
                obj = rng.choice(dec[p])                 # the same object again
            elif r2 < 0.45 and twins:
                obj = rng.choice(rng.choice(twins))      # one of two equal-decomposition objects
            else:
                obj = rng.randrange(nobj)                # leaf, combination, or a block of some partition
            obj = live(obj)
            if obj not in dec[p] and ndec.get(p, 0) >= max_dec:
                if not dec[p]:
                    continue
                obj = rng.choice(dec[p])
            k = rng.randrange(d)
            if rng.random() < 0.03:
                k = d + rng.randrange(2)                 # invalid block number: AssertionError, nothing changes
            ops.append(("WGet", p, obj, k))
            if k < d and obj not in dec[p]:
                dec[p].append(obj)
                ndec[p] = ndec.get(p, 0) + 1
                nobj += d
            if k < d and rng.random() < 0.5:             # ask for the other blocks too
                for k2 in rng.sample(range(d), d):
                    ops.append(("WGet", p, obj, k2))
    if len(parts) < MAX_PARTS and rng.random() < 0.25:   # a partition declared after use, never used
        new_part()
    if rng.random() < 0.6:                               # solve time through pep.solve(), once or twice
        ops.append(("WSolve",))
        if rng.random() < 0.4:
            ops.append(("WSolve",))
    if ops[-1][0] != "WSolve" or rng.random() < 0.4:     # add_partition_constraints called by hand, once or twice
        for p in range(len(parts)):
            ops.append(("WCons", p))
            if rng.random() < 0.5:
                ops.append(("WCons", p))
    return ops


# ------------------------------------------------------------------ Coq rendering
def coq_op(op):
    h = op[0]
    if h == "WLeaf":
        return "WLeaf"
    if h == "WTerm":
        return "WTerm %s" % T.coq_term(op[1])
    if h == "WPart":
        how = op[2] if len(op) > 2 else "pep"
        return "%s %s" % ("WPartC" if how == "ctor" else "WPart", coq_nat(op[1]))
    if h == "WSolve":
        return "WSolve"
    if h == "WGet":
        return "WGet %s %s %s" % (coq_nat(op[1]), coq_nat(op[2]), coq_nat(op[3]))
    if h == "WCons":
        return "WCons %s" % coq_nat(op[1])
    raise ValueError(h)


def flatten(ops):
    """model-level op list: a temporary is a WTerm followed by the WGet calls on the object it created"""
    out, nobj, ds, dec = [], 0, [], set()
    for op in ops:
        h = op[0]
        if h == "WGetT":
            _, p, tree, ks = op
            out.append(("WTerm", tree))
            for k in ks:
                out.append(("WGet", p, nobj, k))
            if any(k < ds[p] for k in ks):
                dec.add((p, nobj))
                nobj += ds[p]
            nobj += 1
            continue
        out.append(op)
        if h in ("WLeaf", "WTerm"):
            nobj += 1
        elif h == "WPart":
            ds.append(op[1])
        elif h == "WGet" and op[3] < ds[op[1]] and (op[1], op[2]) not in dec:
            dec.add((op[1], op[2]))
            nobj += ds[op[1]]
    return out


def coq_scenario(ops):
    return coq_list([coq_op(o) for o in flatten(ops)])


# ------------------------------------------------------------------ implementation side
class LeafIds(object):
    """leaf Point -> model id (its counter)"""
    def __getitem__(self, p):
        assert p.get_is_leaf() and p.counter is not None
        return p.counter


class NoExprs(object):
    def __getitem__(self, e):
        raise KeyError("a partition constraint mentions a leaf expression")


def fr_items(d):
    """decomposition_dict of a Point -> {leaf id: Fraction}, zero entries dropped"""
    out = {}
    for k, v in d.items():
        f = to_fraction(v)
        if f != 0:
            out[k.counter] = out.get(k.counter, Fraction(0)) + f
    return out


class Run(object):
    """drives the real PEPit through a scenario.  `outputs`: per-op dumps (what the model must reproduce);
    `problems`: violations of C15 seen directly on the implementation."""

    def __init__(self, ops, values=None):
        from PEPit import PEP, Point
        self.Point = Point
        self.other = PEP()        # another PEP object, created first: the PEP() below resets the class-level state
        self.pep = PEP()
        self.ops = ops
        self.objs = []
        self.objnum = T.IdMap()
        self.parts = []
        self.base = {}            # (p, obj number) -> object number of block 0
        self.dict_at = {}         # (p, obj number) -> Fraction dict of the object when first decomposed
        self.outputs = []
        self.problems = []
        self.hist = {}
        self.values = values      # optional ValueTracker (real coordinate partitions)
        self.ncons = {}
        self.flat_ops = flatten(ops)
        for i, op in enumerate(ops):
            self.hist[op[0]] = self.hist.get(op[0], 0) + 1
            if op[0] == "WGetT":
                self.outputs += _temporary(self, i, op)
                self.ntemp = getattr(self, "ntemp", 0) + 1
            else:
                self.outputs.append(self.step(i, op))

    def collect(self):
        """garbage collection before the relations are formulated (only useful once a temporary was dropped)"""
        if getattr(self, "dirty", False):
            _freeze_once()
            gc.collect()
            self.dirty = False

    def n_decomposed(self, p):
        """how many points partition p was asked to decompose (the harness's own count: the history of calls)"""
        return sum(1 for (pp, _) in self.base if pp == p)

    def add_obj(self, o):
        self.objnum.add(o, len(self.objs))
        self.objs.append(o)

    def problem(self, kind, i, **kw):
        self.problems.append(dict(kind=kind, at_op=i, ops=self.ops, **kw))

    def step(self, i, op):
        Point = self.Point
        h = op[0]
        if h == "WLeaf":
            n = len(self.objs)
            pt = Point()
            self.add_obj(pt)
            if self.values is not None:
                self.values.user_leaf(pt)
            return [n, Point.counter]
        if h == "WTerm":
            n = len(self.objs)
            pt = T.py_eval(op[1], self.objs, [])
            self.add_obj(pt)
            return [n, T.dump_pdict(pt.decomposition_dict, LeafIds())]
        if h == "WPart":
            n = len(self.parts)
            how = op[2] if len(op) > 2 else "pep"
            if how == "ctor":
                from PEPit import BlockPartition
                part = BlockPartition(d=op[1])
            elif how == "other":
                part = self.other.declare_block_partition(d=op[1])
            else:
                part = self.pep.declare_block_partition(d=op[1])
            self.parts.append(part)
            if self.values is not None:
                self.values.new_partition(n, op[1])
            return [n, part.get_nb_blocks()]
        if h == "WGet":
            _, p, o, k = op
            return self.get(i, p, o, k, self.objs[o])
        if h == "WCons":
            self.collect()
            p = op[1]
            part = self.parts[p]
            part.add_partition_constraints()
            lst = part.list_of_constraints
            d, m = part.get_nb_blocks(), self.n_decomposed(p)
            if len(lst) != m * m * d * (d - 1) // 2:
                self.problem("relations-of-a-decomposed-point-missing", i, partition=p, decomposed=m, d=d,
                             generated=len(lst), expected=m * m * d * (d - 1) // 2)
            key = (p, m)
            if key in self.ncons and self.ncons[key] != len(lst):
                self.problem("constraint-list-grows-when-regenerated", i, before=self.ncons[key], now=len(lst))
            self.ncons[key] = len(lst)
            return [T.dump_constraint(c, LeafIds(), NoExprs()) for c in lst]
        if h == "WSolve":
            self.collect()
            return self.solve(i)
        raise ValueError(h)

    def get(self, i, p, o, k, pt):
            Point = self.Point
            part = self.parts[p]
            d = part.get_nb_blocks()
            ctr0 = Point.counter
            try:
                b = part.get_block(pt, k)
            except AssertionError:
                if Point.counter != ctr0:
                    self.problem("rejected-call-changed-state", i)
                return "AssertionError"
            first = (p, o) not in self.base
            if first:
                blocks = [part.get_block(pt, j) for j in range(d)]     # public API only (idempotent calls)
                if blocks[k] is not b:
                    self.problem("second-call-returned-other-block", i)
                self.base[(p, o)] = len(self.objs)
                self.dict_at[(p, o)] = fr_items(pt.decomposition_dict)
                for x in blocks:
                    self.add_obj(x)
                # --- sum-back on coefficient dictionaries, number of blocks, d = 1 identity, leaf count
                if len(blocks) != d:
                    self.problem("wrong-number-of-blocks", i, got=len(blocks), d=d)
                tot = {}
                for x in blocks:
                    for kk, v in fr_items(x.decomposition_dict).items():
                        tot[kk] = tot.get(kk, Fraction(0)) + v
                tot = {kk: v for kk, v in tot.items() if v != 0}
                if tot != self.dict_at[(p, o)]:
                    self.problem("blocks-do-not-sum-back", i, blocks_sum=sorted(tot.items()),
                                 point=sorted(self.dict_at[(p, o)].items()))
                if Point.counter != ctr0 + d - 1:
                    self.problem("wrong-number-of-fresh-leaves", i, created=Point.counter - ctr0, d=d)
                if d == 1 and fr_items(blocks[0].decomposition_dict) != self.dict_at[(p, o)]:
                    self.problem("one-block-partition-not-identity", i)
                if self.values is not None:
                    self.values.decomposed(p, pt, blocks)
            else:
                # --- asking again: the same objects, no new leaf
                want = self.objs[self.base[(p, o)] + k]
                if b is not want:
                    self.problem("second-call-returned-other-block", i,
                                 got=sorted(fr_items(b.decomposition_dict).items()),
                                 before=sorted(fr_items(want.decomposition_dict).items()))
                if Point.counter != ctr0:
                    self.problem("second-call-allocated-leaves", i, created=Point.counter - ctr0)
            num = self.objnum[b] if self.objnum.has(b) else -1
            return [T.dump_pdict(b.decomposition_dict, LeafIds()), num, Point.counter]
    def solve(self, i):
            from . import recording
            w, _ = recording.solve_with(self.pep, recording.RecordingWrapper)
            sent = list(self.pep._list_of_constraints_sent_to_wrapper)
            received = [e[1] for e in w.events if e[0] == "send"]
            if [id(c) for c in sent] != [id(c) for c in received]:
                self.problem("tracking-list-differs-from-what-the-wrapper-received", i)
            # every partition ever created (whatever the way, whatever the others look like): all its relations
            # are formulated and every one of them reaches the wrapper
            for p, part in enumerate(self.parts):
                d = part.get_nb_blocks()
                m = self.n_decomposed(p)
                expected = m * m * d * (d - 1) // 2
                how = [o for o in self.ops if o[0] == "WPart"][p]
                if len(part.list_of_constraints) != expected:
                    self.problem("partition-relations-not-formulated-at-solve", i, partition=p, declared=list(how),
                                 formulated=len(part.list_of_constraints), expected=expected)
                    continue
                n_sent = sum(1 for c in part.list_of_constraints if any(c is s_ for s_ in received))
                if n_sent != expected:
                    self.problem("partition-relations-not-sent-to-the-solver", i, partition=p, declared=list(how),
                                 sent=n_sent, expected=expected,
                                 partitions=[(q.get_nb_blocks(), self.n_decomposed(j)) for j, q in enumerate(self.parts)])
            return [T.dump_constraint(c, LeafIds(), NoExprs()) for c in sent]

    def solve_time_loop(self):
        """what PEP._solve_with_wrapper does with partitions (pep.py: `for partition in
        BlockPartition.list_of_partitions: partition.add_partition_constraints()`)"""
        from PEPit.block_partition import BlockPartition
        if [id(x) for x in BlockPartition.list_of_partitions] != [id(x) for x in self.parts]:
            self.problem("list_of_partitions-differs-from-declared", len(self.ops))
        self.collect()
        for partition in BlockPartition.list_of_partitions:
            partition.add_partition_constraints()


_frozen = []


def _freeze_once():
    """the heap of the imported libraries (numpy, cvxpy, ...) is moved out of the collector's way once, so that the
    gc.collect() calls of the scenarios only look at the scenario's own objects"""
    if not _frozen:
        gc.collect()
        gc.freeze()
        _frozen.append(True)


def _temporary(run, i, op):
    """("WGetT", p, tree, ks): the combination exists only inside this helper (as in
    `partition.get_block(g + beta * (x - x_prev), k)`); only its blocks survive, as objects of the scenario.  The
    harness keeps None at its object number, its Fraction dictionary in run.dict_at, and no reference to it."""
    _, p, tree, ks = op
    n = len(run.objs)
    run.objs.append(None)
    run.dirty = True
    direction = T.py_eval(tree, run.objs, [])
    outs = [[n, T.dump_pdict(direction.decomposition_dict, LeafIds())]]
    for k in ks:
        outs.append(run.get(i, p, n, k, direction))
    return outs


# ------------------------------------------------------------------ real coordinate partitions of Q^n
def mask(u, blk, k):
    return [a if blk[i] == k else Fraction(0) for i, a in enumerate(u)]


class ValueTracker(object):
    """values every leaf in Q^n: user leaves at random, the fresh leaves of a decomposition by the true
    coordinate-block projections of the decomposed point's value."""

    def __init__(self, rng, n):
        self.rng, self.n = rng, n
        self.val = {}             # leaf counter -> vector
        self.blk = {}             # partition number -> coordinate -> block

    def user_leaf(self, pt):
        self.val[pt.counter] = [Fraction(self.rng.randint(-6, 6), self.rng.choice([1, 1, 2, 3])) for _ in range(self.n)]

    def new_partition(self, p, d):
        # every block number < d may be used; blocks may be empty (n < d) and need not be contiguous
        self.blk[p] = [self.rng.randrange(d) for _ in range(self.n)]

    def value(self, pt):
        acc = [Fraction(0)] * self.n
        for k, v in pt.decomposition_dict.items():
            acc = T.vec_add(acc, T.vec_scal(to_fraction(v), self.val[k.counter]))
        return acc

    def value_items(self, items):
        acc = [Fraction(0)] * self.n
        for k, v in items.items():
            acc = T.vec_add(acc, T.vec_scal(v, self.val[k]))
        return acc

    def decomposed(self, p, pt, blocks):
        u = self.value(pt)
        for k, b in enumerate(blocks[:-1]):
            if b.get_is_leaf() and b.counter not in self.val:
                self.val[b.counter] = mask(u, self.blk[p], k)


def sym_form(items):
    """canonical symmetric form of a bilinear expression given as [((a, b), coef)]: <a,b> and <b,a> identified"""
    out = {}
    for (a, b), v in items:
        key = (min(a, b), max(a, b))
        out[key] = out.get(key, Fraction(0)) + v
    return tuple(sorted((k, v) for k, v in out.items() if v != 0))


def product_form(da, db):
    return sym_form([((a, b), va * vb) for a, va in da.items() for b, vb in db.items()])


def check_real(run):
    """after a scenario was run with a ValueTracker: sum-back, remainder = last projection, every generated
    constraint holds, every orthogonality between different blocks is implied by the list, nothing else is in it.
    Returns a problem dict or None."""
    vt = run.values
    run.solve_time_loop()
    for p, part in enumerate(run.parts):
        d = part.get_nb_blocks()
        blk = vt.blk[p]
        dec = [(o, b) for (pp, o), b in run.base.items() if pp == p]
        families = []
        for o, base in dec:
            pt = run.objs[o]
            blocks = run.objs[base:base + d]
            if pt is not None and [id(part.get_block(pt, j)) for j in range(d)] != [id(x) for x in blocks]:
                return dict(kind="stored-blocks-changed", partition=p, obj=o)
            u = vt.value_items(run.dict_at[(p, o)])          # the point's value (a temporary is gone: its dictionary)
            vals = [vt.value(b) for b in blocks]
            tot = [Fraction(0)] * vt.n
            for v in vals:
                tot = T.vec_add(tot, v)
            if tot != u:
                return dict(kind="real-projections-do-not-sum-back", partition=p, obj=o, point=u, blocks=vals)
            for k in range(d):
                if vals[k] != mask(u, blk, k):
                    return dict(kind="block-is-not-the-coordinate-projection", partition=p, obj=o, block=k,
                                point=u, got=vals[k], blk=blk)
            families.append((o, blocks, vals))
        # every generated constraint holds at the real projections
        gen_forms = []
        for ci, c in enumerate(part.list_of_constraints):
            if c.equality_or_inequality != "equality":
                return dict(kind="partition-constraint-is-not-an-equality", partition=p, index=ci)
            items = []
            tot = Fraction(0)
            for key, v in c.expression.decomposition_dict.items():
                if not isinstance(key, tuple):
                    return dict(kind="partition-constraint-has-non-product-term", partition=p, index=ci)
                a, b = key
                items.append(((a.counter, b.counter), to_fraction(v)))
                tot += to_fraction(v) * T.dot(vt.val[a.counter], vt.val[b.counter])
            if tot != 0:
                return dict(kind="real-projections-violate-generated-constraint", partition=p, index=ci,
                            value=tot, blk=blk)
            gen_forms.append(sym_form(items))
        gen_set = set(gen_forms)
        # completeness: all pairs of DIFFERENT blocks of decomposed points (same or different points)
        required = set()
        for (oi, bi, _) in families:
            for (oj, bj, _) in families:
                for k in range(d):
                    for l in range(d):
                        if k == l:
                            continue
                        f = product_form(fr_items(bi[k].decomposition_dict), fr_items(bj[l].decomposition_dict))
                        required.add(f)
                        if f not in gen_set:
                            return dict(kind="orthogonality-relation-missing", partition=p, obj_i=oi, block_i=k,
                                        obj_j=oj, block_j=l, n_generated=len(gen_forms))
        # nothing more: every generated relation is one of the required ones, and the count is m^2 d(d-1)/2
        for ci, f in enumerate(gen_forms):
            if f not in required:
                return dict(kind="extra-constraint-generated", partition=p, index=ci)
        m = len(families)
        if len(gen_forms) != m * m * d * (d - 1) // 2:
            return dict(kind="wrong-number-of-partition-constraints", partition=p, got=len(gen_forms),
                        expected=m * m * d * (d - 1) // 2, decomposed=m, d=d)
        if d == 1 and gen_forms:
            return dict(kind="one-block-partition-generated-constraints", partition=p)
    return None
