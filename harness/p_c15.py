"""C15 — block partitions behave as orthogonal coordinate-block projections.

Tie (H): seeded scenarios (declare_block_partition, get_block on leaves / combinations / blocks / the same object
again / distinct objects with equal decomposition, add_partition_constraints once or twice) are run on the real
PEPit and on Model/Blocks.v (`run_world`); every returned block dictionary, the identity of the returned object,
Point.counter and the full constraint lists (dictionaries, sense, order) must agree exactly.
Solve time: scenarios contain several partitions (one block, never used, declared through the PEP, through another PEP
object, with the class constructor, before / after use) and pep.solve() through harness/recording.py's wrapper; the
scalar constraints in pep._list_of_constraints_sent_to_wrapper must be exactly the model's
`sent_partition_constraints` (concatenation over ALL partitions); fixed solved instances check that the cross-block
Gram products of the returned solution are 0.
Search: on the implementation alone, with real coordinate partitions of Q^n in exact Fractions (blockslib.check_real)."""
import json
import random

from . import blockslib as B
from .common import run_cases, model_output

GEN_DEPS = []
TRUSTED = [
    "Model/Blocks.v: hand model of BlockPartition.get_block / add_partition_constraints and of the solve-time loop of "
    "pep.py over BlockPartition.list_of_partitions (tied by the `block-scenarios` stream)",
    "harness/recording.py RecordingWrapper stands for the solver when the constraints reaching the wrapper are compared "
    "(PEPit's own _solve_with_wrapper runs unchanged up to wrapper.solve)",
    "identity of Python objects is represented by the object numbers the harness assigns (Point has no __eq__/__hash__)",
    "Base/IPS.v Rn: R^n as functions nat -> R observed on coordinates < n; coordinate-block projection = masking by a "
    "block-assignment function blk : nat -> nat",
]
ASSUMES = [
    "point dictionaries have unique keys and mention only leaves that already exist when get_block is called "
    "(true of every dictionary PEPit's operators build; hypothesis `ok` of the theorems)",
]

IMPORTS = ["From PV Require Import Model.Blocks."]
RUN = "run_world"
INPUT_TYPE = "list wop"


def _detuple(x):
    if isinstance(x, list):
        return tuple(_detuple(y) for y in x)
    return x


def run_impl(ops, values=None):
    return B.Run(ops, values=values)


def nontrivial(ops):
    """a scenario counts when at least one object is decomposed with d >= 2 and a constraint list is generated"""
    ds = [o[1] for o in ops if o[0] == "WPart"]
    ops = B.flatten(ops)
    return any(o[0] == "WGet" and ds[o[1]] >= 2 and o[3] < ds[o[1]] for o in ops) and \
        any(o[0] in ("WCons", "WSolve") for o in ops)


def correspondence(tier, seed, corpus=()):
    rng = random.Random(seed * 7919 + 15)
    n = 500 if tier == "quick" else 4000
    scen = [_detuple(c) for c in corpus]
    while len(scen) < n + len(corpus):
        scen.append(tuple(B.gen_scenario(rng)))
    cases, runs, problems = [], [], []
    hist = {}
    distinct = set()
    stats = dict(gets=0, first_decompositions=0, repeated_gets=0, rejected=0, constraints=0,
                 max_constraints_in_a_list=0)
    for ops in scen:
        ops = list(ops)
        try:
            r = run_impl(ops)
        except Exception as e:
            problems.append(dict(kind="implementation-raised", ops=ops, error=repr(e)))
            continue
        problems += r.problems
        cases.append((B.coq_scenario(ops), r.outputs))
        runs.append((ops, r.outputs))
        for k, v in r.hist.items():
            hist[k] = hist.get(k, 0) + v
        stats["first_decompositions"] += len(r.base)
        stats["temporaries"] = stats.get("temporaries", 0) + getattr(r, "ntemp", 0)
        for op, out in zip(r.flat_ops, r.outputs):
            if op[0] == "WGet":
                stats["gets"] += 1
                if out == "AssertionError":
                    stats["rejected"] += 1
            if op[0] == "WSolve":
                stats["solves"] = stats.get("solves", 0) + 1
                stats["sent_at_solve"] = stats.get("sent_at_solve", 0) + len(out)
            if op[0] == "WCons":
                stats["constraints"] += len(out)
                stats["max_constraints_in_a_list"] = max(stats["max_constraints_in_a_list"], len(out))
        stats["repeated_gets"] = stats["gets"] - stats["first_decompositions"] - stats["rejected"]
        if nontrivial(ops):
            distinct.add(repr(ops))
    bad = run_cases("c15", IMPORTS, RUN, cases, shard=32, input_type=INPUT_TYPE)
    mism = []
    for i in bad[:3]:
        ops, out = runs[i]
        mism.append(dict(kind="model-differs", ops=ops, implementation=out,
                         model=model_output(IMPORTS, RUN, cases[i][0])[:3000]))
    sizes = [len(o) for o, _ in runs]
    return [_scenario_stream(cases, distinct, mism, bad, problems, runs, hist, sizes, stats),
            real_stream(tier, seed), solve_stream(), multi_partition_solve_stream(),
            block_smooth_stream(tier, seed)]


def _scenario_stream(cases, distinct, mism, bad, problems, runs, hist, sizes, stats):
    return dict(name="block-scenarios", evaluations=len(cases), distinct_nontrivial=len(distinct),
                rule="seeded scenarios over <= 3 partitions with 1 <= d <= 4: get_block on leaves, operator-built "
                     "combinations, blocks, the same object again, twin objects with equal decomposition, invalid block "
                     "numbers; TEMPORARY combinations built inline in a helper and dropped (gc.collect() before every solve / "
                     "add_partition_constraints; the model still counts them as decomposed); partitions created through the PEP / another PEP object / the class constructor, some with one "
                     "block, some never used, declared before or after use; add_partition_constraints by hand once or twice "
                     "and pep.solve() through the recording wrapper (everything in _list_of_constraints_sent_to_wrapper is "
                     "compared); non-trivial = some object decomposed with d >= 2 and a constraint list generated or sent; "
                     "distinct by op list",
                mismatches=mism, n_mismatch=len(bad), problems=problems[:5], n_problems=len(problems),
                samples=[dict(ops=runs[i][0], outputs=runs[i][1]) for i in range(min(1, len(runs)))],
                distribution=dict(ops=hist, scenario_len_min=min(sizes), scenario_len_max=max(sizes), **stats))


def real_stream(tier, seed):
    """implementation only: the same scenarios under real coordinate partitions of Q^n (exact Fractions)"""
    rng = random.Random(seed * 104729 + 15)
    n = 300 if tier == "quick" else 3000
    problems, distinct, dims = [], set(), {}
    sample = None
    for _ in range(n):
        ops = B.gen_scenario(rng, max_dec=5)
        dim = rng.randint(1, 6)
        dims[dim] = dims.get(dim, 0) + 1
        bad = search_one(rng, ops=ops, n=dim)
        if bad:
            problems.append(bad)
        if nontrivial(ops):
            distinct.add(repr(ops))
        sample = sample or dict(ops=ops, n=dim, verdict="ok" if not bad else bad.get("kind"))
    return dict(name="real-partitions", evaluations=n, distinct_nontrivial=len(distinct),
                rule="implementation only: scenarios run with every leaf valued in Q^n (n <= 6), fresh leaves valued by "
                     "the true coordinate-block projections; sum-back, remainder = last projection, every generated "
                     "constraint holds, every relation between different blocks is in the list (up to mirror image), "
                     "nothing else is, count m^2 d(d-1)/2; non-trivial as in block-scenarios",
                mismatches=[], n_mismatch=0, problems=problems[:5], n_problems=len(problems),
                samples=[sample], distribution=dict(dimension=dims))


def block_smooth_stream(tier, seed):
    """block-smooth functions are constrained block by block: real block-smooth quadratics on R^n with a coordinate
    partition (equal and unequal block constants), recorded through the real API with the blocks valued by the true
    projections; every generated class constraint must hold (harness/members.py, shared with C03)."""
    from . import members
    rng = random.Random(seed * 31 + 1515)
    n = 40 if tier == "quick" else 600
    problems, ran = [], 0
    sample = None
    for _ in range(n):
        try:
            r = members.check_class("BlockSmoothConvexFunction", rng, rng.randrange(10 ** 6))
        except Exception as e:
            problems.append(dict(kind="block-smooth-member-check-raised", error=repr(e)))
            continue
        if r and "skipped" in r:
            continue
        ran += 1
        if r:
            problems.append(r)
        sample = sample or dict(cls="BlockSmoothConvexFunction", verdict="ok" if not r else r.get("kind"))
    return dict(name="block-smooth-members", evaluations=ran, distinct_nontrivial=ran,
                rule="seeded real block-smooth quadratics with coordinate partitions (members.check_class); every world is "
                     "a distinct (partition, constants, samples) draw",
                mismatches=[], n_mismatch=0, problems=problems[:3], n_problems=len(problems), samples=[sample or {}],
                distribution=dict(worlds=ran))


def solve_stream():
    """the solve-time loop of pep.py on three tiny models: max |x^0|^2 + <y^(d-1), x^0> s.t. |x|^2 <= 1, |y|^2 <= 1
    is 1 exactly when the orthogonality relations (within x, and across x and y) are imposed (2 for d = 1)."""
    from PEPit import PEP
    problems, samples = [], []
    for d in (1, 2, 3):
        pb = PEP()
        part = pb.declare_block_partition(d=d)
        x, y = pb.set_initial_point(), pb.set_initial_point()
        b0, c0 = part.get_block(x, 0), part.get_block(y, d - 1)
        pb.set_initial_condition(x ** 2 <= 1)
        pb.set_initial_condition(y ** 2 <= 1)
        pb.set_performance_metric(b0 ** 2 + c0 * b0)
        rec = dict(d=d)
        try:
            v1 = pb.solve(verbose=0)
            n1 = len(part.list_of_constraints)
            sent = sum(1 for c in part.list_of_constraints
                       if any(c is s for s in pb._list_of_constraints_sent_to_wrapper))
            v2 = pb.solve(verbose=0)
            n2 = len(part.list_of_constraints)
        except Exception as e:
            problems.append(dict(kind="solve-raised", d=d, error=repr(e)))
            continue
        want_n = 4 * d * (d - 1) // 2
        want_v = 2.0 if d == 1 else 1.0
        rec.update(value=v1, value_again=v2, constraints=n1, constraints_again=n2, sent=sent)
        # a further point decomposed AFTER two solves, then a third solve: the relations of the new point with itself
        # and with the earlier ones must be imposed as well ( (m+1)^2 d(d-1)/2 relations, all of them sent )
        try:
            z = pb.set_initial_point()
            part.get_block(z, 0)
            pb.set_initial_condition(z ** 2 <= 1)
            v3 = pb.solve(verbose=0)
            n3 = len(part.list_of_constraints)
            sent3 = sum(1 for c in part.list_of_constraints
                        if any(c is s_ for s_ in pb._list_of_constraints_sent_to_wrapper))
        except Exception as e:
            problems.append(dict(kind="solve-raised", d=d, error=repr(e), stage="third solve after a new decomposition"))
            continue
        want_n3 = 9 * d * (d - 1) // 2
        rec.update(constraints_after_new_point=n3, sent_after_new_point=sent3, value_after_new_point=v3)
        samples.append(rec)
        if n3 != want_n3 or sent3 != n3:
            problems.append(dict(kind="relations-of-a-point-decomposed-between-solves-missing", expected=want_n3, **rec))
            continue
        if n1 != want_n or n2 != want_n or sent != n1:
            problems.append(dict(kind="solve-time-partition-constraints", expected=want_n, **rec))
        # a solver float: compared only against a wide margin (the exact content of the list is checked above)
        elif v1 is None or v2 is None or abs(v1 - want_v) > 0.05 or abs(v2 - want_v) > 0.05:
            problems.append(dict(kind="solve-value-shows-missing-or-extra-orthogonality", expected=want_v, **rec))
    return dict(name="solve-time-loop", evaluations=3, distinct_nontrivial=2,
                rule="three fixed tiny PEPs (d = 1, 2, 3) solved twice with cvxpy/SCS, then a third time after a new point "
                     "was decomposed; non-trivial = d >= 2",
                mismatches=[], n_mismatch=0, problems=problems, n_problems=len(problems), samples=samples[:2],
                distribution=dict(d=[1, 2, 3]))


MULTI_INSTANCES = [(how, extra) for how in ("pep", "ctor", "other")
                   for extra in (None, "unused-2-block-first", "one-block-used-after", "unused-3-block-ctor-after",
                                 "one-block-unused-first")] + \
                  [(how, "temporary") for how in ("pep", "ctor", "other")] + [("pep", "temporary+one-block-used-after")]


def _blocks_of_temporary(part, x, y, d):
    """the decomposed combination x - 2y exists only here (as in `partition.get_block(g + beta * (x - x_prev), i)`);
    only its blocks are returned"""
    direction = x - 2 * y
    return [part.get_block(direction, k) for k in range(d)]


def solved_instance(how, extra):
    """one solved PEP with several partitions.  Two leaf points x, y and z = x - 2y; a 3-block partition (created
    `how`: through the PEP, through another PEP object, or with the class constructor) decomposes x and z (y never);
    every block has norm <= 1; maximise <x0,x1> + <x2,z0> + <z1,x0> + <z2,z1> (products of DIFFERENT blocks only).
    `extra` adds a partition that induces no relation (one block, or never used), before or after, or makes z a
    TEMPORARY (built inside a helper, only its blocks survive, gc.collect() before the solve).  Whatever the
    other partitions look like the 12 relations must be formulated and sent, the value is 0 and every cross-block
    Gram product of the returned solution is 0.  Returns a problem dict or None."""
    from PEPit import PEP, Point, BlockPartition
    other = PEP()
    pb = PEP()
    d = 3

    def make(dd, h):
        return BlockPartition(d=dd) if h == "ctor" else (other if h == "other" else pb).declare_block_partition(d=dd)

    if extra == "unused-2-block-first":
        make(2, "pep")
    if extra == "one-block-unused-first":
        make(1, "ctor")
    part = make(d, how)
    x, y = Point(), Point()
    xb = [part.get_block(x, k) for k in range(d)]
    if extra and extra.startswith("temporary"):
        zb = _blocks_of_temporary(part, x, y, d)
    else:
        z = x - 2 * y
        zb = [part.get_block(z, k) for k in range(d)]
    if extra in ("one-block-used-after", "temporary+one-block-used-after"):
        ident = make(1, "pep")
        ident.get_block(x, 0)
    if extra == "unused-3-block-ctor-after":
        make(3, "ctor")
    for b in xb + zb:
        pb.add_constraint(b ** 2 <= 1)
    pb.set_performance_metric(xb[0] * xb[1] + xb[2] * zb[0] + zb[1] * xb[0] + zb[2] * zb[1])
    inst = dict(instance=[how, extra])
    import gc
    gc.collect()
    try:
        tau = pb.solve(verbose=0)
    except Exception as e:
        return dict(kind="solve-raised", error=repr(e), **inst)
    fams = [xb, zb]
    expected = len(fams) ** 2 * d * (d - 1) // 2
    n_form = len(part.list_of_constraints)
    n_sent = sum(1 for c in part.list_of_constraints if any(c is s for s in pb._list_of_constraints_sent_to_wrapper))
    if n_form != expected or n_sent != expected:           # exact: decides
        return dict(kind="multi-partition-relations-missing-at-solve", formulated=n_form, sent=n_sent,
                    expected=expected, value=tau, **inst)
    if tau is None:
        return dict(kind="multi-partition-solve-unbounded", **inst)
    cross = max(abs(float((pi[k] * pj[l]).eval())) for pi in fams for pj in fams
                for k in range(d) for l in range(d) if k != l)
    # solver floats: wide margins only (a missing relation gives value >= 1 and cross products of size 1)
    if abs(tau) > 0.05 or cross > 0.05:
        return dict(kind="cross-block-gram-products-not-zero-in-solution", value=tau, max_cross_product=cross, **inst)
    return None


def multi_partition_solve_stream():
    problems, samples = [], []
    for how, extra in MULTI_INSTANCES:
        bad = solved_instance(how, extra)
        if bad:
            problems.append(bad)
        if len(samples) < 2:
            samples.append(dict(instance=[how, extra], verdict="ok" if not bad else bad["kind"]))
    return dict(name="multi-partition-solved", evaluations=len(MULTI_INSTANCES), distinct_nontrivial=len(MULTI_INSTANCES),
                rule="fixed tiny PEPs solved with cvxpy/SCS: the 3-block partition created through the PEP / another PEP "
                     "object / the class constructor, alone or together with a one-block or never-used partition declared "
                     "before or after; 12 relations formulated and sent (exact), value and cross-block Gram products 0 "
                     "(margin 0.05); every instance is distinct and non-trivial",
                mismatches=[], n_mismatch=0, problems=problems[:3], n_problems=len(problems), samples=samples,
                distribution=dict(instances=[list(map(str, i)) for i in MULTI_INSTANCES]))


def search_one(rng, ops=None, n=None):
    n = n or rng.randint(1, 6)
    ops = ops or B.gen_scenario(rng, max_dec=5)
    vt = B.ValueTracker(rng, n)
    try:
        r = run_impl(list(ops), values=vt)
    except Exception as e:
        return dict(kind="implementation-raised", ops=list(ops), error=repr(e))
    if r.problems:
        return r.problems[0]
    try:
        bad = B.check_real(r)
    except Exception as e:
        return dict(kind="real-partition-check-raised", ops=list(ops), error=repr(e), n=n)
    if bad:
        return dict(ops=list(ops), n=n, **bad)
    return None


def search(tier, seed):
    """failing-input search on the implementation alone: solved multi-partition instances, then scenarios under real
    coordinate partitions of Q^n, n <= 6"""
    for how, extra in MULTI_INSTANCES:
        bad = solved_instance(how, extra)
        if bad:
            return bad
    rng = random.Random(seed + 151515)
    for _ in range(600 if tier == "quick" else 6000):
        bad = search_one(rng)
        if bad:
            return bad
    return None


def known_findings(known):
    out = []
    for k in known:
        trig = k.get("trigger", {})
        ops = _detuple(trig.get("ops", []))
        still = bool(ops) and replay(dict(ops=ops, n=trig.get("n", 3)))
        out.append((k["id"], still, k.get("what", "")))
    return out


def is_known(payload, known):
    for k in known:
        trig = k.get("trigger", {})
        if trig.get("kind") and trig.get("kind") == payload.get("kind") and \
                json.dumps(trig.get("ops")) == json.dumps(payload.get("ops")):
            return k["id"]
    return None


def replay(payload):
    """True iff the stored scenario still fails (on the implementation's own checks, under real partitions, or
    against the model)"""
    if "instance" in payload and "ops" not in payload:
        return solved_instance(*payload["instance"]) is not None
    if "ops" not in payload:
        return any(s.get("n_problems") or s.get("n_mismatch") for s in [solve_stream(), multi_partition_solve_stream()])
    ops = [_detuple(o) for o in payload["ops"]]
    for s in range(5):
        bad = search_one(random.Random(s), ops=ops, n=payload.get("n"))
        if bad:
            return True
    try:
        r = run_impl(list(ops))
    except Exception:
        return True
    return bool(run_cases("c15r", IMPORTS, RUN, [(B.coq_scenario(ops), r.outputs)], input_type=INPUT_TYPE))
