"""Shared machinery of the C02 / C13 checks: an injected-solution wrapper, online program generation
against the real PEPit, the Coq rendering of the programs for Model/Resolve.v, and an independent
recomputation (in Fractions) of what every evaluation should return under the LATEST solution.

No solver runs in the main streams: `FakeSolveWrapper` (a subclass of PEPit.wrapper.Wrapper registered in
PEPit.wrappers.WRAPPERS from here; nothing in PEPit is patched) answers `solve()` with a chosen Gram
matrix G = P0^T P0 - eps q q^T (P0 small integers, P0 q = 0, so the PSD projection of G is exactly
P0^T P0 and every entry is an exactly representable dyadic), a dyadic F and position-tagged duals.
The only rounding in the whole pipeline is numpy's eigh + QR inside `_eval_points_and_function_values`
(about 1e-13 here): values that went through it are compared with tolerance 1e-8 * (1 + |x|), vectors
are compared through inner products (QR fixes coordinates only up to an orthogonal map), everything
else (what is sent, duals, cache flags, exception kinds, counters) exactly."""
import contextlib
import io
import math
import random
from fractions import Fraction

import numpy as np

from . import terms as T
from .common import coq_q, coq_nat, coq_list, Q, to_fraction, run_cases, model_output

WRAPPER_NAME = "harness"        # solve() requires importlib.util.find_spec(name): this package is importable
TOL = 1e-7                      # direct checks on the implementation (the model comparison uses 1e-8 in Coq)


# ------------------------------------------------------------------------------------------ wrapper
def install_wrapper():
    from PEPit.wrapper import Wrapper
    from PEPit.wrappers import WRAPPERS
    if WRAPPER_NAME in WRAPPERS:
        return WRAPPERS[WRAPPER_NAME]

    class FakeSolveWrapper(Wrapper):
        """records what PEP sends; `solve` returns the injected answer FakeSolveWrapper.plan(self)"""
        plan = None
        last = None

        def check_license(self):
            return True

        def set_main_variables(self):
            pass

        def send_constraint_to_solver(self, constraint):
            self._list_of_constraints_sent_to_solver.append(constraint)

        def send_lmi_constraint_to_solver(self, psd_counter, psd_matrix):
            self._list_of_constraints_sent_to_solver.append(psd_matrix)

        def generate_problem(self, objective):
            self.objective = objective
            return None

        def solve(self, **kwargs):
            FakeSolveWrapper.last = self
            ans = FakeSolveWrapper.plan(self)
            self.answer = ans
            if ans is None:
                return "unbounded", "injected", None
            self.optimal_G = ans["G"]
            self.optimal_F = ans["F"]
            return "optimal", "injected", ans["value"]

        def _recover_dual_values(self):
            return [self.answer["residual"]] + list(self.answer["duals"]), self.answer["residual"]

        # dimension-reduction heuristics: the extra objective / constraint live on the solver side only;
        # every further solve() call asks the plan for a new answer
        def prepare_heuristic(self, wc_value, tol_dimension_reduction):
            self.heuristic_calls = getattr(self, "heuristic_calls", 0)

        def heuristic(self, weight):
            self.heuristic_calls = getattr(self, "heuristic_calls", 0) + 1

    WRAPPERS[WRAPPER_NAME] = FakeSolveWrapper
    return FakeSolveWrapper


# ------------------------------------------------------------------------------------------ exact linear algebra
def null_vector(P0, n):
    """an integer vector q != 0 with P0 q = 0 (Fractions, Gaussian elimination); None when P0 has rank n"""
    rows = [[Fraction(x) for x in r] for r in P0]
    piv = []
    r = 0
    for c in range(n):
        k = next((i for i in range(r, len(rows)) if rows[i][c] != 0), None)
        if k is None:
            continue
        rows[r], rows[k] = rows[k], rows[r]
        rows[r] = [x / rows[r][c] for x in rows[r]]
        for i in range(len(rows)):
            if i != r and rows[i][c] != 0:
                f = rows[i][c]
                rows[i] = [a - f * b for a, b in zip(rows[i], rows[r])]
        piv.append(c)
        r += 1
    free = [c for c in range(n) if c not in piv]
    if not free:
        return None
    f = free[0]
    q = [Fraction(0)] * n
    q[f] = Fraction(1)
    for i, c in enumerate(piv):
        q[c] = -rows[i][f]
    den = 1
    for x in q:
        den = den * x.denominator // math.gcd(den, x.denominator)
    return [int(x * den) for x in q]


def make_answer(rng, n, m, solve_no, sent, fail=False, answer_no=0):
    """the injected answer for a problem with n leaf points, m leaf expressions and the given sent items"""
    if fail:
        return None, None
    r = rng.randint(1, n) if n else 0
    P0 = [[Fraction(rng.randint(-3, 3), rng.choice([1, 1, 2])) for _ in range(n)] for _ in range(r)]
    if r >= 2 and rng.random() < 0.35:
        # badly scaled but legitimate: one direction of the instance is 32..128 times smaller than the others
        k = rng.randrange(r)
        sc = Fraction(1, rng.choice([32, 64, 128]))
        P0[k] = [x * sc for x in P0[k]]
    G = [[sum(P0[k][i] * P0[k][j] for k in range(r)) for j in range(n)] for i in range(n)]
    neg = None
    if n and rng.random() < 0.6:
        q = null_vector(P0, n)
        if q is not None and max(abs(x) for x in q) <= 64:
            eps = Fraction(1, 2 ** rng.randint(3, 8))
            neg = dict(q=q, eps=eps)
            G = [[G[i][j] - eps * q[i] * q[j] for j in range(n)] for i in range(n)]
    F = [Fraction(rng.randint(-24, 24), 8) for _ in range(m)]
    duals = []
    for k, it in enumerate(sent):
        if type(it).__name__ == "PSDMatrix":
            s = it.shape[0]
            duals.append(np.array([[float(Fraction(64 * solve_no + k + 1 + 4096 * answer_no) + Fraction(i, 4) + Fraction(j, 16))
                                    for j in range(s)] for i in range(s)]))
        else:
            duals.append(float(Fraction(64 * solve_no + k + 1, 8) + 512 * answer_no))
    Gf = np.array([[float(x) for x in row] for row in G]).reshape(n, n)
    assert all(Fraction(Gf[i, j]) == G[i][j] for i in range(n) for j in range(n))
    ans = dict(G=Gf, F=np.array([float(x) for x in F]), duals=duals, residual=np.zeros((n, n)), value=None)
    exact = dict(P0=P0, F=F, neg=neg, n=n, m=m, rank=r,
                 duals=[d.tolist() if isinstance(d, np.ndarray) else d for d in duals])
    return ans, exact


# ------------------------------------------------------------------------------------------ Coq literals
def coq_pdict(items):
    return coq_list(["(%s, %s)" % (coq_nat(k), coq_q(v)) for k, v in items])


def coq_ekey(k):
    if k[0] == 0:
        return "KF %s" % coq_nat(k[1])
    if k[0] == 1:
        return "KG %s %s" % (coq_nat(k[1]), coq_nat(k[2]))
    return "K1"


def coq_edict(items):
    return coq_list(["(%s, %s)" % (coq_ekey(k), coq_q(v)) for k, v in items])


def coq_eh(e):
    return "(ELeaf %s)" % coq_nat(e[1]) if e[0] == "L" else "(ERef %s)" % coq_nat(e[1])


def coq_sense(s):
    return "Ineq" if s == 0 else "Equ"


def coq_val(v):
    if isinstance(v, list):
        return "(VMat %s)" % coq_list([coq_list([coq_q(x) for x in row]) for row in v])
    return "(VNum %s)" % coq_q(v)


def coq_solution(exact):
    n = exact["n"]
    rows = [list(r) for r in exact["P0"]] + [[Fraction(0)] * n for _ in range(n - exact["rank"])]
    return "(mkSol %s %s %s)" % (coq_list([coq_list([coq_q(x) for x in row]) for row in rows]),
                                 coq_list([coq_q(x) for x in exact["F"]]),
                                 coq_list([coq_val(d) for d in exact["duals"]]))


def coq_templates(ft, pt):
    fs = ["(mkFT %s %s)" % (coq_list(["(%s, %s)" % (coq_edict(d), coq_sense(s)) for d, s in cons]),
                            coq_list([coq_list([coq_list([coq_edict(d) for d in row]) for row in m]) for m in lmis]))
          for cons, lmis in ft]
    ps = [coq_list([coq_edict(d) for d in p]) for p in pt]
    return "(SetTemplates %s %s)" % (coq_list(fs), coq_list(ps))


IMPORTS = ["From PV Require Import Model.Eval Model.Resolve."]
RUN = "check_case"
INPUT_TYPE = "(list op * D)"


# ------------------------------------------------------------------------------------------ dumps of implementation objects
def edict_items(d):
    out = []
    for k, v in d.items():
        if isinstance(k, tuple):
            out.append(((1, k[0].counter, k[1].counter), to_fraction(v)))
        elif type(k).__name__ == "Expression":
            out.append(((0, k.counter), to_fraction(v)))
        elif isinstance(k, int) and k == 1:
            out.append(((2,), to_fraction(v)))
        else:
            raise TypeError("unexpected key %r" % (k,))
    return out


def pdict_items(d):
    return [(k.counter, to_fraction(v)) for k, v in d.items()]


def dump_edict_items(items):
    return [[list(k), Q(v)] for k, v in items]


def num(x):
    """a float produced by the implementation, as an exact rational (or a string when it is not finite)"""
    try:
        x = float(x)
        if math.isnan(x) or math.isinf(x):
            return "nan"
        return Q(Fraction(x))
    except (TypeError, ValueError):
        return "not-a-number:%s" % type(x).__name__


def err_kind(e):
    s = str(e)
    if isinstance(e, ValueError) and ("broadcast" in s or "shapes" in s or "aligned" in s):
        return "shape"
    if isinstance(e, ValueError) and "must be solved" in s:
        return "unsolved"
    return "exception:%s:%s" % (type(e).__name__, s[:60])


def class_table_problem(f):
    """the user-facing certificate of the class constraints (Function.tables_of_constraints /
    get_class_constraints_duals) must hold the constraint objects of the LATEST generation and their multipliers"""
    from PEPit import Constraint
    current = set(id(c) for c in f.list_of_class_constraints)
    for name, table in f.tables_of_constraints.items():
        try:
            cells = list(table.to_numpy().flat)
        except AttributeError:
            continue                              # hand-made tables are C17's subject
        for cell in cells:
            if isinstance(cell, Constraint) and id(cell) not in current:
                return dict(table=name, what="table cell is a constraint of an earlier generation")
    try:
        duals = f.get_class_constraints_duals()
    except Exception as e:
        return dict(what="get_class_constraints_duals raised", error="%s: %s" % (type(e).__name__, str(e)[:120]))
    for name, table in f.tables_of_constraints.items():
        try:
            cells = list(table.to_numpy().flat)
            vals = list(duals[name].to_numpy().flat)
        except (AttributeError, KeyError):
            continue
        for cell, v in zip(cells, vals):
            if isinstance(cell, Constraint) and id(cell) in current and float(v) != float(cell.eval_dual()):
                return dict(table=name, what="dual table differs from the multiplier of the sent constraint")
    return None


def declared_count(declared, it):
    return sum(1 for x in declared if x is it)


def ok_so_far(crashed, fail):
    return crashed is None and not fail


# ------------------------------------------------------------------------------------------ the world
class World(object):
    """one PEP driven op by op; keeps (i) the op list for the model, (ii) what the implementation answered,
    (iii) an independent account (Fractions) of what the answers should be under the latest solution."""

    def __init__(self, rng, real_classes=True):
        from PEPit import PEP
        self.W = install_wrapper()
        self.rng = rng
        self.p = PEP()
        self.ops, self.outs, self.trace = [], [], []
        self.objs, self.kinds, self.refs = [], [], {}
        self.np_, self.ne, self.nf = 0, 0, 0
        self.functions, self.partitions = [], []
        self.metrics = []
        self.solves = []              # per solve: dict(ok, exact, sent_counts, edited_since_last)
        self.latest = None            # exact answer of the latest SUCCESSFUL solve
        self.last_failed = False
        self.epoch = 0                # number of successful solves so far
        self.stamp = {}               # id(obj) -> epoch at which its cache was (effectively) computed
        self.sent_pos = {}            # id(obj) -> position in the latest successful solve
        self.sent_failed = set()
        self.edited = True
        self.points_after = 0         # leaf points created since the latest successful solve
        self.problems = []
        self.nevals = 0

    # ---- bookkeeping
    def emit(self, op, out=None, what=None):
        self.ops.append(op)
        self.outs.append([] if out is None else out)
        self.trace.append(what or op[:80])

    def sync(self):
        from PEPit import Point, Expression
        while self.np_ < Point.counter:
            self.emit("NewLeafP")
            self.np_ += 1
            self.points_after += 1
        while self.ne < Expression.counter:
            self.emit("NewLeafE")
            self.ne += 1
        from PEPit import Function
        while self.nf < len(Function.list_of_functions):
            self.emit("DeclFun")
            self.nf += 1

    def reg(self, o, kind):
        self.refs[id(o)] = len(self.objs)
        self.objs.append(o)
        self.kinds.append(kind)
        return len(self.objs) - 1

    def eh(self, x):
        """handle of an Expression object; derived ones get registered (MkExpr) on first use"""
        if x.get_is_leaf():
            return ("L", x.counter)
        if id(x) not in self.refs:
            self.sync()
            r = self.reg(x, "X")
            self.emit("(MkExpr %s)" % coq_edict(edict_items(x.decomposition_dict)), what="MkExpr #%d" % r)
        return ("R", self.refs[id(x)])

    def restamp(self):
        for o, k in zip(self.objs, self.kinds):
            if o._value is not None and id(o) not in self.stamp:
                st = self.epoch
                if k == "C" and not o.expression.get_is_leaf():
                    st = min(st, self.stamp.get(id(o.expression), st))
                if k == "L":
                    for row in o.matrix_of_expressions:
                        for x in row:
                            if not x.get_is_leaf():
                                st = min(st, self.stamp.get(id(x), st))
                self.stamp[id(o)] = st

    # ---- pools
    def leaf_points(self):
        from PEPit import Point
        return list(Point.list_of_leaf_points)

    def leaf_exprs(self):
        from PEPit import Expression
        return list(Expression.list_of_leaf_expressions)

    def pool(self, kind):
        return [o for o, k in zip(self.objs, self.kinds) if k == kind]

    def point_pool(self):
        lp = self.leaf_points()
        der = self.pool("P")
        self.rng.shuffle(der)
        return lp + der[:3]

    def expr_pool(self):
        le = self.leaf_exprs()
        der = self.pool("X")
        self.rng.shuffle(der)
        return le + der[:3]

    # ---- creation ops
    def new_point(self):
        from PEPit import Point
        Point()
        self.sync()

    def new_expr(self):
        from PEPit import Expression
        Expression()
        self.sync()

    def mk_point(self, depth=None):
        P = self.point_pool()
        if not P:
            return None
        for _ in range(5):
            t = T.gen_point(self.rng, depth or self.rng.choice([1, 2, 2, 3]), len(P))
            if t[0] != "PVar":
                break
        else:
            return None
        o = T.py_eval(t, P, [])
        self.sync()
        r = self.reg(o, "P")
        self.emit("(MkPoint %s)" % coq_pdict(pdict_items(o.decomposition_dict)), what="MkPoint #%d" % r)
        return o

    def mk_expr(self, depth=None):
        P, X = self.point_pool(), self.expr_pool()
        if not P or not X:
            return None
        for _ in range(5):
            t = T.gen_expr(self.rng, depth or self.rng.choice([0, 1, 1, 2, 3]), len(P), len(X))
            if t[0] != "XVar":
                break
        else:
            return None
        o = T.py_eval(t, P, X)
        self.eh(o)
        return o

    def mk_cons(self, on_held=False):
        from PEPit import Constraint
        X = self.expr_pool()
        if on_held and X:
            x = self.rng.choice(X)
            sense = self.rng.choice(["inequality", "inequality", "equality"])
            c = Constraint(expression=x, equality_or_inequality=sense)
        else:
            a = self.mk_expr()
            if a is None:
                return None
            r = self.rng.random()
            b = T.rand_scalar(self.rng) if r < 0.6 else (self.rng.choice(X) if X else 0)
            cmp_ = self.rng.choice(["le", "le", "ge", "eq"])
            c = (a <= b) if cmp_ == "le" else (a >= b) if cmp_ == "ge" else (a == b)
        e = self.eh(c.expression)
        self.sync()
        r = self.reg(c, "C")
        s = 0 if c.equality_or_inequality == "inequality" else 1
        self.emit("(MkCons %s %s)" % (coq_eh(e), coq_sense(s)), what="MkCons #%d" % r)
        return c

    def mk_lmi(self, add=False, fun=None):
        """fun = index in Function.list_of_functions: the LMI is declared with Function.add_psd_matrix"""
        from PEPit import PSDMatrix, Expression, Function
        X = self.expr_pool()
        size = self.rng.choice([1, 2, 2, 3])
        M = [[None] * size for _ in range(size)]
        sym = self.rng.random() < 0.7
        for i in range(size):
            for j in range(size):
                if sym and j < i:
                    M[i][j] = M[j][i]
                    continue
                r = self.rng.random()
                if r < 0.4 and X:
                    M[i][j] = self.rng.choice(X)
                elif r < 0.55:
                    M[i][j] = Expression(is_leaf=False, decomposition_dict={1: T.rand_scalar(self.rng)})
                else:
                    M[i][j] = self.mk_expr() or Expression(is_leaf=False, decomposition_dict={1: 1})
        if fun is not None:
            F = Function.list_of_functions[fun]
            F.add_psd_matrix(M)
            m = F.list_of_psd[-1]
        elif add:
            m = self.p.add_psd_matrix(M)
        else:
            m = PSDMatrix(M)
        hs = [[self.eh(m.matrix_of_expressions[i, j]) for j in range(size)] for i in range(size)]
        self.sync()
        r = self.reg(m, "L")
        self.emit("(MkLmi %s)" % coq_list([coq_list([coq_eh(e) for e in row]) for row in hs]), what="MkLmi #%d" % r)
        if fun is not None:
            self.emit("(FAddPsd %s %s)" % (coq_nat(fun), coq_nat(r)))
            self.edited = True
        elif add:
            self.emit("(AddPsd %s)" % coq_nat(r))
            self.edited = True
        return m

    def fadd_cons(self, fun, c):
        from PEPit import Function
        Function.list_of_functions[fun].add_constraint(c)
        self.emit("(FAddCons %s %s)" % (coq_nat(fun), coq_nat(self.refs[id(c)])))
        self.edited = True

    def make_composite(self):
        """a composite Function (sum / scaling / difference of declared ones): it only carries own items here"""
        from PEPit import Function
        fs = list(Function.list_of_functions)
        if not fs:
            return
        a = self.rng.choice(fs)
        r = self.rng.random()
        if r < 0.4 and len(fs) > 1:
            a + self.rng.choice(fs)
        elif r < 0.7:
            self.rng.choice([2, 0.5, 3]) * a
        else:
            a - self.rng.choice(fs)
        self.sync()
        self.edited = True

    def own_item(self, only_lmi=False):
        """Function.add_constraint / Function.add_psd_matrix on a random (leaf or composite) function"""
        from PEPit import Function
        n = len(Function.list_of_functions)
        if not n:
            return
        self.sync()
        fun = self.rng.randrange(n)
        if only_lmi or self.rng.random() < 0.5:
            self.mk_lmi(fun=fun)
        else:
            c = self.mk_cons(on_held=self.rng.random() < 0.2)
            if c is not None:
                self.fadd_cons(fun, c)

    # ---- model edits
    def add_cond(self, c, initial=False):
        if initial:
            self.p.set_initial_condition(c)
        else:
            self.p.add_constraint(c)
        self.emit("(AddCond %s)" % coq_nat(self.refs[id(c)]))
        self.edited = True

    def del_cond(self, c):
        self.p.list_of_constraints = [k for k in self.p.list_of_constraints if k is not c]
        self.emit("(DelCond %s)" % coq_nat(self.refs[id(c)]))
        self.edited = True

    def add_metric(self, x):
        self.p.set_performance_metric(x)
        e = self.eh(x)
        self.emit("(AddMetric %s)" % coq_eh(e))
        self.metrics.append(x)
        self.edited = True

    def declare_function(self):
        from PEPit.functions import SmoothStronglyConvexFunction, ConvexFunction, \
            SmoothStronglyConvexQuadraticFunction
        from PEPit.operators import SymmetricLinearOperator
        k = self.rng.choice(["ssc", "convex", "symlin", "quad"])
        if k == "ssc":
            f = self.p.declare_function(SmoothStronglyConvexFunction, mu=self.rng.choice([0, 0.25, 0.5]),
                                        L=self.rng.choice([1, 2, 4]))
        elif k == "convex":
            f = self.p.declare_function(ConvexFunction)
        elif k == "symlin":
            f = self.p.declare_function(SymmetricLinearOperator, mu=self.rng.choice([0, 0.5]), L=self.rng.choice([1, 2]))
        else:
            f = self.p.declare_function(SmoothStronglyConvexQuadraticFunction, mu=self.rng.choice([0.25, 0.5]),
                                        L=self.rng.choice([1, 2]))
            f.stationary_point()
        lp = self.leaf_points()
        if k in ("symlin", "quad") and lp:
            f.gradient(lp[0])                      # an operator that was never called generates a 0x0 LMI
        self.functions.append((k, f))
        self.sync()
        self.edited = True
        return f

    def oracle(self):
        if not self.functions:
            return
        k, f = self.rng.choice(self.functions)
        P = self.point_pool()
        if not P:
            return
        x = self.rng.choice(P)
        r = self.rng.random()
        if k == "symlin" or r < 0.5:
            f.gradient(x)
        elif r < 0.8:
            f.value(x)
        elif k != "quad":
            f.stationary_point()
        self.sync()
        self.edited = True

    def declare_partition(self):
        part = self.p.declare_block_partition(d=self.rng.choice([2, 2, 3]))
        self.partitions.append(part)
        self.edited = True
        return part

    def get_block(self):
        if not self.partitions:
            return
        part = self.rng.choice(self.partitions)
        P = self.point_pool()
        if not P or len(part.blocks_dict) >= 2:
            return
        x = self.rng.choice(P)
        o = part.get_block(x, self.rng.randrange(part.d))
        self.sync()
        if not o.get_is_leaf() and id(o) not in self.refs:
            r = self.reg(o, "P")
            self.emit("(MkPoint %s)" % coq_pdict(pdict_items(o.decomposition_dict)), what="MkPoint(block) #%d" % r)
        self.edited = True

    # ---- templates: what add_class_constraints / the partition loop nest generate right now
    def measure_templates(self):
        ft, pt = [], []
        for _, f in self.functions:
            saved = (f.list_of_class_constraints, f.list_of_class_psd)
            saved_tables = dict(f.tables_of_constraints)
            f.list_of_class_constraints, f.list_of_class_psd = [], []
            f.add_class_constraints()
            cons = [(edict_items(c.expression.decomposition_dict), 0 if c.equality_or_inequality == "inequality" else 1)
                    for c in f.list_of_class_constraints]
            lmis = []
            for m in f.list_of_class_psd:
                seen = set()
                for x in m.matrix_of_expressions.flat:
                    assert not x.get_is_leaf() and id(x) not in seen
                    seen.add(id(x))
                lmis.append([[edict_items(x.decomposition_dict) for x in row] for row in m.matrix_of_expressions])
            f.list_of_class_constraints, f.list_of_class_psd = saved
            f.tables_of_constraints = saved_tables
            ft.append((cons, lmis))
        for part in self.partitions:
            saved = part.list_of_constraints
            part.list_of_constraints = []
            part.add_partition_constraints()
            pt.append([edict_items(c.expression.decomposition_dict) for c in part.list_of_constraints])
            assert all(c.equality_or_inequality == "equality" for c in part.list_of_constraints)
            part.list_of_constraints = saved
        return ft, pt

    # ---- solve
    def solve(self, fail=False, option="primal", heuristic=None):
        from PEPit import Point, Expression
        self.sync()
        ft, pt = self.measure_templates()
        self.sync()
        self.emit(coq_templates(ft, pt), what="SetTemplates")
        solve_no = len(self.solves) + 1
        box = {}

        def plan(w):
            n, m = Point.counter, Expression.counter
            box.setdefault("all", [])
            ans, exact = make_answer(self.rng, n, m, solve_no, w._list_of_constraints_sent_to_solver, fail=fail,
                                     answer_no=len(box["all"]))
            if ans is not None:
                ans["value"] = ans["F"][self.p.objective.counter]
                box["all"].append(exact)
                # the certificate (duals) is the one of the FIRST answer (assign_dual_values runs before the
                # heuristic, pep.py 575), the primal instance is the one of the LAST answer
                box["exact"] = dict(exact, duals=box["all"][0]["duals"])
            else:
                box["exact"] = None
            box["answers"] = len(box["all"])
            return ans

        self.W.plan = plan
        crashed = None
        ne_before = Expression.counter
        psd_before = [id(m) for m in self.p.list_of_psd]
        try:
            with contextlib.redirect_stdout(io.StringIO()):     # the duality-gap warning is printed even with verbose=0
                ret = self.p.solve(wrapper=WRAPPER_NAME, verbose=0, return_primal_or_dual=option,
                                   dimension_reduction_heuristic=heuristic)
        except Exception as e:      # a solve must not raise
            ret, crashed = None, "%s: %s" % (type(e).__name__, str(e)[:200])
        w = self.W.last
        exact = box.get("exact")
        sent = list(w._list_of_constraints_sent_to_solver)
        # the objects created by the pipeline, in the order of Model/Resolve.prepare
        for _, f in self.functions:
            for c in f.list_of_class_constraints:
                self.reg(c.expression, "X")
                self.reg(c, "C")
            for m in f.list_of_class_psd:
                for x in m.matrix_of_expressions.flat:
                    self.reg(x, "X")
                self.reg(m, "L")
        for part in self.partitions:
            for c in part.list_of_constraints:
                self.reg(c.expression, "X")
                self.reg(c, "C")
        for c in sent[:len(self.p.list_of_performance_metrics)]:
            if type(c).__name__ == "Constraint":
                self.reg(c.expression, "X")
                self.reg(c, "C")
        self.ne += 1                 # the objective leaf, created inside the model's Solve
        items = []
        n_sc = n_lmi = nnz = 0
        for it in sent:
            if type(it).__name__ == "PSDMatrix":
                items.append([1, [[dump_edict_items(edict_items(x.decomposition_dict)) for x in row]
                                  for row in it.matrix_of_expressions]])
                n_lmi += 1
                nnz += sum(len(x.decomposition_dict) for x in it.matrix_of_expressions.flat)
            else:
                items.append([0, dump_edict_items(edict_items(it.expression.decomposition_dict)),
                              0 if it.equality_or_inequality == "inequality" else 1])
                n_sc += 1
                nnz += len(it.expression.decomposition_dict)
        out = [Point.counter, Expression.counter, [self.p.objective.counter], items]
        ok = (not fail) and crashed is None
        if ok:
            if len(box["all"]) > 1:
                self.emit("(SolveH %s %s)" % (coq_solution(box["all"][0]), coq_list([coq_solution(e) for e in box["all"][1:]])),
                          out, what="SolveH#%d ok heuristic=%s answers=%d" % (solve_no, heuristic, len(box["all"])))
            else:
                self.emit("(Solve (Some %s))" % coq_solution(exact), out, what="Solve#%d ok" % solve_no)
        else:
            self.emit("(Solve None)", out, what="Solve#%d failed" % solve_no)
        rec = dict(ok=ok, counts=(n_sc, n_lmi, nnz), edited=self.edited, n=Point.counter, m=Expression.counter,
                   returned=ret, crashed=crashed, new_leaf_exprs=Expression.counter - ne_before,
                   class_lmis=sum(len(l) for _, l in ft), class_cons=sum(len(c) for c, _ in ft),
                   partition_cons=sum(len(q) for q in pt), heuristic=heuristic, answers=box.get("answers", 0))
        # ---- direct checks on the implementation
        if crashed:
            self.problem("solve-raised", error=crashed)
        cs = [x.counter for x in Expression.list_of_leaf_expressions]
        if cs != list(range(Expression.counter)) or not any(x is self.p.objective for x in Expression.list_of_leaf_expressions):
            # every leaf expression owns one coordinate of F; the objective leaf of this solve is a new one
            self.problem("leaf-expression-registry-broken", counters=cs[-6:], class_counter=Expression.counter,
                         objective=self.p.objective.counter)
        ps = [x.counter for x in Point.list_of_leaf_points]
        if ps != list(range(Point.counter)):
            self.problem("leaf-point-registry-broken", counters=ps[-6:], class_counter=Point.counter)
        from PEPit import Function
        declared = list(self.p.list_of_constraints) + list(self.p.list_of_psd)
        for F in Function.list_of_functions:
            declared += list(F.list_of_constraints) + list(F.list_of_psd)
        sent_ids = [id(it) for it in sent]
        for it in declared:
            if sent_ids.count(id(it)) != declared_count(declared, it):
                self.problem("declared-item-not-sent-as-often-as-declared", item=type(it).__name__,
                             declared=declared_count(declared, it), sent=sent_ids.count(id(it)))
                break
        if [id(m) for m in self.p.list_of_psd] != psd_before:
            self.problem("solve-edited-the-declared-model", what="list_of_psd", before=len(psd_before),
                         after=len(self.p.list_of_psd))
        if ok_so_far(crashed, fail) and w.answer is not None and not np.array_equal(np.asarray(self.p.G_value), w.answer["G"]):
            self.problem("G_value-is-not-the-solver-matrix", heuristic=heuristic)
        if ok:
            self.epoch += 1
            self.latest = exact
            self.last_failed = False
            self.points_after = 0
            self.sent_pos = {id(it): k for k, it in enumerate(sent)}
            if option == "primal" and ret != float(exact["F"][self.p.objective.counter]):
                self.problem("returned-value-differs", returned=ret)
            self.check_gram()
            for _, f in self.functions:
                bad = class_table_problem(f)
                if bad:
                    self.problem("class-dual-table-is-not-of-the-latest-solve", **bad)
                    break
        else:
            self.last_failed = True
            self.sent_failed = set(id(it) for it in sent)
            if ret is not None and not crashed:
                self.problem("failed-solve-returned-a-number", returned=ret)
        if self.solves and not self.edited and self.solves[-1]["counts"] != rec["counts"]:
            self.problem("growth", previous=self.solves[-1]["counts"], now=rec["counts"])
        self.solves.append(rec)
        self.edited = False
        self.restamp()
        self.sync()
        return ret

    def check_gram(self):
        """inner products of the evaluated leaf points reproduce the PSD projection P0^T P0"""
        ex = self.latest
        lp = self.leaf_points()
        P0 = ex["P0"]
        worst = 0.0
        for i, a in enumerate(lp):
            for j, b in enumerate(lp):
                if a._value is None or b._value is None:
                    self.problem("leaf-unassigned-after-solve", leaf=i)
                    return
                want = float(sum(P0[k][i] * P0[k][j] for k in range(ex["rank"])))
                got = float(np.dot(a._value, b._value))
                if not abs(got - want) <= TOL * (1 + abs(want)):
                    self.problem("gram-mismatch", i=i, j=j, want=want, got=got)
                    return
        for k, x in enumerate(self.leaf_exprs()):
            if x._value is None or Fraction(float(x._value)) != ex["F"][k]:
                self.problem("leaf-expression-value-differs", leaf=k)
                return

    # ---- independent recomputation under the latest solution
    def want_point(self, items):
        ex = self.latest
        if ex is None or self.last_failed:           # no solution: only leaf-free objects have a value
            return "unsolved" if items else []
        if any(k >= ex["n"] for k, _ in items):
            return "unsolved"
        return [sum(w * ex["P0"][r][k] for k, w in items) for r in range(ex["rank"])]

    def want_expr(self, items):
        ex = self.latest
        if ex is None or self.last_failed:
            ex = dict(n=0, m=0, F=[], P0=[], rank=0)
        acc = Fraction(0)
        for k, w in items:
            if k[0] == 0:
                if k[1] >= ex["m"]:
                    return "unsolved"
                acc += w * ex["F"][k[1]]
            elif k[0] == 1:
                if k[1] >= ex["n"] or k[2] >= ex["n"]:
                    return "unsolved"
                acc += w * sum(ex["P0"][r][k[1]] * ex["P0"][r][k[2]] for r in range(ex["rank"]))
            else:
                acc += w
        return acc

    def problem(self, kind, **kw):
        self.problems.append(dict(kind=kind, op_index=len(self.ops), **kw))

    def judge(self, o, kind, got_kind, got, ref=None):
        """compare what the implementation returned with the value under the LATEST solution"""
        if kind == "P":
            want = self.want_point(pdict_items(o.decomposition_dict))
            gotv = None if got_kind != "ok" else float(np.dot(got, got))
            wantv = want if want == "unsolved" else float(sum(x * x for x in want))
        elif kind == "X":
            want = self.want_expr(edict_items(o.decomposition_dict))
            gotv, wantv = (float(got) if got_kind == "ok" else None), (want if want == "unsolved" else float(want))
        elif kind == "C":
            want = self.want_expr(edict_items(o.expression.decomposition_dict))
            gotv, wantv = (float(got) if got_kind == "ok" else None), (want if want == "unsolved" else float(want))
        else:
            ws = [[self.want_expr(edict_items(x.decomposition_dict)) for x in row] for row in o.matrix_of_expressions]
            if any(w == "unsolved" for row in ws for w in row):
                wantv = "unsolved"
            else:
                wantv = [[float(w) for w in row] for row in ws]
            gotv = None if got_kind != "ok" else [[float(x) for x in row] for row in got]
        info = dict(ref=ref, object_kind=kind, cache_epoch=self.stamp.get(id(o)), epoch=self.epoch,
                    latest_solve_failed=self.last_failed, leaf_points_created_since_solve=self.points_after)
        if got_kind == "shape":
            # F-C02a (np.zeros(Point.counter) accumulator) was repaired by e997f00: any shape error is a violation
            self.problem("shape-error-on-eval", regression_of="F-C02a (fixed e997f00)" if kind == "P" and
                         self.points_after > 0 else None, **info)
            return
        if got_kind not in ("ok", "unsolved"):
            self.problem("eval-raised", error=got_kind, **info)
            return
        if wantv == "unsolved":
            if got_kind == "ok":
                if self.last_failed and self.epoch > 0:
                    self.problem("values-survive-failed-solve", got=gotv, **info)
                elif info["cache_epoch"] is not None and info["cache_epoch"] < self.epoch:
                    self.problem("stale-cache-after-resolve", got=gotv, want="unsolved", **info)
                else:
                    self.problem("value-without-solution", got=gotv, **info)
            return
        if got_kind == "unsolved":
            self.problem("unsolved-but-solution-exists", want=wantv, **info)
            return
        if kind == "P" and self.latest is not None and not self.last_failed and len(got) != self.latest["n"]:
            # every point of the instance lives in R^n, n = number of leaf points at the latest finite solve
            if info["cache_epoch"] is not None and info["cache_epoch"] < self.epoch:
                self.problem("stale-cache-after-resolve", got_dimension=len(got), want_dimension=self.latest["n"], **info)
            elif len(o.decomposition_dict) == 0 and self.points_after > 0:
                self.problem("empty-combination-dimension", got_dimension=len(got), want_dimension=self.latest["n"], **info)
            else:
                self.problem("dimension-differs", got_dimension=len(got), want_dimension=self.latest["n"], **info)
            return
        flat = lambda v: [x for row in v for x in row] if isinstance(v, list) else [v]
        g, w = flat(gotv), flat(wantv)
        if len(g) != len(w) or any(not abs(a - b) <= TOL * (1 + abs(b)) for a, b in zip(g, w)):
            if info["cache_epoch"] is not None and info["cache_epoch"] < self.epoch:
                self.problem("stale-cache-after-resolve", got=gotv, want=wantv, **info)
            else:
                self.problem("value-differs", got=gotv, want=wantv, **info)

    # ---- evaluation ops
    def eval(self, r):
        o, kind = self.objs[r], self.kinds[r]
        hit = o._value is not None
        self.nevals += 1
        try:
            v = o.eval()
            gk = "ok"
        except Exception as e:
            v, gk = None, err_kind(e)
        try:
            if gk != "ok":
                out = gk
            elif kind == "P":
                if not (isinstance(v, np.ndarray) and v.ndim == 1):
                    raise TypeError("not a vector")
                out = [int(hit), self.vec_dump(v, cross=not hit)]
            elif kind == "L":
                out = [int(hit), ["~", [[num(x) for x in row] for row in v]]]
            else:
                out = [int(hit), ["~", num(float(v))]]
        except Exception:             # eval() returned something that is not a value of the documented type
            gk = "bad-value:%s" % type(v).__name__
            out = gk
        self.emit("(Eval %s)" % coq_nat(r), out, what="Eval #%d %s" % (r, kind))
        self.restamp()
        self.judge(o, kind, gk, v, ref=r)
        if gk == "ok" and hit is False and kind == "P":
            self.judge_cross(o, v)

    def vec_dump(self, v, cross):
        v = np.asarray(v)
        cr = ["~"]
        if cross:
            for lf in self.leaf_points():
                if lf._value is not None and len(lf._value) == len(v):
                    cr.append(num(np.dot(v, lf._value)))
                else:
                    cr.append([])
        return [len(v), ["~", num(np.dot(v, v))], cr]

    def judge_cross(self, o, v):
        want = self.want_point(pdict_items(o.decomposition_dict))
        if want == "unsolved" or self.latest is None or self.last_failed:
            return
        ex = self.latest
        for i, lf in enumerate(self.leaf_points()):
            if i < ex["n"] and lf._value is not None and len(lf._value) == len(v):
                w = float(sum(want[r] * ex["P0"][r][i] for r in range(ex["rank"])))
                g = float(np.dot(v, lf._value))
                if not abs(g - w) <= TOL * (1 + abs(w)):
                    self.problem("direction-differs", leaf=i, got=g, want=w)
                    return

    def eval_leaf_point(self, i):
        lf = self.leaf_points()[i]
        self.nevals += 1
        try:
            v = lf.eval()
            out = self.vec_dump(v, cross=True)
            gk = "ok"
        except Exception as e:
            gk = err_kind(e)
            out = gk
        self.emit("(EvalLeafP %s)" % coq_nat(i), out)
        ex = self.latest
        if gk == "ok":
            if ex is None or i >= ex["n"]:
                self.problem("value-without-solution", leaf_point=i)
            elif self.last_failed:
                self.problem("values-survive-failed-solve", leaf_point=i, latest_solve_failed=True)
            else:
                for j, other in enumerate(self.leaf_points()):
                    if j < ex["n"] and other._value is not None:
                        want = float(sum(ex["P0"][r][i] * ex["P0"][r][j] for r in range(ex["rank"])))
                        got = float(np.dot(v, other._value)) if len(other._value) == len(v) else float("nan")
                        if not abs(got - want) <= TOL * (1 + abs(want)):
                            self.problem("leaf-gram-differs", leaf_point=i, other=j, got=got, want=want)
                            break
        elif gk == "unsolved":
            if ex is not None and i < ex["n"] and not self.last_failed:
                self.problem("unsolved-but-solution-exists", leaf_point=i)
        else:
            self.problem("eval-raised", leaf_point=i, error=gk)

    def eval_leaf_expr(self, i):
        x = self.leaf_exprs()[i]
        self.nevals += 1
        try:
            v = x.eval()
            out = ["~", num(v)]
            gk = "ok"
        except Exception as e:
            gk = err_kind(e)
            out = gk
        self.emit("(EvalLeafE %s)" % coq_nat(i), out)
        ex = self.latest
        if gk == "ok":
            if ex is None or i >= ex["m"]:
                self.problem("value-without-solution", leaf_expr=i)
            elif self.last_failed:
                self.problem("values-survive-failed-solve", leaf_expr=i, latest_solve_failed=True)
            elif Fraction(float(v)) != ex["F"][i]:
                self.problem("value-differs", leaf_expr=i, got=float(v), want=float(ex["F"][i]))
        elif gk == "unsolved":
            if ex is not None and i < ex["m"] and not self.last_failed:
                self.problem("unsolved-but-solution-exists", leaf_expr=i)
        else:
            self.problem("eval-raised", leaf_expr=i, error=gk)

    def eval_dual(self, r):
        o, kind = self.objs[r], self.kinds[r]
        self.nevals += 1
        try:
            v = o.eval_dual()
            gk = "ok"
            out = [[Q(Fraction(float(x))) for x in row] for row in v] if kind == "L" else Q(Fraction(float(v)))
        except Exception as e:
            v, gk = None, err_kind(e)
            out = gk
        self.emit("(EvalDual %s)" % coq_nat(r), out)
        # certificate of the latest solve: the item sent at position k carries the dual injected at position k
        if self.last_failed:
            if gk == "ok" and id(o) in self.sent_failed:
                self.problem("values-survive-failed-solve", dual_of=r, latest_solve_failed=True)
        elif self.latest is not None and id(o) in self.sent_pos:
            want = self.latest["duals"][self.sent_pos[id(o)]]
            got = None if gk != "ok" else (np.asarray(v).tolist() if kind == "L" else float(v))
            if got != want:
                self.problem("dual-differs", dual_of=r, got=got, want=want)

    # ---- the case for the model
    def case(self):
        prog = coq_list(self.ops)
        from .common import coq_D
        return ("(%s,\n %s)" % (prog, coq_D(self.outs)), [])


# ------------------------------------------------------------------------------------------ program generators
def build_model(w, rng, rich):
    """declarations before the first solve"""
    for _ in range(rng.randint(2, 4)):
        w.new_point()
    for _ in range(rng.randint(1, 2)):
        w.new_expr()
    if rich and rng.random() < 0.6:
        for _ in range(rng.randint(1, 2)):
            w.declare_function()
        for _ in range(rng.randint(1, 4)):
            w.oracle()
    if rich and rng.random() < 0.3:
        w.declare_partition()
        for _ in range(rng.randint(1, 2)):
            w.get_block()
    for _ in range(rng.randint(1, 3)):
        w.mk_point()
    for _ in range(rng.randint(1, 3)):
        w.mk_expr()
    conds = []
    for _ in range(rng.randint(1, 3)):
        c = w.mk_cons(on_held=rng.random() < 0.25)
        if c is not None:
            w.add_cond(c, initial=rng.random() < 0.5)
            conds.append(c)
    if rng.random() < 0.4:
        w.mk_lmi(add=True)
    if w.functions and rng.random() < 0.6:
        # own constraints / LMIs of leaf and composite functions; often a function with ONLY an own LMI
        if rng.random() < 0.6:
            w.make_composite()
        for _ in range(rng.randint(1, 2)):
            w.own_item(only_lmi=rng.random() < 0.5)
    for _ in range(rng.randint(1, 2)):
        X = w.expr_pool()
        x = w.mk_expr() if rng.random() < 0.6 or not X else rng.choice(X)
        if x is not None:
            w.add_metric(x)
    if not w.metrics:
        w.add_metric(w.leaf_exprs()[0])
    return conds


def random_evals(w, rng, k):
    from PEPit import Point, Expression
    for _ in range(k):
        r = rng.random()
        if r < 0.55 and w.objs:
            w.eval(rng.randrange(len(w.objs)))
        elif r < 0.7 and Point.counter:
            w.eval_leaf_point(rng.randrange(Point.counter))
        elif r < 0.8 and Expression.counter:
            w.eval_leaf_expr(rng.randrange(Expression.counter))
        else:
            cl = [i for i, k_ in enumerate(w.kinds) if k_ in "CL"]
            if cl:
                w.eval_dual(rng.choice(cl))


def new_objects(w, rng, k):
    for _ in range(k):
        r = rng.random()
        if r < 0.35:
            w.mk_point()
        elif r < 0.7:
            w.mk_expr()
        elif r < 0.85:
            w.mk_cons(on_held=rng.random() < 0.3)
        else:
            w.mk_lmi(add=False)


def gen_c02(case_seed):
    """one finite solve; evaluations of objects created before and after it; sometimes a new leaf point after it"""
    rng = random.Random(case_seed)
    w = World(rng)
    build_model(w, rng, rich=rng.random() < 0.5)
    if rng.random() < 0.3:
        random_evals(w, rng, 2)                 # before any solve: everything raises "must be solved"
    w.solve(option=rng.choice(["primal", "primal", "dual"]), heuristic=rng.choice([None, None, None, "trace", "logdet2"]))
    random_evals(w, rng, rng.randint(3, 6))
    new_objects(w, rng, rng.randint(1, 4))
    random_evals(w, rng, rng.randint(2, 5))
    if rng.random() < 0.3:
        if rng.random() < 0.5:
            w.new_point()
        else:
            w.new_expr()
        new_objects(w, rng, rng.randint(1, 3))
        random_evals(w, rng, rng.randint(3, 6))
        for r_, k in enumerate(w.kinds):        # every derived point not evaluated so far
            if k == "P" and w.objs[r_]._value is None and rng.random() < 0.5:
                w.eval(r_)
    return w


def edit(w, rng, conds):
    if w.functions and rng.random() < 0.15:
        if rng.random() < 0.3:
            w.make_composite()
        w.own_item(only_lmi=rng.random() < 0.5)
        return
    r = rng.random()
    if r < 0.3 and conds:                        # replace the initial condition
        old = conds.pop(rng.randrange(len(conds)))
        w.del_cond(old)
        c = w.mk_cons()
        if c is not None:
            w.add_cond(c, initial=True)
            conds.append(c)
    elif r < 0.45:
        x = w.mk_expr()
        if x is not None:
            w.add_metric(x)
    elif r < 0.6:
        w.mk_lmi(add=True)
    elif r < 0.75:
        c = w.mk_cons(on_held=rng.random() < 0.3)
        if c is not None:
            w.add_cond(c)
            conds.append(c)
    elif r < 0.82:
        w.oracle()
    elif r < 0.88:
        w.new_point()
    elif r < 0.96:
        # a new leaf expression (a new function value, a slack of an LMI, ...) used by a new metric or constraint
        w.new_expr()
        x = w.leaf_exprs()[-1]
        if rng.random() < 0.5:
            w.add_metric(x)
        else:
            c = w.mk_cons(on_held=False)
            if c is not None:
                w.add_cond(c)
                conds.append(c)
    else:
        w.get_block()


def gen_c13(case_seed):
    """2-4 solves interleaved with edits, evaluations of held objects, one solve may fail"""
    rng = random.Random(case_seed)
    w = World(rng)
    conds = build_model(w, rng, rich=rng.random() < 0.7)
    nsolves = rng.randint(2, 4)
    fail_at = rng.randrange(nsolves) if rng.random() < 0.35 else None
    for k in range(nsolves):
        if k > 0 and rng.random() < 0.65:
            for _ in range(rng.randint(1, 2)):
                edit(w, rng, conds)
        w.solve(fail=(k == fail_at), option=rng.choice(["primal", "primal", "dual"]),
                heuristic=rng.choice([None, None, None, None, "trace", "logdet1"]))
        random_evals(w, rng, rng.randint(2, 5))
        if rng.random() < 0.5:
            new_objects(w, rng, rng.randint(1, 2))
            random_evals(w, rng, rng.randint(1, 3))
    return w


def gen_c02_regression(case_seed):
    """the trigger of the repaired F-C02a, deterministic: solve; Point(); evaluate derived points that were not
    evaluated before (two- and three-term combinations, one built before and one after the new leaf point);
    plus the empty combination (F-C02b)"""
    rng = random.Random(990000 + case_seed)
    w = World(rng)
    for _ in range(2 + case_seed % 3):
        w.new_point()
    w.new_expr()
    lp = w.leaf_points()
    d1 = lp[0] - lp[1]
    r1 = w.reg(d1, "P")
    w.emit("(MkPoint %s)" % coq_pdict(pdict_items(d1.decomposition_dict)), what="MkPoint #%d" % r1)
    z = lp[0] - lp[0]
    rz = w.reg(z, "P")
    w.emit("(MkPoint %s)" % coq_pdict(pdict_items(z.decomposition_dict)), what="MkPoint(empty) #%d" % rz)
    w.add_metric(w.leaf_exprs()[0])
    w.solve()
    w.new_point()
    d2 = 2 * lp[1] - lp[0] / 2 + lp[-1]
    r2 = w.reg(d2, "P")
    w.emit("(MkPoint %s)" % coq_pdict(pdict_items(d2.decomposition_dict)), what="MkPoint #%d" % r2)
    w.eval(r1)
    w.eval(r2)
    w.eval(rz)
    w.eval(r1)
    for i in range(len(lp)):
        w.eval_leaf_point(i)
    return w


GENERATORS = {"c02": gen_c02, "c13": gen_c13, "c02reg": gen_c02_regression}

KNOWN_KINDS = {"stale-cache-after-resolve": "F-C13a", "values-survive-failed-solve": "F-C13d",
               "empty-combination-dimension": "F-C02b"}


def run_stream(name, gen, seeds, own_kinds):
    """drive the implementation, then the model (one coqc run over all cases); returns the stream dict.
    own_kinds: the known-finding kinds that belong to the property of the calling check (the other known kinds
    are the other property's business and are not reported here)."""
    cases, worlds = [], []
    problems, hist, distinct = [], {}, set()
    nev = 0
    for cs in seeds:
        try:
            w = GENERATORS[gen](cs)
        except Exception as e:       # the driver of the implementation itself broke: report, keep the stream
            import traceback
            problems.append(dict(generator=gen, case_seed=cs, kind="program-raised",
                                 error=traceback.format_exc()[-600:]))
            continue
        worlds.append((cs, w))
        cases.append(w.case())
        nev += w.nevals
        for pr in w.problems:
            if pr["kind"] in KNOWN_KINDS and pr["kind"] not in own_kinds:
                continue
            problems.append(dict(generator=gen, case_seed=cs, **pr))
        for t in w.trace:
            h = t.split(" ")[0].strip("(")
            hist[h] = hist.get(h, 0) + 1
        if any(s["ok"] for s in w.solves) and w.nevals >= 3:
            distinct.add(hash(tuple(w.ops)))
    bad = run_cases(name.replace("-", "_"), IMPORTS, RUN, cases, shard=25, input_type=INPUT_TYPE)
    mism = []
    for i in bad[:3]:
        cs, w = worlds[i]
        mism.append(dict(kind="model-differs", generator=gen, case_seed=cs, trace=w.trace[:60],
                         implementation=str(w.outs)[:1500],
                         model=model_output(IMPORTS, "fun c => DL (outputs (fst c))", cases[i][0])[:3000]))
    # unknown problems first, then one representative per known kind
    unknown = [p for p in problems if p["kind"] not in KNOWN_KINDS]
    reps = {}
    for p in problems:
        if p["kind"] in KNOWN_KINDS:
            reps.setdefault(p["kind"], p)
    counts = {}
    for p in problems:
        counts[p["kind"]] = counts.get(p["kind"], 0) + 1
    nsolves = sum(len(w.solves) for _, w in worlds)
    return dict(name=name, evaluations=len(cases), distinct_nontrivial=len(distinct),
                rule="seeded op programs on the real PEPit with injected solver answers; one evaluation = one whole "
                     "program whose every output (sent data of each solve, every eval / eval_dual result, cache flags, "
                     "exception kinds) is compared with Model/Resolve.run; non-trivial = at least one finite solve and "
                     "at least 3 eval ops; distinct by op list",
                n_mismatch=len(bad), mismatches=mism, problems=unknown[:5] + list(reps.values()),
                n_problems=len(unknown), problem_kinds=counts,
                samples=[dict(case_seed=cs, trace=w.trace[:40], outputs=str(w.outs)[:600]) for cs, w in worlds[:2]],
                distribution=dict(ops=hist, solves=nsolves, eval_ops=nev,
                                  ops_per_program=round(sum(len(w.ops) for _, w in worlds) / max(1, len(worlds)), 1),
                                  failed_solves=sum(1 for _, w in worlds for s in w.solves if not s["ok"]),
                                  solves_with_class_lmis=sum(1 for _, w in worlds for s in w.solves if s["class_lmis"]),
                                  solves_with_partition_constraints=sum(1 for _, w in worlds for s in w.solves
                                                                        if s["partition_cons"]),
                                  max_sent_items=max([sum(s["counts"][:2]) for _, w in worlds for s in w.solves] or [0]),
                                  leaf_points_at_solve=sorted(set(s["n"] for _, w in worlds for s in w.solves)),
                                  behaviour_F_grows_by_this_many_leaves_per_solve=sorted(
                                      set(s["new_leaf_exprs"] for _, w in worlds for s in w.solves))))


def direct_search(gen, seeds):
    """failing-input search on the implementation alone: first problem that is not a listed finding"""
    for cs in seeds:
        try:
            w = GENERATORS[gen](cs)
        except Exception as e:
            return dict(generator=gen, case_seed=cs, kind="program-raised", error="%s: %s" % (type(e).__name__, str(e)[:200]))
        for pr in w.problems:
            if pr["kind"] not in KNOWN_KINDS:
                return dict(generator=gen, case_seed=cs, trace=w.trace[:80], **pr)
    return None


def replay_case(payload):
    """True iff the stored case still fails (same problem kind on the implementation, or model mismatch)"""
    gen, cs = payload["generator"], payload["case_seed"]
    try:
        w = GENERATORS[gen](cs)
    except Exception:
        return True
    kind = payload.get("kind")
    if kind and kind != "model-differs":
        return any(p["kind"] == kind for p in w.problems)
    bad = run_cases("replay", IMPORTS, RUN, [w.case()], input_type=INPUT_TYPE)
    return bool(bad) or any(p["kind"] not in KNOWN_KINDS for p in w.problems)


# ------------------------------------------------------------------------------------------ real SCS solves
SCS_OPTS = dict(eps_abs=1e-9, eps_rel=1e-9, max_iters=200000)


def _quiet_solve(p, **kw):
    kw = dict(SCS_OPTS, **kw)
    with contextlib.redirect_stdout(io.StringIO()):
        return p.solve(verbose=0, **kw)


def real_model(idx, radius=1.0, extra=False):
    """small, well-conditioned PEPs (gradient-type methods); idx selects the variant.
    extra=True: the same model extended by one more iteration and one more metric (see extend_model)"""
    from PEPit import PEP
    from PEPit.functions import SmoothStronglyConvexFunction, ConvexFunction, SmoothStronglyConvexQuadraticFunction
    from PEPit.operators import SymmetricLinearOperator
    rng = random.Random(7700 + idx)
    p = PEP()
    kind = ["gd", "gd2", "symlin", "quad", "partition", "lmi"][idx % 6]
    L = rng.choice([1.0, 2.0])
    mu = rng.choice([0.1, 0.25])
    gamma = rng.choice([0.5, 1.0, 1.5]) / L
    n = rng.randint(1, 3)
    info = dict(kind=kind, L=L, mu=mu, gamma=gamma, n=n, radius=radius)
    fs = None
    if kind in ("gd", "gd2", "lmi", "partition"):
        f = p.declare_function(SmoothStronglyConvexFunction, mu=mu, L=L)
        xs = f.stationary_point()
        fs = f(xs)
        x0 = p.set_initial_point()
        x = x0
        for _ in range(n):
            x = x - gamma * f.gradient(x)
        cond = (x0 - xs) ** 2 <= radius
        p.set_initial_condition(cond)
        p.set_performance_metric((x - xs) ** 2)
        if kind == "gd2":
            p.set_performance_metric(2 * (f(x) - fs) / L + (x - xs) ** 2 / 2)
            a, b = x0 - xs, x - xs
            f.add_psd_matrix([[a ** 2, a * b], [a * b, b ** 2]])      # the function has ONLY an own LMI
            (f + f).add_constraint(a * b <= 12)                       # a composite function with an own constraint (same in every variant of the model)
        if kind == "lmi":
            a, b = x0 - xs, x - xs
            if idx % 12 < 6:
                p.add_psd_matrix([[a ** 2, a * b], [a * b, b ** 2]])
            else:
                # not symmetric as written: a free leaf expression below the diagonal (it does not enter the
                # objective, so its entry multipliers vanish and the certificate is unaffected)
                from PEPit import Expression
                p.add_psd_matrix([[a ** 2, a * b], [Expression(), b ** 2]])
        if kind == "partition":
            part = p.declare_block_partition(d=2)
            part.get_block(x0, 0)
            part.get_block(f.gradient(x0), 1)
    elif kind == "symlin":
        f = p.declare_function(SymmetricLinearOperator, mu=mu, L=L)
        x0 = p.set_initial_point()
        xs = None
        x = x0
        gamma = 0.5 / L
        for _ in range(n):
            x = x - gamma * f.gradient(x)
        cond = x0 ** 2 <= radius
        p.set_initial_condition(cond)
        p.set_performance_metric(x ** 2)
    else:
        f = p.declare_function(SmoothStronglyConvexQuadraticFunction, mu=mu, L=L)
        xs = f.stationary_point()
        x0 = p.set_initial_point()
        x = x0
        for _ in range(n):
            x = x - gamma * f.gradient(x)
        cond = (x0 - xs) ** 2 <= radius
        p.set_initial_condition(cond)
        p.set_performance_metric((x - xs) ** 2)
    h = dict(x0=x0, xs=xs, x=x, cond=cond, info=info, f=f, fs=fs, gamma=gamma)
    if extra:
        extend_model(p, h)
    return p, h


def extend_model(p, h):
    """the 'add a metric' edit of C13: one more iteration (new gradient and function-value leaves) and its metric"""
    f, x, xs, fs = h["f"], h["x"], h["xs"], h["fs"]
    g, fx = f.oracle(x)
    x2 = x - h["gamma"] * g
    if fs is not None:
        p.set_performance_metric(fx - fs + (x2 - xs) ** 2 / 4)
    else:
        base = x2 if xs is None else x2 - xs
        p.set_performance_metric(base ** 2 + (x * g) / 8)
    h["x_extra"] = x2


def real_badscale(idx):
    """subgradient method on a convex M-Lipschitz function in a badly scaled but legitimate regime (M = 0.02 or 0.03:
    |g|^2 ~ M^2 is far below one thousandth of |x0 - xs|^2 = 1), solved WITH a dimension-reduction heuristic"""
    from math import sqrt
    from PEPit import PEP
    from PEPit.functions import ConvexLipschitzFunction
    M = [0.02, 0.03][idx % 2]
    n = 2 + (idx // 2) % 2
    gamma = 1 / (M * sqrt(n + 1))
    p = PEP()
    f = p.declare_function(ConvexLipschitzFunction, M=M)
    xs = f.stationary_point()
    fs = f(xs)
    x0 = p.set_initial_point()
    cond = (x0 - xs) ** 2 <= 1
    p.set_initial_condition(cond)
    x = x0
    gx, fx = f.oracle(x)
    for _ in range(n):
        p.set_performance_metric(fx - fs)
        x = x - gamma * gx
        gx, fx = f.oracle(x)
    p.set_performance_metric(fx - fs)
    h = dict(x0=x0, xs=xs, x=x, cond=cond, f=f, fs=fs, gamma=gamma,
             info=dict(kind="badscale", M=M, n=n, heuristic=["trace", "logdet1"][(idx // 4) % 2]),
             solve_kw=dict(dimension_reduction_heuristic=["trace", "logdet1"][(idx // 4) % 2]), scale=M / sqrt(n + 1))
    return p, h


def recompute_expr(d):
    """value of a decomposition dict from the CURRENT leaf values (numpy, independent of Expression.eval)"""
    acc = 0.0
    for k, v in d.items():
        if isinstance(k, tuple):
            acc += v * float(np.dot(k[0]._value, k[1]._value))
        elif type(k).__name__ == "Expression":
            acc += v * float(k._value)
        else:
            acc += v
    return acc


def sent_counts(p):
    cs = p._list_of_constraints_sent_to_wrapper
    ls = p._list_of_psd_sent_to_wrapper
    nnz = sum(len(c.expression.decomposition_dict) for c in cs) + \
        sum(len(x.decomposition_dict) for m in ls for x in m.matrix_of_expressions.flat)
    return (len(cs), len(ls), nnz)


def check_instance(p, h, idx, problems, stats):
    """C02 on a real solve: Gram reproduction, constraints at the instance, objective = min metric,
    primal <= dual + tol, derived objects = combination of their operands (also for objects built now)"""
    from PEPit import Point
    from PEPit import Function
    heur = bool(h.get("solve_kw"))
    dual = _quiet_solve(p, return_primal_or_dual="dual", **h.get("solve_kw", {}))
    if dual is None:
        problems.append(dict(kind="real-solve-returned-none", model=idx))
        return
    declared = list(p.list_of_constraints) + list(p.list_of_psd)
    for F_ in Function.list_of_functions:
        declared += list(F_.list_of_constraints) + list(F_.list_of_psd)
    sent_ids = [id(it) for it in p.wrapper._list_of_constraints_sent_to_solver]
    for it in declared:
        if sent_ids.count(id(it)) != declared_count(declared, it):
            problems.append(dict(kind="declared-item-not-sent-as-often-as-declared", model=idx, item=type(it).__name__,
                                 declared=declared_count(declared, it), sent=sent_ids.count(id(it))))
            break
    G = np.asarray(p.G_value)
    ev, evec = np.linalg.eigh((G + G.T) / 2)
    Gp = (evec * np.maximum(ev, 0)) @ evec.T
    primal = float(p.objective.eval())
    scale = max(1.0, abs(primal), float(np.max(np.abs(G))))
    if heur:
        scale = h["scale"] * 10        # badly scaled model: everything is measured against the size of its function values
    lp = list(Point.list_of_leaf_points)
    P = np.array([q.eval() for q in lp]).T
    gram_err = float(np.max(np.abs(P.T @ P - Gp)))
    stats["gram_err"] = max(stats.get("gram_err", 0), gram_err / scale)
    if gram_err > 1e-6 * scale:
        problems.append(dict(kind="gram-mismatch", model=idx, error=gram_err))
    worst = 0.0
    for c in p._list_of_constraints_sent_to_wrapper:
        v = float(c.eval())
        r = recompute_expr(c.expression.decomposition_dict)
        if abs(v - r) > 1e-8 * scale:
            problems.append(dict(kind="value-differs", model=idx, got=v, want=r, what="sent constraint"))
        viol = v if c.equality_or_inequality == "inequality" else abs(v)
        worst = max(worst, viol)
    for m in p._list_of_psd_sent_to_wrapper:
        M = np.array(m.eval(), dtype=float)
        worst = max(worst, -float(np.min(np.linalg.eigvalsh((M + M.T) / 2))))
        # a matrix constrained to be PSD is symmetric at the instance, also when its entries are not symmetric as
        # written (the solver's matrix variable is symmetric and every entry is tied to it)
        worst = max(worst, float(np.max(np.abs(M - M.T))))
        for i in range(M.shape[0]):
            for j in range(M.shape[1]):
                r = recompute_expr(m[i, j].decomposition_dict)
                if abs(M[i, j] - r) > 1e-8 * scale:
                    problems.append(dict(kind="value-differs", model=idx, what="LMI entry"))
    stats["violation"] = max(stats.get("violation", 0), worst / scale)
    if worst > 1e-4 * scale:
        problems.append(dict(kind="constraint-violated-at-instance", model=idx, violation=worst, scale=scale))
    mets = [float(m.eval()) for m in p.list_of_performance_metrics]
    stats["obj_gap"] = max(stats.get("obj_gap", 0), abs(primal - min(mets)) / scale)
    # (with a heuristic the objective is only constrained to [wc - tol_dimension_reduction, min metric]: not compared)
    if not heur and abs(primal - min(mets)) > 1e-5 * scale:
        problems.append(dict(kind="objective-is-not-min-metric", model=idx, objective=primal, metrics=mets))
    stats["pd_gap"] = max(stats.get("pd_gap", -1), (primal - dual) / scale)
    if primal > dual + 1e-3 * scale:
        problems.append(dict(kind="primal-exceeds-dual", model=idx, primal=primal, dual=dual))
    # objects built after the solve: same combination of the values of the operands, in coordinates
    x0, x = h["x0"], h["x"]
    dnew = x - 2 * x0
    want = x.eval() - 2 * x0.eval()
    if np.max(np.abs(dnew.eval() - want)) > 1e-10 * scale:
        problems.append(dict(kind="value-differs", model=idx, what="derived point built after the solve"))
    e = dnew ** 2 + 3 * (x * x0) - 1
    want = float(np.dot(dnew.eval(), dnew.eval()) + 3 * np.dot(x.eval(), x0.eval()) - 1)
    if abs(float(e.eval()) - want) > 1e-9 * scale * scale:
        problems.append(dict(kind="value-differs", model=idx, what="expression built after the solve"))
    # regression of F-C02a (fixed e997f00): a new leaf point, then a derived point that was never evaluated
    Point()
    late = x0 - 3 * x
    try:
        v = late.eval()
        if v.shape != x0.eval().shape or np.max(np.abs(v - (x0.eval() - 3 * x.eval()))) > 1e-10 * scale:
            problems.append(dict(kind="value-differs", model=idx, what="derived point evaluated after a new leaf point"))
    except ValueError as ex:
        problems.append(dict(kind="shape-error-on-eval", model=idx, regression_of="F-C02a (fixed e997f00)", error=str(ex)[:120]))
    # G_value is the matrix the solver returned at its last call
    Gs = getattr(p.wrapper, "optimal_G", None)
    if Gs is not None and not np.array_equal(np.asarray(p.G_value), np.asarray(Gs)):
        problems.append(dict(kind="G_value-is-not-the-solver-matrix", model=idx))


def _tables_ok(p, idx, problems, when):
    from PEPit import Function
    for f in Function.list_of_functions:
        if f.get_is_leaf():
            bad = class_table_problem(f)
            if bad:
                problems.append(dict(kind="class-dual-table-is-not-of-the-latest-solve", model=idx, when=when, **bad))
                return


def check_resolve_linop(problems, stats):
    """a LinearOperator re-solved after an edit that samples ONLY its adjoint (its class constraints depend on the
    samples of A.T, a separate Function): value and amounts sent = those of the same model built anew"""
    from PEPit import PEP, Point
    from PEPit.operators import LinearOperator

    def declare(p):
        A = p.declare_function(LinearOperator, L=1.)
        x = p.set_initial_point()
        y = A.gradient(x)
        w = Point()
        A.T.gradient(w)
        p.add_constraint(w ** 2 <= 1)
        p.set_initial_condition(x ** 2 <= 1)
        p.set_performance_metric(4 * y ** 2)
        return A, x, y

    def edit_(p, A, x):
        u = Point()
        v = A.T.gradient(u)
        p.add_constraint(u ** 2 <= 1)
        p.add_constraint(v ** 2 <= 4)
        p.set_performance_metric(x * v)
        return u, v

    p = PEP()
    A, x, y = declare(p)
    v1 = _quiet_solve(p)
    u, v = edit_(p, A, x)
    v2 = _quiet_solve(p)
    c2 = sent_counts(p)
    gap = abs(float(np.dot(x.eval(), v.eval()) - np.dot(y.eval(), u.eval())))
    pf = PEP()
    Af, xf, yf = declare(pf)
    edit_(pf, Af, xf)
    vf = _quiet_solve(pf)
    cf = sent_counts(pf)
    stats["linop_diff"] = abs(v2 - vf)
    if abs(v2 - vf) > 1e-3 * max(1.0, abs(vf)):
        problems.append(dict(kind="edited-resolve-differs-from-fresh-model", model="linop", edit="sample of the adjoint + metric",
                             resolved=v2, fresh=vf, first=v1))
    if c2 != cf:
        problems.append(dict(kind="growth", model="linop", what="re-solve sends other amounts than the same model built anew",
                             previous=cf, now=c2))
    if gap > 1e-4:
        problems.append(dict(kind="constraint-violated-at-instance", model="linop", what="adjoint identity <x, A^T u> = <A x, u>",
                             violation=gap))
    return dict(v1=v1, v2=v2, fresh=vf, counts=(c2, cf))


def check_resolve(idx, problems, stats, known_hits):
    """C13 on real solves: unchanged re-solve, radius 1 -> 4, failed solve"""
    p, h = real_model(idx)
    x0, xs, x = h["x0"], h["xs"], h["x"]
    base = x0 if xs is None else x0 - xs
    held = base ** 2
    v1 = _quiet_solve(p)
    c1 = sent_counts(p)
    h1 = float(held.eval())
    v2 = _quiet_solve(p)
    c2 = sent_counts(p)
    _tables_ok(p, idx, problems, "unchanged re-solve")
    scale = max(1.0, abs(v1))
    stats["resolve_diff"] = max(stats.get("resolve_diff", 0), abs(v1 - v2) / scale)
    if abs(v1 - v2) > 1e-3 * scale:
        problems.append(dict(kind="unchanged-resolve-value-differs", model=idx, first=v1, second=v2))
    if c1 != c2:
        problems.append(dict(kind="growth", model=idx, previous=c1, now=c2, what="real classes, unchanged model"))
    # edit 1: one more iteration and a metric (new leaf expressions between two solves)
    extend_model(p, h)
    v_ext = _quiet_solve(p)
    c_ext = sent_counts(p)
    # edit 2: replace the initial condition, radius 1 -> 4
    p.list_of_constraints = [c for c in p.list_of_constraints if c is not h["cond"]]
    p.set_initial_condition(base ** 2 <= 4)
    v3 = _quiet_solve(p)
    c3 = sent_counts(p)
    _tables_ok(p, idx, problems, "re-solve after replacing the initial condition")
    held_after = float(held.eval())
    # the newly built equivalent models (built LAST: PEP() resets the class counters p's new objects rely on)
    pe, he = real_model(idx, extra=True)
    v_ext_fresh = _quiet_solve(pe)
    c_ext_fresh = sent_counts(pe)
    pf, hf = real_model(idx, radius=4.0, extra=True)
    vf = _quiet_solve(pf)
    cf = sent_counts(pf)
    for name, a, b, ca, cb in (("one more iteration + metric", v_ext, v_ext_fresh, c_ext, c_ext_fresh),
                               ("initial condition radius 1 -> 4", v3, vf, c3, cf)):
        if a is None or b is None:
            problems.append(dict(kind="real-solve-returned-none", model=idx, edit=name))
            continue
        stats["edit_diff"] = max(stats.get("edit_diff", 0), abs(a - b) / max(1.0, abs(b)))
        if abs(a - b) > 1e-3 * max(1.0, abs(b)):
            problems.append(dict(kind="edited-resolve-differs-from-fresh-model", model=idx, edit=name, resolved=a, fresh=b))
        if ca != cb:
            problems.append(dict(kind="growth", model=idx, what="edited model sends other amounts than the same model "
                                 "built anew (%s)" % name, previous=cb, now=ca))
    return dict(v1=v1, v2=v2, v_ext=v_ext, v_ext_fresh=v_ext_fresh, v3=v3, fresh=vf, held_after_edit=held_after,
                held_first=h1, counts=(c1, c2, c_ext, c3))


# ------------------------------------------------------------------------------------------ the real CvxpyWrapper
class ProblemRecorder(object):
    """hooks cvxpy.Problem.solve (in the harness only, nothing in PEPit is patched): every Problem handed to the
    solver is recorded (number of constraints, ids of its variables, sense), then solved as usual"""

    def __enter__(self):
        import cvxpy as cp
        self.cp = cp
        self.orig = cp.Problem.solve
        self.records = []
        rec, orig = self.records, self.orig

        def hooked(prob, *a, **kw):
            rec.append(dict(n_constraints=len(prob.constraints), var_ids=sorted(v.id for v in prob.variables()),
                            sense=type(prob.objective).__name__))
            return orig(prob, *a, **kw)

        cp.Problem.solve = hooked
        return self

    def __exit__(self, *a):
        self.cp.Problem.solve = self.orig


HEUR_HISTORIES = [
    # (model index | "extend" | heuristic-or-None for a solve) ...: same PEP re-solved, edits, and new PEPs
    [("new", 0), ("solve", "trace"), ("solve", "logdet2"), ("solve", None), ("solve", "trace")],
    [("new", 5), ("solve", None), ("solve", "trace"), ("new", 2), ("solve", "logdet2"), ("solve", "trace")],
    [("new", 1), ("solve", "trace"), ("extend",), ("solve", "trace")],
    [("new", 3), ("solve", "logdet1"), ("new", 4), ("solve", "trace"), ("new", 0), ("solve", "trace")],
    [("new", 8), ("solve", "logdet2"), ("solve", "logdet2"), ("new", 11), ("solve", "trace"), ("solve", None),
     ("solve", "logdet1")],
    [("new", 7), ("solve", "trace"), ("extend",), ("solve", "logdet1"), ("new", 10), ("solve", "trace")],
]


def run_heuristic_histories(n_hist):
    """real CvxpyWrapper, SCS on tiny models.  For every solve: the original problem has the rows the model predicts
    from what was sent (G >> 0, one per scalar constraint, 1 + n^2 per LMI) over F, G and one M per LMI; every
    heuristic problem of that solve has exactly ONE more constraint over the SAME variables.
    Returns (cases for Model/Resolve.dump_cvx, problems, events)."""
    cases, problems, events = [], [], []
    for k, hist in enumerate(HEUR_HISTORIES[:n_hist]):
        p = h = None
        for j, ev in enumerate(hist):
            if ev[0] == "new":
                p, h = real_model(ev[1])
                continue
            if ev[0] == "extend":
                extend_model(p, h)
                continue
            heur = ev[1]
            with ProblemRecorder() as rec:
                kw = dict(eps_abs=1e-7, eps_rel=1e-7)
                if heur:
                    kw["dimension_reduction_heuristic"] = heur
                val = _quiet_solve(p, **kw)
            recs = rec.records
            sizes = [it.shape[0] if type(it).__name__ == "PSDMatrix" else 0
                     for it in p.wrapper._list_of_constraints_sent_to_solver]
            where = dict(generator="cvxpy-heuristic", history=k, event=j, heuristic=heur, model=h["info"]["kind"])
            if not recs or val is None:
                problems.append(dict(kind="real-solve-returned-none", **where))
                continue
            c0, v0 = recs[0]["n_constraints"], recs[0]["var_ids"]
            hrecs = recs[1:]
            events.append(dict(where, original=(c0, len(v0)), heuristic_problems=[(r["n_constraints"], len(r["var_ids"]))
                                                                                 for r in hrecs]))
            if bool(heur) != bool(hrecs):
                problems.append(dict(kind="heuristic-solves-not-observed", n=len(hrecs), **where))
            for r in hrecs:
                if r["n_constraints"] != c0 + 1 or r["var_ids"] != v0:
                    problems.append(dict(kind="heuristic-problem-is-not-the-original-plus-one-bound",
                                         original_constraints=c0, heuristic_constraints=r["n_constraints"],
                                         original_variables=len(v0), heuristic_variables=len(r["var_ids"]),
                                         foreign_variables=len(set(r["var_ids"]) - set(v0)), **where))
                    break
            inp = "(%s, %s)" % (coq_list([coq_nat(n) for n in sizes]), "true" if hrecs else "false")
            out = [c0, max(r["n_constraints"] for r in hrecs), len(v0)] if hrecs else [c0, len(v0)]
            cases.append((inp, out))
    return cases, problems, events


CVX_RUN = ("fun c : list nat * bool => if snd c then dump_cvx (fst c) "
           "else DL [DN (cvx_rows_sizes (fst c)); DN (cvx_vars_sizes (fst c))]")


def stream_cvxpy_heuristic(tier):
    n_hist = 4 if tier == "quick" else len(HEUR_HISTORIES)
    cases, problems, events = run_heuristic_histories(n_hist)
    bad = run_cases("cvx_heur", IMPORTS, CVX_RUN, cases, input_type="(list nat * bool)")
    mism = [dict(kind="model-differs", generator="cvxpy-heuristic", case=cases[i][0], implementation=str(cases[i][1]),
                 model=model_output(IMPORTS, CVX_RUN, cases[i][0])[:400]) for i in bad[:3]]
    return dict(name="cvxpy-heuristic-problems", evaluations=len(cases), distinct_nontrivial=len(set(c[0] for c in cases)),
                rule="histories of 2-5 solves on the REAL CvxpyWrapper (SCS on tiny models; trace / logdetN heuristics mixed "
                     "with plain solves, the same PEP re-solved, edited, and new PEPs in the same process), every "
                     "cvxpy.Problem handed to the solver recorded by a hook on cvxpy.Problem.solve: rows and variables of "
                     "the original problem = Model/Resolve.cvx_rows_sizes / cvx_vars_sizes of what was sent, every "
                     "heuristic problem = that + exactly one bound row over the same variables (cvx_heuristic_rows_sizes); "
                     "one evaluation = one solve; distinct by sizes of the sent items",
                n_mismatch=len(bad), mismatches=mism, problems=problems[:5], n_problems=len(problems),
                samples=events[:3], distribution=dict(solves=len(cases), heuristic_solves=sum(1 for e in events if e["heuristic"]),
                                                      heuristic_problems=sum(len(e["heuristic_problems"]) for e in events)))
