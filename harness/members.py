"""Real members of the shipped classes, sampled through the REAL PEPit API (failing-input search of C03 / C04).

For a class and parameters: draw a numerical member (harness/concrete.py), evaluate it at random points,
record the genuine triples on a real PEPit function object with fresh leaf Points / Expressions, call the
real `set_class_constraints()` and evaluate every generated scalar constraint and LMI at the recorded
numbers.  A constraint that a genuine member violates is a violation of C03 (the check is numerical, with a
tolerance far below any coefficient change; it supports the proofs, it does not replace them)."""
import math

import numpy as np

from . import classes as CL
from . import concrete as CW


def draw_member(world, name, params):
    d = world.dim
    rng = world.rng
    if name == "ConvexSupportFunction":
        M = params.get("M", float("inf"))
        rad = M if not math.isinf(M) else float(rng.choice([0.5, 1.0, 2.0]))
        return CW.L2Norm(world, rad, np.zeros(d), 0.0)          # support function of the ball of radius rad
    if name == "SmoothConvexLipschitzFunction":
        L, M = params["L"], params["M"]
        tau = M / L * float(rng.choice([1.0, 0.5]))
        return CW.Huber(world, L, tau, 0.0, world.center(), float(rng.normal()))
    if name == "NegativelyComonotoneOperator":
        rho = params["rho"]
        # block diagonal: a monotone part and a part  s*I  with  s <= -1/rho  (both satisfy the inequality; so
        # does their orthogonal direct sum)
        k = d // 2
        A = np.zeros((d, d))
        if k:
            B = rng.normal(size=(k, k))
            A[:k, :k] = B @ B.T / k + (B - B.T)
        A[k:, k:] = -(1.0 / rho) * float(rng.choice([1.0, 2.0])) * np.eye(d - k)
        Q = world.orthogonal(d)
        return CW.LinOp(world, Q @ A @ Q.T, world.center())
    return world.member(name, params)


def value_of(expr, P, F):
    v = 0.0
    for key, w in expr.decomposition_dict.items():
        if isinstance(key, tuple):
            v += w * float(np.dot(P[id(key[0])], P[id(key[1])]))
        elif type(key).__name__ == "Expression":
            v += w * F[id(key)]
        else:
            v += w
    return v


def point_value(pt, P):
    v = None
    for leaf, w in pt.decomposition_dict.items():
        v = w * P[id(leaf)] if v is None else v + w * P[id(leaf)]
    return v


def check_class(name, rng, seed, n_samples=None):
    """returns None if every generated constraint holds on genuine samples, else a replayable dict"""
    from PEPit import PEP, Point, Expression
    params = CL.draw_params(rng, name)
    dim = rng.choice([1, 2, 3, 4]) if name not in ("LipschitzStronglyMonotoneOperator",) else rng.choice([2, 4])
    world = CW.World(seed, dim, 1.0)
    world.shared_anchor = True
    try:
        member = draw_member(world, name, params)
    except CW.Unsupported as e:
        return dict(skipped=str(e))
    pep = PEP()
    func = pep.declare_function(CL.get_class(name), **params)
    P, F = {}, {}
    n = n_samples if n_samples is not None else rng.choice([1, 2, 3, 4, 5])
    order = []

    def record(xv, gv, fv, stationary=False):
        px, pf = Point(), Expression()
        P[id(px)] = np.asarray(xv, float)
        F[id(pf)] = float(fv)
        if stationary:
            pg = Point(is_leaf=False, decomposition_dict=dict())
        else:
            pg = Point()
            P[id(pg)] = np.asarray(gv, float)
        func.add_point((px, pg, pf))

    if name == "SmoothStronglyConvexQuadraticFunction":
        # the constructor already declared the stationary sample: give it its real value
        xs, gs, fs = func.list_of_stationary_points[0]
        P[id(xs)] = member.argmin()
        F[id(fs)] = member.f(member.argmin())
    pts = []
    for k in range(n):
        r = rng.random()
        if r < 0.2 and name not in ("SmoothStronglyConvexQuadraticFunction", "LinearOperator",
                                    "SymmetricLinearOperator", "SkewSymmetricLinearOperator",
                                    "ConvexSupportFunction", "NegativelyComonotoneOperator") \
                and hasattr(member, "argmin"):
            try:
                xs = member.argmin()
            except CW.Unsupported:
                xs = None
            if xs is not None and np.linalg.norm(member.oracle(CW.CP(xs))[0].v) < 1e-12:
                record(xs, None, member.f(xs), stationary=True)
                order.append("stationary")
                continue
        if r < 0.35 and pts:
            x = pts[rng.randrange(len(pts))]          # repeated evaluation at one point
        else:
            x = world.anchor + np.array([rng.choice([-2, -1, -0.5, 0, 0.25, 1, 3]) for _ in range(dim)], float)
        pts.append(x)
        try:
            g, f = member.oracle(CW.CP(x))
        except CW.Infeasible:
            # indicator: move the point into the domain
            x = member.prox(x, 1.0)
            g, f = member.oracle(CW.CP(x))
        gv = g.v
        if name == "ConvexIndicatorFunction":
            # a genuine normal-cone element: 0 in the interior, a non-negative multiple of (x - c) on the boundary
            z = x - member.c
            if abs(np.linalg.norm(z) - member.r) < 1e-12:
                gv = float(rng.choice([0, 1, 2.5])) * z
        record(x, gv, f.v)
        order.append("sample")
    if name == "LinearOperator":
        for k in range(rng.choice([0, 1, 2, 3])):
            u = np.array([rng.choice([-2, -1, 0.5, 1, 3]) for _ in range(dim)], float)
            pu, pv = Point(), Point()
            P[id(pu)] = u
            P[id(pv)] = member.T.oracle(CW.CP(u))[0].v
            func.T.add_point((pu, pv, Expression()))
            order.append("T-sample")
    if name == "NonexpansiveOperator" and rng.random() < 0.6:
        # infimal displacement vector of the affine map x -> c + A(x - c) with a fixed point: v = 0
        v = Point()
        P[id(v)] = np.zeros(dim)
        func.v = v
    func.set_class_constraints()
    # ConvexQGFunction / RsiEbFunction declare a stationary point themselves when none was recorded
    for xs, gs, fs in func.list_of_stationary_points:
        if xs.get_is_leaf() and id(xs) not in P:
            P[id(xs)] = member.argmin()
            F[id(fs)] = member.f(member.argmin())
            order.append("auto-stationary")
    scale = 1.0 + max([np.linalg.norm(v) for v in P.values()] + [abs(v) for v in F.values()]) ** 2
    tol = 1e-8 * scale
    for c in func.list_of_class_constraints:
        val = value_of(c.expression, P, F)
        bad = abs(val) > tol if c.equality_or_inequality == "equality" else val > tol
        if bad:
            return dict(kind="member-violates-class-constraint", cls=name, params=params, world_seed=seed, dim=dim,
                        constraint=c.get_name(), value=val, sense=c.equality_or_inequality, samples=order)
    for m in func.list_of_class_psd:
        M = np.array([[value_of(e, P, F) for e in row] for row in m.matrix_of_expressions], float)
        if M.size and (np.max(np.abs(M - M.T)) > tol or np.min(np.linalg.eigvalsh((M + M.T) / 2)) < -tol):
            return dict(kind="member-violates-class-lmi", cls=name, params=params, world_seed=seed, dim=dim,
                        min_eig=float(np.min(np.linalg.eigvalsh((M + M.T) / 2))), samples=order)
    return None
