"""Real members of the shipped classes, sampled through the REAL PEPit API (stream "genuine-members" and failing-
input search of C03).

For a class and parameters: draw a numerical member (harness/concrete.py, plus the members defined here), evaluate
it at random points, record the genuine triples on a real PEPit function object with fresh leaf Points /
Expressions (`add_point`; stationary samples; repeated evaluations at one point; samples of the transpose for
LinearOperator; the infimal displacement vector for NonexpansiveOperator; the blocks of every gradient for
BlockSmoothConvexFunction), call the real `set_class_constraints()` and evaluate every generated scalar
constraint and LMI at the recorded numbers.  A constraint that a genuine member violates is a violation of C03
(the check is numerical, with a tolerance far below any coefficient change; it supports the proofs and finds
failing inputs, it does not replace them).

Every case is a function of (class, case_seed) alone: `check_case(name, case_seed)`."""
import math
import random

import numpy as np

from . import classes as CL
from . import concrete as CW


# ------------------------------------------------------------------ members not in harness/concrete.py
class AffMap(CW.Member):
    """T x = A x + b with A symmetric, 0 <= A <= I: nonexpansive; the eigenspace U of eigenvalue 1 is ker(I - A),
    range(I - T) = -b + U^perp, whose minimal-norm element is the infimal displacement vector v = -P_U b
    (non-zero: T has no fixed point)"""
    def __init__(self, world, d):
        rng = world.rng
        self.world = world
        Q = world.orthogonal(d)
        k = int(rng.randint(1, d + 1))                    # dim U >= 1
        s = np.concatenate([np.ones(k), rng.uniform(0, 0.9, size=d - k)])
        self.A = Q @ np.diag(s) @ Q.T
        self.A = (self.A + self.A.T) / 2
        self.b = rng.normal(size=d) * float(rng.choice([0.5, 1.0, 3.0]))
        PU = Q[:, :k] @ Q[:, :k].T
        self.v = -PU @ self.b

    def f(self, x): return 0.0
    def oracle(self, x): return CW.CP(self.A @ x.v + self.b), CW.CE(0.0)


class BlockQuadratic(CW.Member):
    """1/2 (x-c)^T A (x-c) + b on R^n, A positive semidefinite, with a partition of the n coordinates into
    contiguous blocks; smooth along block k with constant lambda_max(A_kk) (the k-th DIAGONAL block: moving
    inside block k changes the function by 1/2 d^T A_kk d) -- whatever the off-diagonal coupling."""
    def __init__(self, world, sizes, Ls):
        rng = world.rng
        n = sum(sizes)
        self.world, self.sizes = world, sizes
        self.offsets = np.concatenate([[0], np.cumsum(sizes)])
        r = int(rng.randint(1, n + 1))
        B = rng.normal(size=(n, r))
        A = B @ B.T                                          # PSD, possibly singular, blocks coupled
        D = np.zeros(n)
        for k, (lo, hi) in enumerate(zip(self.offsets[:-1], self.offsets[1:])):
            top = float(np.linalg.eigvalsh(A[lo:hi, lo:hi])[-1])
            slack = float(rng.choice([1.0, 1.0, 0.5]))       # tight (lambda_max(A_kk) = L_k) two times out of three
            D[lo:hi] = math.sqrt(slack * Ls[k] / top) if top > 1e-12 else 1.0
        self.A = (D[:, None] * A) * D[None, :]               # congruence by a block-scalar diagonal: still PSD
        self.A = (self.A + self.A.T) / 2
        self.c = world.center()
        self.b = float(rng.normal())

    def f(self, x): return 0.5 * float((x - self.c) @ self.A @ (x - self.c)) + self.b
    def oracle(self, x): return CW.CP(self.A @ (x.v - self.c)), CW.CE(self.f(x.v))
    def argmin(self): return self.c.copy()

    def block(self, vec, k):
        out = np.zeros_like(vec)
        lo, hi = self.offsets[k], self.offsets[k + 1]
        out[lo:hi] = vec[lo:hi]
        return out


# rational points of the unit circle (cos, sin): scaled rotations with exact entries
PYTH = [(3 / 5, 4 / 5), (4 / 5, 3 / 5), (5 / 13, 12 / 13), (12 / 13, 5 / 13), (8 / 17, 15 / 17), (0.0, 1.0)]


def rotation_matrix(world, d, a, b, tail):
    """a I + b K on the first 2 * (d // 2) coordinates (K = diag of quarter turns J = [[0,-1],[1,0]]: K^T = -K,
    K^2 = -I), `tail` on a left-over coordinate: <A u, u> = a |u|^2 and |A u|^2 = (a^2 + b^2) |u|^2 on the even part.
    NOT a gradient field when b != 0.  Half of the time conjugated by an orthogonal matrix (same properties),
    otherwise kept with its exact entries."""
    m = 2 * (d // 2)
    A = np.zeros((d, d))
    for i in range(0, m, 2):
        sgn = 1.0 if world.rng.rand() < 0.5 else -1.0
        A[i, i] = A[i + 1, i + 1] = a
        A[i, i + 1], A[i + 1, i] = -sgn * b, sgn * b
    if d > m:
        A[d - 1, d - 1] = tail
    if world.rng.rand() < 0.5:
        Q = world.orthogonal(d)
        A = Q @ A @ Q.T
    return A


def draw_rotation_member(world, name, params):
    """non-gradient members ON THE BOUNDARY of the operator classes (scaled rotations a I + b J), or None.
    A tightened inequality that is still valid for gradient fields (symmetric linear maps) is only separated from
    the right one by such members: a is the exact strong-monotonicity modulus, a / (a^2 + b^2) the exact
    cocoercivity modulus, sqrt(a^2 + b^2) the exact Lipschitz constant."""
    d, rng = world.dim, world.rng
    if d < 2:
        return None
    c, s = PYTH[rng.randint(len(PYTH))]
    ctr = world.center()
    if name == "StronglyMonotoneOperator":
        mu = params["mu"]
        return CW.LinOp(world, rotation_matrix(world, d, mu, float(rng.choice([0.5, 1.0, 3.0])), mu), ctr)
    if name == "MonotoneOperator":
        return CW.LinOp(world, rotation_matrix(world, d, 0.0, float(rng.choice([0.5, 1.0, 3.0])), 0.0), ctr)
    if name == "CocoerciveOperator":
        beta = params["beta"]
        if c == 0.0:
            c, s = 3 / 5, 4 / 5
        return CW.LinOp(world, rotation_matrix(world, d, c * c / beta, c * s / beta, 1.0 / beta), ctr)
    if name == "NegativelyComonotoneOperator":
        rho = params["rho"]
        if c == 0.0:
            return CW.LinOp(world, rotation_matrix(world, d, 0.0, 1.0 / rho, -1.0 / rho), ctr)
        return CW.LinOp(world, rotation_matrix(world, d, -c * c / rho, c * s / rho, -1.0 / rho), ctr)
    if name == "CocoerciveStronglyMonotoneOperator":
        mu, beta = params["mu"], params["beta"]
        if mu * beta > 1:
            return None
        r = rng.rand()
        if r < 0.6:
            # both moduli exact: a = mu, a / (a^2 + b^2) = beta
            a, b = mu, math.sqrt(max(mu / beta - mu * mu, 0.0))
        elif r < 0.8:
            # strong monotonicity exact, cocoercivity with slack
            a, b = mu, 0.5 * math.sqrt(max(mu / beta - mu * mu, 0.0))
        else:
            # cocoercivity exact, strong monotonicity with slack (if the rational angle allows it)
            a, b = c * c / beta, c * s / beta
            if a < mu:
                a, b = mu, math.sqrt(max(mu / beta - mu * mu, 0.0))
        return CW.LinOp(world, rotation_matrix(world, d, a, b, float(rng.choice([mu, 1.0 / beta]))), ctr)
    if name == "LipschitzStronglyMonotoneOperator":
        mu, L = params["mu"], params["L"]
        if L < mu:
            return None
        return CW.LinOp(world, rotation_matrix(world, d, mu, math.sqrt(L * L - mu * mu), float(rng.choice([mu, L]))), ctr)
    if name in ("LipschitzOperator", "NonexpansiveOperator"):
        L = 1.0 if name == "NonexpansiveOperator" else params["L"]
        return CW.AffOp(world, rotation_matrix(world, d, L * c, L * s, float(rng.choice([L, -L]))), ctr)
    if name == "SkewSymmetricLinearOperator" and d % 2 == 0:
        return CW.LinMat(world, rotation_matrix(world, d, 0.0, params["L"], 0.0))
    return None


def draw_member(world, name, params):
    d = world.dim
    rng = world.rng
    if name in ROTATION_CLASSES and rng.rand() < 0.5:
        m = draw_rotation_member(world, name, params)
        if m is not None:
            m.tag = "scaled-rotation (non-gradient, on the boundary of the class)"
            return m
    if name == "ConvexSupportFunction":
        M = params.get("M", float("inf"))
        rad = M if not math.isinf(M) else float(rng.choice([0.5, 1.0, 2.0]))
        return CW.L2Norm(world, rad, np.zeros(d), 0.0)          # support function of the ball of radius rad
    if name == "SmoothConvexLipschitzFunction":
        L, M = params["L"], params["M"]
        tau = M / L * float(rng.choice([1.0, 0.5]))
        return CW.Huber(world, L, tau, 0.0, world.center(), float(rng.normal()))
    if name == "NegativelyComonotoneOperator":
        rho = params["rho"]
        # block diagonal: a monotone part and a part  s*I  with  s <= -1/rho  (both satisfy the inequality; so
        # does their orthogonal direct sum)
        k = d // 2
        A = np.zeros((d, d))
        if k:
            B = rng.normal(size=(k, k))
            A[:k, :k] = B @ B.T / k + (B - B.T)
        A[k:, k:] = -(1.0 / rho) * float(rng.choice([1.0, 2.0])) * np.eye(d - k)
        Q = world.orthogonal(d)
        return CW.LinOp(world, Q @ A @ Q.T, world.center())
    if name == "NonexpansiveOperator" and rng.rand() < 0.4:
        return AffMap(world, d)
    if name == "BlockSmoothConvexFunction":
        return BlockQuadratic(world, params["_sizes"], params["L"])
    return world.member(name, params)


def value_of(expr, P, F):
    v = 0.0
    for key, w in expr.decomposition_dict.items():
        if isinstance(key, tuple):
            v += w * float(np.dot(P[id(key[0])], P[id(key[1])]))
        elif type(key).__name__ == "Expression":
            v += w * F[id(key)]
        else:
            v += w
    return v


def point_value(pt, P):
    v = None
    for leaf, w in pt.decomposition_dict.items():
        v = w * P[id(leaf)] if v is None else v + w * P[id(leaf)]
    return v


ROTATION_CLASSES = ("StronglyMonotoneOperator", "MonotoneOperator", "CocoerciveOperator",
                    "NegativelyComonotoneOperator", "CocoerciveStronglyMonotoneOperator",
                    "LipschitzStronglyMonotoneOperator", "LipschitzOperator", "NonexpansiveOperator",
                    "SkewSymmetricLinearOperator")
NO_STATIONARY = ("SmoothStronglyConvexQuadraticFunction", "LinearOperator", "SymmetricLinearOperator",
                 "SkewSymmetricLinearOperator", "ConvexSupportFunction", "NegativelyComonotoneOperator")


def check_class(name, rng, seed, n_samples=None, stats=None):
    """returns None if every generated constraint holds on genuine samples, dict(skipped=...) when no member could
    be drawn, else a replayable violation dict.  `stats` (a dict) accumulates what was evaluated."""
    from PEPit import PEP, Point, Expression
    params = CL.draw_params(rng, name)
    dim = rng.choice([1, 2, 3, 4]) if name not in ("LipschitzStronglyMonotoneOperator",) else rng.choice([2, 4])
    mparams = dict(params)
    if name == "BlockSmoothConvexFunction":
        nb = params["d"]
        sizes = [rng.choice([1, 1, 2]) for _ in range(nb)]
        dim = sum(sizes)
        mparams["_sizes"] = sizes
    world = CW.World(seed, dim, 1.0)
    world.shared_anchor = True
    try:
        member = draw_member(world, name, mparams)
    except CW.Unsupported as e:
        return dict(skipped=str(e))
    pep = PEP()
    func = CL.declare(pep, rng, name, dict(params), False)
    P, F = {}, {}
    n = n_samples if n_samples is not None else rng.choice([1, 2, 3, 4, 5])
    order = []

    def record(xv, gv, fv, stationary=False):
        px, pf = Point(), Expression()
        P[id(px)] = np.asarray(xv, float)
        F[id(pf)] = float(fv)
        if stationary:
            pg = Point(is_leaf=False, decomposition_dict=dict())
        elif rng.random() < 0.3:
            # the SAME genuine (sub)gradient written as a combination of two leaf points (what a composite function's
            # oracle or a user's add_point((x, g1 + g2, fx)) records): a class must treat it exactly like a leaf
            # (seed C15-9: non-leaf gradients taken for null gradients)
            pa, pb = Point(), Point()
            gfull = np.asarray(gv, float)
            part = np.array([rng.choice([-1.0, 0.0, 0.5, 2.0]) for _ in range(len(gfull))])
            w = rng.choice([1.0, 2.0, -0.5])
            P[id(pa)] = gfull - part
            P[id(pb)] = part / w
            pg = pa + w * pb
        else:
            pg = Point()
            P[id(pg)] = np.asarray(gv, float)
        if rng.random() < 0.15:
            # ... and the evaluation point written as a difference of two leaf points
            qa, qb = Point(), Point()
            shift = np.array([rng.choice([-1.0, 0.0, 1.0]) for _ in range(len(P[id(px)]))])
            P[id(qa)] = P[id(px)] + shift
            P[id(qb)] = shift
            del P[id(px)]
            px = qa - qb
        func.add_point((px, pg, pf))

    if name == "SmoothStronglyConvexQuadraticFunction":
        # the constructor already declared the stationary sample: give it its real value
        xs, gs, fs = func.list_of_stationary_points[0]
        P[id(xs)] = member.argmin()
        F[id(fs)] = member.f(member.argmin())
    pts = []
    for k in range(n):
        r = rng.random()
        if r < 0.2 and name not in NO_STATIONARY and hasattr(member, "argmin"):
            try:
                xs = member.argmin()
            except CW.Unsupported:
                xs = None
            if xs is not None and np.linalg.norm(member.oracle(CW.CP(xs))[0].v) < 1e-12:
                record(xs, None, member.f(xs), stationary=True)
                order.append("stationary")
                continue
        if r < 0.35 and pts:
            x = pts[rng.randrange(len(pts))]          # repeated evaluation at one point
        else:
            x = world.anchor + np.array([rng.choice([-2, -1, -0.5, 0, 0.25, 1, 3]) for _ in range(dim)], float)
        pts.append(x)
        try:
            g, f = member.oracle(CW.CP(x))
        except CW.Infeasible:
            # indicator: move the point into the domain
            x = member.prox(x, 1.0)
            g, f = member.oracle(CW.CP(x))
        gv = g.v
        if name == "ConvexIndicatorFunction":
            # a genuine normal-cone element: 0 in the interior, a non-negative multiple of (x - c) on the boundary
            z = x - member.c
            if abs(np.linalg.norm(z) - member.r) < 1e-12:
                gv = float(rng.choice([0, 1, 2.5])) * z
        record(x, gv, f.v)
        order.append("sample")
    # re-query through the ORACLE at an already recorded Point object (stationary samples included): a class that does
    # not reuse gradients must hand out a fresh leaf subgradient -- every admissible subgradient can then be the value
    # of that leaf --, a differentiable one must return the recorded gradient (seed C03-9: the zero gradient of a
    # declared stationary point returned for every later query at it)
    for _ in range(rng.choice([0, 0, 1, 2])):
        recs = list(func.list_of_points)
        if not recs or name in ("LinearOperator",):
            break
        px, pg_old, pf_old = recs[rng.randrange(len(recs))]
        xv = point_value(px, P)
        if xv is None:
            continue
        n_before = len(func.list_of_points)
        g2, f2 = func.oracle(px)
        if f2 is not pf_old and not any(f2 is r[2] for r in recs if r[0] is px):
            return dict(kind="oracle-requery-new-function-value", cls=name, params=params, world_seed=seed, samples=order)
        if func.reuse_gradient:
            if not any(g2 is r[1] for r in recs if r[0] is px):
                return dict(kind="oracle-requery-differentiable-class-new-gradient", cls=name, params=params,
                            world_seed=seed, samples=order)
        else:
            fresh = g2.get_is_leaf() and id(g2) not in P and len(func.list_of_points) == n_before + 1
            if not fresh:
                return dict(kind="oracle-requery-no-fresh-subgradient", cls=name, params=params, world_seed=seed,
                            samples=order, at_stationary=(len(pg_old.decomposition_dict) == 0))
            # a genuine subgradient at that point: the one already recorded there (the zero vector at a stationary one)
            old = point_value(pg_old, P)
            P[id(g2)] = np.zeros(len(xv)) if old is None else old
        order.append("oracle-requery")
        # ... and a query at a point whose decomposition differs from a recorded one by a coefficient of 2^-40: a
        # DIFFERENT point, which must get its own sample (seed C03-12: recorded points identified up to np.allclose)
        if name not in ("ConvexIndicatorFunction", "ConvexSupportFunction") and rng.random() < 0.5 \
                and "oracle-near-point" not in order:
            leafs = [q_ for q_ in list(px.decomposition_dict) + list(pg_old.decomposition_dict) if id(q_) in P]
            if leafs:
                q_ = leafs[0]
                near = px + 2.0 ** -40 * q_
                xn = xv + 2.0 ** -40 * P[id(q_)]
                if np.any(xn != xv):
                    n0 = len(func.list_of_points)
                    gn, fn_ = func.oracle(near)
                    if len(func.list_of_points) != n0 + 1 or any(fn_ is r[2] for r in recs):
                        return dict(kind="oracle-merges-two-different-points", cls=name, params=params, world_seed=seed,
                                    samples=order, coefficient="2^-40")
                    try:
                        g_true, f_true = member.oracle(CW.CP(xn))
                    except Exception:
                        return dict(skipped="member has no oracle at the perturbed point")
                    if gn.get_is_leaf() and id(gn) not in P:
                        P[id(gn)] = np.asarray(g_true.v, float)
                    F[id(fn_)] = float(f_true.v)
                    order.append("oracle-near-point")
    if name == "LinearOperator":
        for k in range(rng.choice([0, 1, 2, 3])):
            u = np.array([rng.choice([-2, -1, 0.5, 1, 3]) for _ in range(dim)], float)
            pu, pv = Point(), Point()
            P[id(pu)] = u
            P[id(pv)] = member.T.oracle(CW.CP(u))[0].v
            func.T.add_point((pu, pv, Expression()))
            order.append("T-sample")
    if name == "NonexpansiveOperator":
        if isinstance(member, AffMap):
            # a nonexpansive map without fixed point: its true (non-zero) infimal displacement vector
            v = Point()
            P[id(v)] = member.v
            func.v = v
            order.append("v")
        elif rng.random() < 0.6:
            # infimal displacement vector of the affine map x -> c + A(x - c) with a fixed point: v = 0
            v = Point()
            P[id(v)] = np.zeros(dim)
            func.v = v
            order.append("v=0")
    # point LABELS are not identities: every iterate may be called "x", or carry the automatic label of another sample
    # (seed C15-12: class constraints memoised by the labels of the pair)
    labelling = rng.choice([None, None, None, "same", "auto-collision"])
    if labelling:
        for k_, t_ in enumerate(func.list_of_points):
            t_[0].set_name("x" if labelling == "same" else "Point_%d" % ((k_ + 1) % max(1, len(func.list_of_points))))
        order.append("labels:" + labelling)
    func.set_class_constraints()
    # ConvexQGFunction / RsiEbFunction declare a stationary point themselves when none was recorded
    for xs, gs, fs in func.list_of_stationary_points:
        if xs.get_is_leaf() and id(xs) not in P:
            P[id(xs)] = member.argmin()
            F[id(fs)] = member.f(member.argmin())
            order.append("auto-stationary")
    if name == "BlockSmoothConvexFunction":
        # partition.get_block(g, k) created fresh leaf points for the blocks 0..d-2 of every recorded gradient (the
        # last block is g minus their sum): value them by the true coordinate-block projections
        for pt, blocks in func.partition.blocks_dict.items():
            gv = point_value(pt, P)
            if gv is None:
                gv = np.zeros(dim)
            for k, b in enumerate(blocks[:-1]):
                P[id(b)] = member.block(gv, k)
    scale = 1.0 + max([np.linalg.norm(v) for v in P.values()] + [abs(v) for v in F.values()]) ** 2
    tol = 1e-8 * scale
    if stats is not None:
        stats["constraints"] = stats.get("constraints", 0) + len(func.list_of_class_constraints)
        stats["lmis"] = stats.get("lmis", 0) + len(func.list_of_class_psd)
        stats["last"] = dict(params=params, dim=dim, samples=order, member=getattr(member, 'tag', type(member).__name__),
                             n_constraints=len(func.list_of_class_constraints), n_lmis=len(func.list_of_class_psd))
        for o in order:
            stats.setdefault("kinds", {})
            stats["kinds"][o] = stats["kinds"].get(o, 0) + 1
    for c in func.list_of_class_constraints:
        val = value_of(c.expression, P, F)
        bad = abs(val) > tol if c.equality_or_inequality == "equality" else val > tol
        if bad:
            return dict(kind="member-violates-class-constraint", cls=name, params=params, world_seed=seed, dim=dim,
                        member=getattr(member, 'tag', type(member).__name__), constraint=c.get_name(), value=val, tolerance=tol,
                        sense=c.equality_or_inequality, samples=order)
    for m in func.list_of_class_psd:
        M = np.array([[value_of(e, P, F) for e in row] for row in m.matrix_of_expressions], float)
        if M.size and (np.max(np.abs(M - M.T)) > tol or np.min(np.linalg.eigvalsh((M + M.T) / 2)) < -tol):
            return dict(kind="member-violates-class-lmi", cls=name, params=params, world_seed=seed, dim=dim,
                        member=getattr(member, 'tag', type(member).__name__), asymmetry=float(np.max(np.abs(M - M.T))),
                        min_eig=float(np.min(np.linalg.eigvalsh((M + M.T) / 2))), tolerance=tol, samples=order)
    return None


def check_case(name, case_seed, stats=None):
    """one replayable case: everything (parameters, member, points, order) is drawn from case_seed"""
    rng = random.Random(case_seed)
    res = check_class(name, rng, case_seed % (2 ** 31), stats=stats)
    if res is not None and "kind" in res:
        res["case_seed"] = case_seed
    return res
