"""A concrete world for the shipped examples (C09 search / validation, never a proof).

The SOURCE of an example file is re-executed with PEPit's names bound to numerical stand-ins: points
are numpy vectors, expressions are floats, `declare_function(Class, **params)` returns a real member of
that class (quadratics with prescribed spectrum, l1 / l2 norms, ball indicators, linear monotone /
Lipschitz operators ...), primitive steps are computed exactly (closed-form prox, resolvent, line search,
linear minimisation).  `solve()` returns the performance the run achieved.  The initial condition is
enforced by scaling the free points towards a common anchor.  Anything the stand-ins cannot express
raises Unsupported and the example is skipped (counted in the evidence)."""
import ast
import math
import os

import numpy as np


class Unsupported(Exception):
    pass


class Infeasible(Exception):
    """the world violates a domain requirement at this scaling (treated like a violated initial condition)"""
    pass


class CZero(object):
    """PEPit.null_point: neutral element of Point addition"""
    def __add__(self, o): return o
    __radd__ = __add__
    def __sub__(self, o): return -o
    def __rsub__(self, o): return o
    def __neg__(self): return self
    def __mul__(self, o):
        if isinstance(o, CP): return CE(0.0)
        return self
    __rmul__ = __mul__
    def __truediv__(self, o): return self
    def __pow__(self, k): return CE(0.0)


# ----------------------------------------------------------------------------------- values
def _val(x):
    return x.v if isinstance(x, CE) else float(x)


class CE(object):
    """concrete expression: a float"""
    __array_priority__ = 100

    def __init__(self, v):
        self.v = float(v)

    def __add__(self, o): return CE(self.v + _val(o))
    __radd__ = __add__
    def __sub__(self, o): return CE(self.v - _val(o))
    def __rsub__(self, o): return CE(_val(o) - self.v)
    def __neg__(self): return CE(-self.v)
    def __mul__(self, o):
        if isinstance(o, (CE, CP)):
            raise Unsupported("product of expressions")
        return CE(self.v * float(o))
    __rmul__ = __mul__
    def __truediv__(self, o): return CE(self.v / float(o))
    def __le__(self, o): return CC(self.v - _val(o), "le")
    def __lt__(self, o): return CC(self.v - _val(o), "le")
    def __ge__(self, o): return CC(_val(o) - self.v, "le")
    def __gt__(self, o): return CC(_val(o) - self.v, "le")
    def __eq__(self, o): return CC(self.v - _val(o), "eq")
    def __hash__(self): return id(self)
    def set_name(self, name): pass
    def get_name(self): return None
    def eval(self): return self.v


class CC(object):
    """concrete constraint: value <= 0 (le) or == 0 (eq)"""
    def __init__(self, value, kind):
        self.value, self.kind = value, kind

    def set_name(self, name): pass


class CP(object):
    """concrete point: a vector"""
    __array_priority__ = 100

    def __init__(self, v):
        self.v = np.asarray(v, dtype=float)

    def __add__(self, o):
        if isinstance(o, CZero): return self
        if not isinstance(o, CP): raise Unsupported("Point + non-point")
        return CP(self.v + o.v)
    def __sub__(self, o):
        if isinstance(o, CZero): return self
        if not isinstance(o, CP): raise Unsupported("Point - non-point")
        return CP(self.v - o.v)
    def __neg__(self): return CP(-self.v)
    def __mul__(self, o):
        if isinstance(o, CP):
            return CE(float(np.dot(self.v, o.v)))
        if isinstance(o, CZero):
            return CE(0.0)
        if isinstance(o, CE):
            raise Unsupported("Point * Expression")
        return CP(self.v * float(o))
    __rmul__ = __mul__
    def __truediv__(self, o): return CP(self.v / float(o))
    def __pow__(self, k):
        if k != 2: raise Unsupported("Point ** k")
        return CE(float(np.dot(self.v, self.v)))
    def set_name(self, name): pass
    def get_name(self): return None
    def eval(self): return self.v


# ----------------------------------------------------------------------------------- members
class Member(object):
    reuse = True

    def gradient(self, x, name=None): return self.oracle(x)[0]
    subgradient = gradient
    def value(self, x, name=None): return self.oracle(x)[1]
    def __call__(self, x): return self.value(x)
    def add_constraint(self, c): self.world.constraints.append(c)
    def set_name(self, n): pass
    def get_name(self): return None
    def __add__(self, o): return CSum([(1.0, self), (1.0, o)], self.world)
    def __sub__(self, o): return CSum([(1.0, self), (-1.0, o)], self.world)
    def __rmul__(self, c): return CSum([(float(c), self)], self.world)
    __mul__ = __rmul__
    def __truediv__(self, c): return CSum([(1.0 / float(c), self)], self.world)
    def __neg__(self): return CSum([(-1.0, self)], self.world)

    def stationary_point(self, return_gradient_and_function_value=False, name=None):
        x = CP(self.argmin())
        if return_gradient_and_function_value:
            return x, CP(np.zeros_like(x.v)), CE(self.f(x.v))
        return x

    def prox(self, x0, gamma):
        raise Unsupported("no prox for %s" % type(self).__name__)


class Quadratic(Member):
    """1/2 (x-c)^T A (x-c) + b, A symmetric"""
    def __init__(self, world, eigs, c, b=0.0):
        self.world = world
        d = len(c)
        Qm = world.orthogonal(d)
        self.A = Qm @ np.diag(eigs) @ Qm.T
        self.A = (self.A + self.A.T) / 2
        self.c, self.b = np.asarray(c, float), float(b)

    def f(self, x): return 0.5 * float((x - self.c) @ self.A @ (x - self.c)) + self.b
    def g(self, x): return self.A @ (x - self.c)
    def oracle(self, x): return CP(self.g(x.v)), CE(self.f(x.v))
    def argmin(self): return self.c.copy()
    def prox(self, x0, gamma):
        d = len(self.c)
        return np.linalg.solve(np.eye(d) + gamma * self.A, x0 + gamma * self.A @ self.c)


class Huber(Member):
    """mu/2 |x-c|^2 + h(<u, x-c>) + b, h the Huber function of curvature a and threshold tau (|u| = 1):
    a (mu + a)-smooth, mu-strongly convex function; the known worst case of many first-order methods"""
    def __init__(self, world, a, tau, mu, c, b=0.0):
        self.world, self.a, self.tau, self.mu, self.c, self.b = world, float(a), float(tau), float(mu), np.asarray(c, float), float(b)
        u = world.rng.normal(size=len(c))
        self.u = u / np.linalg.norm(u)

    def _h(self, s):
        return self.a / 2 * s * s if abs(s) <= self.tau else self.a * self.tau * abs(s) - self.a * self.tau ** 2 / 2
    def _dh(self, s):
        return self.a * s if abs(s) <= self.tau else self.a * self.tau * (1 if s > 0 else -1)
    def f(self, x):
        z = x - self.c
        return self.mu / 2 * float(z @ z) + self._h(float(self.u @ z)) + self.b
    def oracle(self, x):
        z = x.v - self.c
        return CP(self.mu * z + self._dh(float(self.u @ z)) * self.u), CE(self.f(x.v))
    def argmin(self): return self.c.copy()
    def prox(self, x0, gamma):
        z0 = x0 - self.c
        s0 = float(self.u @ z0)
        perp = z0 - s0 * self.u
        k = 1 + gamma * self.mu
        s = s0 / (k + gamma * self.a)
        if abs(s) > self.tau:
            s = (s0 - gamma * self.a * self.tau * (1 if s0 > 0 else -1)) / k
        return self.c + perp / k + s * self.u


class L1(Member):
    """lam * |x - c|_1 + mu/2 |x-c|^2 + b"""
    reuse = False

    def __init__(self, world, lam, c, mu=0.0, b=0.0):
        self.world, self.lam, self.c, self.mu, self.b = world, float(lam), np.asarray(c, float), float(mu), float(b)

    def f(self, x):
        return self.lam * float(np.abs(x - self.c).sum()) + self.mu / 2 * float((x - self.c) @ (x - self.c)) + self.b
    def oracle(self, x):
        z = x.v - self.c
        s = np.sign(z)
        # at a kink any value in [-1, 1] is admissible: draw one
        kink = (np.abs(z) < 1e-14)
        s = np.where(kink, self.world.rng.uniform(-1, 1, size=z.shape) * (0 if self.world.zero_at_kink else 1), s)
        return CP(self.lam * s + self.mu * z), CE(self.f(x.v))
    def argmin(self): return self.c.copy()
    def stationary_point(self, return_gradient_and_function_value=False, name=None):
        x = CP(self.c.copy())
        if return_gradient_and_function_value:
            return x, CP(np.zeros_like(x.v)), CE(self.f(x.v))
        return x
    def prox(self, x0, gamma):
        # argmin lam|x-c|_1 + mu/2|x-c|^2 + 1/(2 gamma)|x-x0|^2
        z0 = (x0 - self.c) / (1 + gamma * self.mu)
        thr = gamma * self.lam / (1 + gamma * self.mu)
        return self.c + np.sign(z0) * np.maximum(np.abs(z0) - thr, 0)


class L2Norm(Member):
    """M |x - c|_2 + b"""
    reuse = False

    def __init__(self, world, M, c, b=0.0):
        self.world, self.M, self.c, self.b = world, float(M), np.asarray(c, float), float(b)

    def f(self, x): return self.M * float(np.linalg.norm(x - self.c)) + self.b
    def oracle(self, x):
        z = x.v - self.c
        n = np.linalg.norm(z)
        g = self.M * z / n if n > 1e-14 else np.zeros_like(z)
        return CP(g), CE(self.f(x.v))
    def argmin(self): return self.c.copy()
    def prox(self, x0, gamma):
        z = x0 - self.c
        n = np.linalg.norm(z)
        if n <= gamma * self.M:
            return self.c.copy()
        return self.c + (1 - gamma * self.M / n) * z


class BallIndicator(Member):
    """indicator of the ball of radius r around c"""
    reuse = False

    def __init__(self, world, r, c):
        self.world, self.r, self.c = world, float(r), np.asarray(c, float)

    def f(self, x):
        if np.linalg.norm(x - self.c) > self.r * (1 + 1e-9) + 1e-12:
            raise Infeasible("indicator evaluated outside its domain")
        return 0.0
    def oracle(self, x):
        self.f(x.v)
        return CP(np.zeros_like(x.v)), CE(0.0)
    def argmin(self): return self.c.copy()
    def prox(self, x0, gamma):
        z = x0 - self.c
        n = np.linalg.norm(z)
        return x0.copy() if n <= self.r else self.c + self.r * z / n
    def lmo(self, direction):
        n = np.linalg.norm(direction)
        if n < 1e-14:
            return self.c.copy()
        return self.c - self.r * direction / n


class LinOp(Member):
    """operator x -> A (x - c): zero at c"""
    def __init__(self, world, A, c):
        self.world, self.A, self.c = world, np.asarray(A, float), np.asarray(c, float)

    def f(self, x): return 0.0
    def oracle(self, x): return CP(self.A @ (x.v - self.c)), CE(0.0)
    def argmin(self): return self.c.copy()
    def fixed_point(self, name=None):
        d = len(self.c)
        M = np.eye(d) - self.A
        if abs(np.linalg.det(M)) < 1e-9:
            raise Unsupported("no unique fixed point")
        x = np.linalg.solve(M, -self.A @ self.c)
        return CP(x), CP(x.copy()), CE(0.0)
    def prox(self, x0, gamma):     # resolvent (I + gamma A)^-1
        d = len(self.c)
        return np.linalg.solve(np.eye(d) + gamma * self.A, x0 + gamma * self.A @ self.c)


class AffOp(LinOp):
    """operator x -> c + A (x - c): fixed point at c"""
    def oracle(self, x): return CP(self.c + self.A @ (x.v - self.c)), CE(0.0)
    def argmin(self):
        d = len(self.c)
        if abs(np.linalg.det(self.A)) < 1e-9:
            raise Unsupported("no unique zero")
        return np.linalg.solve(self.A, self.A @ self.c - self.c)
    def fixed_point(self, name=None):
        return CP(self.c.copy()), CP(self.c.copy()), CE(0.0)
    def prox(self, x0, gamma):
        d = len(self.c)
        return np.linalg.solve(np.eye(d) + gamma * self.A, x0 + gamma * (self.A @ self.c - self.c))


class LinMat(Member):
    """linear operator x -> M x (LinearOperator, SymmetricLinearOperator, SkewSymmetricLinearOperator)"""
    def __init__(self, world, M, transpose_of=None):
        self.world, self.M = world, np.asarray(M, float)
        self.T = transpose_of if transpose_of is not None else LinMat(world, self.M.T, transpose_of=self)

    def f(self, x): return 0.0
    def oracle(self, x): return CP(self.M @ x.v), CE(0.0)
    def argmin(self): return np.zeros(self.M.shape[1])


class CSum(Member):
    def __init__(self, terms, world):
        self.world = world
        flat = []
        for w, m in terms:
            if isinstance(m, CSum):
                flat += [(w * w2, m2) for w2, m2 in m.terms]
            else:
                flat.append((w, m))
        self.terms = flat

    def f(self, x): return sum(w * m.f(x) for w, m in self.terms)
    def oracle(self, x):
        g = np.zeros_like(x.v)
        f = 0.0
        for w, m in self.terms:
            gi, fi = m.oracle(x)
            g = g + w * gi.v
            f += w * fi.v
        return CP(g), CE(f)
    def argmin(self):
        if all(isinstance(m, Quadratic) for _, m in self.terms):
            A = sum(w * m.A for w, m in self.terms)
            rhs = sum(w * m.A @ m.c for w, m in self.terms)
            if np.min(np.linalg.eigvalsh((A + A.T) / 2)) < 1e-8:
                raise Unsupported("sum of quadratics without unique minimiser")
            return np.linalg.solve(A, rhs)
        cs = [m.argmin() for _, m in self.terms]
        if any(np.linalg.norm(c - cs[0]) > 1e-12 for c in cs):
            raise Unsupported("stationary point of a general sum")
        return cs[0]
    def stationary_point(self, return_gradient_and_function_value=False, name=None):
        self.world.zero_at_kink = True      # every term must return the zero (sub)gradient at the common minimiser
        return Member.stationary_point(self, return_gradient_and_function_value, name)


# ----------------------------------------------------------------------------------- the world
class World(object):
    def __init__(self, seed, dim, t, knob=1.0):
        self.rng = np.random.RandomState(seed)
        self.dim, self.t = dim, t
        # one scalar degree of freedom of the world, tuned adversarially by the caller: it scales the slope of the
        # non-smooth members and the threshold of the Huber members (worst cases of first-order methods are
        # typically of this kind, with a slope / threshold matched to step sizes and horizon)
        self.knob = float(knob)
        self.anchor = self.rng.normal(size=dim)
        self.constraints = []
        self.metrics = []
        self.zero_at_kink = False
        self.shared_anchor = True

    def orthogonal(self, d):
        q, _ = np.linalg.qr(self.rng.normal(size=(d, d)))
        return q

    def spectrum(self, lo, hi):
        d = self.dim
        if math.isinf(hi):
            hi = max(abs(lo), 1.0) * self.rng.choice([2.0, 10.0])
        e = self.rng.uniform(lo, hi, size=d)
        e[0], e[-1] = lo, hi                 # extreme curvatures always present
        if self.rng.rand() < 0.3:
            e = self.rng.choice([lo, hi], size=d)
            e[0], e[-1] = lo, hi
        return e

    def center(self):
        if self.shared_anchor:
            return self.anchor.copy()
        return self.anchor + self.rng.normal(size=self.dim)

    def skew(self):
        d = self.dim
        B = self.rng.normal(size=(d, d))
        return B - B.T

    def member(self, cls, kw):
        name = cls if isinstance(cls, str) else cls.__name__
        L, mu = kw.get("L"), kw.get("mu")
        c = self.center()
        r = self.rng.rand()
        b = float(self.rng.normal())
        d = self.dim
        if name == "SmoothStronglyConvexFunction":
            if r < 0.4 and L > mu and not math.isinf(L):
                return Huber(self, L - mu, self.knob * self.t * self.rng.choice([0.02, 0.05, 0.1, 0.2, 0.4]), mu, c, b)
            return Quadratic(self, self.spectrum(mu, L), c, b)
        if name == "SmoothConvexFunction":
            if r < 0.5 and not math.isinf(L):
                return Huber(self, L, self.knob * self.t * self.rng.choice([0.02, 0.05, 0.1, 0.2, 0.4]), 0.0, c, b)
            return Quadratic(self, self.spectrum(0.0, L), c, b)
        if name == "SmoothFunction":
            return Quadratic(self, self.spectrum(-L, L), c, b)
        if name == "StronglyConvexFunction":
            if r < 0.5:
                return Quadratic(self, self.spectrum(mu, float("inf")), c, b)
            return L1(self, self.rng.choice([0.5, 1.0, 3.0]), c, mu=mu, b=b)
        if name == "ConvexFunction":
            if r < 0.4:
                return L1(self, self.knob * self.rng.choice([0.05, 0.5, 1.0, 3.0]), c, b=b)
            if r < 0.7:
                return L2Norm(self, self.knob * self.rng.choice([0.05, 0.5, 1.0, 3.0]), c, b)
            return Quadratic(self, self.spectrum(0.0, self.rng.choice([1.0, 5.0])), c, b)
        if name == "ConvexLipschitzFunction":
            M = kw["M"]
            if r < 0.5:
                return L2Norm(self, M, c, b)
            return L1(self, M / math.sqrt(self.dim), c, b=b)
        if name == "ConvexIndicatorFunction":
            D = kw.get("D", float("inf"))
            rad = D / 2 if not math.isinf(D) else self.rng.choice([0.5, 1.0, 2.0])
            return BallIndicator(self, rad, c)
        if name in ("ConvexQGFunction",):
            return Quadratic(self, self.spectrum(0.0, L), c, b)
        if name == "RsiEbFunction":
            return Quadratic(self, self.spectrum(mu, L), c, b)
        if name == "SmoothStronglyConvexQuadraticFunction":
            return Quadratic(self, self.spectrum(mu, L), c, b)
        if name == "LinearOperator":
            U, V = self.orthogonal(d), self.orthogonal(d)
            sv = self.rng.uniform(0, L, size=d)
            sv[0] = L
            return LinMat(self, U @ np.diag(sv) @ V.T)
        if name == "SymmetricLinearOperator":
            P = self.orthogonal(d)
            return LinMat(self, P @ np.diag(self.spectrum(mu, L)) @ P.T)
        if name == "SkewSymmetricLinearOperator":
            K = self.skew()
            nrm = np.linalg.norm(K, 2)
            return LinMat(self, K * (L / nrm if nrm > 0 else 0.0))
        if name in ("LipschitzOperator", "NonexpansiveOperator"):
            Lc = 1.0 if name == "NonexpansiveOperator" else L
            Q = self.orthogonal(d)
            s = self.rng.uniform(0, 1, size=d)
            s[0] = 1.0
            if r < 0.4:
                s[:] = 1.0
            A = Lc * Q @ np.diag(s) @ self.orthogonal(d).T
            if r > 0.7:
                A = -A
            return AffOp(self, A, c)
        if name == "MonotoneOperator":
            P = self.orthogonal(d)
            A = P @ np.diag(self.rng.uniform(0, 2, size=d) * (self.rng.rand(d) < 0.6)) @ P.T + self.skew()
            return LinOp(self, A, c)
        if name == "StronglyMonotoneOperator":
            P = self.orthogonal(d)
            A = mu * np.eye(d) + P @ np.diag(self.rng.uniform(0, 2, size=d) * (self.rng.rand(d) < 0.5)) @ P.T + self.skew()
            return LinOp(self, A, c)
        if name == "CocoerciveOperator":
            P = self.orthogonal(d)
            A = P @ np.diag(self.spectrum(0.0, 1.0 / kw["beta"])) @ P.T
            return LinOp(self, A, c)
        if name == "CocoerciveStronglyMonotoneOperator":
            P = self.orthogonal(d)
            A = P @ np.diag(self.spectrum(mu, 1.0 / kw["beta"])) @ P.T
            return LinOp(self, A, c)
        if name == "LipschitzStronglyMonotoneOperator":
            if L < mu:
                raise Unsupported("L < mu")
            if d % 2:
                raise Unsupported("odd dimension")
            K = np.zeros((d, d))
            for i in range(0, d, 2):
                K[i, i + 1], K[i + 1, i] = 1.0, -1.0
            Q = self.orthogonal(d)
            beta = math.sqrt(max(L * L - mu * mu, 0.0)) * self.rng.choice([1.0, 1.0, 0.5])
            return LinOp(self, mu * np.eye(d) + beta * Q @ K @ Q.T, c)
        raise Unsupported("class %s" % name)


class ConcretePEP(object):
    world = None            # set by run_example

    def __init__(self):
        self.w = ConcretePEP.world
        self.n_free = 0

    def declare_function(self, function_class, **kwargs):
        kwargs.pop("name", None)
        kwargs.pop("reuse_gradient", None)
        m = self.w.member(function_class, kwargs)
        return m

    def set_initial_point(self, name=None):
        u = self.w.rng.normal(size=self.w.dim)
        u /= np.linalg.norm(u)
        scale = self.w.rng.choice([1.0, 1.0, 0.7])
        return CP(self.w.anchor + self.w.t * scale * u)

    def set_initial_condition(self, c):
        if not isinstance(c, CC):
            raise Unsupported("initial condition is not a comparison of expressions")
        self.w.constraints.append(c)
    add_constraint = set_initial_condition

    def set_performance_metric(self, e):
        if not isinstance(e, CE):
            raise Unsupported("metric is not an expression")
        self.w.metrics.append(e.v)

    def declare_block_partition(self, d):
        raise Unsupported("block partitions")

    def add_psd_matrix(self, m):
        raise Unsupported("LMI")

    def solve(self, **kwargs):
        if not self.w.metrics:
            raise Unsupported("no metric")
        return min(self.w.metrics)


# ----------------------------------------------------------------------------------- steps
def proximal_step(x0, f, gamma):
    x = f.prox(x0.v, float(gamma))
    gx = (x0.v - x) / float(gamma)
    return CP(x), CP(gx), CE(f.f(x))


def inexact_gradient_step(x0, f, gamma, epsilon, notion='absolute'):
    gx, fx = f.oracle(x0)
    w = f.world
    e = w.rng.normal(size=w.dim)
    e /= np.linalg.norm(e)
    if w.rng.rand() < 0.5 and np.linalg.norm(gx.v) > 0:
        e = -gx.v / np.linalg.norm(gx.v) * w.rng.choice([1.0, -1.0])
    if notion == 'absolute':
        rad = epsilon
    elif notion == 'relative':
        rad = epsilon * np.linalg.norm(gx.v)
    else:
        raise ValueError("inexact_gradient_step supports only notion in ['absolute', 'relative']")
    dx = gx.v + rad * w.rng.choice([1.0, 1.0, 0.5]) * e
    return CP(x0.v - gamma * dx), CP(dx), fx


def exact_linesearch_step(x0, f, directions):
    if not isinstance(f, (Quadratic, CSum)):
        raise Infeasible("line search on a non-quadratic member: another world is drawn")
    if isinstance(f, CSum) and not all(isinstance(m, Quadratic) for _, m in f.terms):
        raise Unsupported("line search on a non-quadratic")
    D = np.array([d.v for d in directions]).T            # dim x k
    if isinstance(f, Quadratic):
        A, g0 = f.A, f.g(x0.v)
    else:
        A = sum(w * m.A for w, m in f.terms)
        g0 = f.oracle(x0)[0].v
    H = D.T @ A @ D
    rhs = -D.T @ g0
    if np.min(np.linalg.eigvalsh((H + H.T) / 2)) < -1e-10:
        raise Unsupported("line search unbounded below")
    a = np.linalg.lstsq(H, rhs, rcond=None)[0]
    if np.linalg.norm(H @ a - rhs) > 1e-8 * (1 + np.linalg.norm(rhs)):
        raise Unsupported("line search unbounded below")
    x = CP(x0.v + D @ a)
    gx, fx = f.oracle(x)
    return x, gx, fx


def linear_optimization_step(dir, f):
    if not isinstance(f, BallIndicator):
        raise Unsupported("linear optimisation over a non-ball")
    x = f.lmo(dir.v)
    return CP(x), CP(-dir.v), CE(0.0)


def _unsupported_step(*a, **k):
    raise Unsupported("primitive step not available in the concrete world")


CLASS_NAMES = ["BlockSmoothConvexFunction", "ConvexFunction", "ConvexIndicatorFunction", "ConvexLipschitzFunction",
               "ConvexQGFunction", "ConvexSupportFunction", "RsiEbFunction", "SmoothConvexFunction",
               "SmoothConvexLipschitzFunction", "SmoothFunction", "SmoothStronglyConvexFunction",
               "SmoothStronglyConvexQuadraticFunction", "StronglyConvexFunction", "CocoerciveOperator",
               "CocoerciveStronglyMonotoneOperator", "LinearOperator", "LipschitzOperator",
               "LipschitzStronglyMonotoneOperator", "MonotoneOperator", "NegativelyComonotoneOperator",
               "NonexpansiveOperator", "SkewSymmetricLinearOperator", "StronglyMonotoneOperator",
               "SymmetricLinearOperator"]


class _ClassToken(object):
    def __init__(self, name):
        self.__name__ = name


def load_example(path):
    """compile the example with every `from PEPit... import` removed; returns (code, function name, main-call kwargs)"""
    src = open(path).read()
    tree = ast.parse(src, path)
    body = []
    main_block = None
    fname = None
    for node in tree.body:
        if isinstance(node, ast.ImportFrom) and node.module and (node.module.startswith("PEPit") or node.level > 0):
            continue
        if isinstance(node, ast.If) and isinstance(node.test, ast.Compare) and isinstance(node.test.left, ast.Name) \
                and node.test.left.id == "__name__":
            main_block = node
            continue
        if isinstance(node, ast.FunctionDef) and node.name.startswith("wc_"):
            fname = node.name
        body.append(node)
    tree.body = body
    return compile(tree, path, "exec"), fname, main_block


def main_kwargs(main_block, fname, ns):
    """evaluate the arguments of the call wc_...(…) found in the `if __name__ == '__main__':` block"""
    if main_block is None:
        return None
    local = dict(ns)
    for st in main_block.body:
        call = None
        for n in ast.walk(st):
            if isinstance(n, ast.Call) and isinstance(n.func, ast.Name) and n.func.id == fname:
                call = n
        if call is not None:
            if call.args:
                return None
            kw = {}
            for k in call.keywords:
                kw[k.arg] = eval(compile(ast.Expression(k.value), "<main>", "eval"), local)
            return kw
        try:
            exec(compile(ast.Module([st], []), "<main>", "exec"), local)
        except Exception:
            return None
    return None


def concrete_namespace():
    ns = {"PEP": ConcretePEP, "proximal_step": proximal_step, "inexact_gradient_step": inexact_gradient_step,
          "exact_linesearch_step": exact_linesearch_step, "linear_optimization_step": linear_optimization_step,
          "bregman_gradient_step": _unsupported_step, "bregman_proximal_step": _unsupported_step,
          "inexact_proximal_step": _unsupported_step, "epsilon_subgradient_step": _unsupported_step,
          "__name__": "concrete_example"}
    for c in CLASS_NAMES:
        ns[c] = _ClassToken(c)

    def _no(*a, **k):
        raise Unsupported("direct DSL object")
    ns["Point"] = _no
    ns["Expression"] = _no
    ns["null_point"] = CZero()
    return ns


def run_once(code, fname, kwargs, seed, dim, t, knob=1.0):
    """one concrete run; returns (list of (kind, value) of the initial conditions, achieved performance);
    a domain violation counts as a violated inequality"""
    w = World(seed, dim, t, knob)
    ConcretePEP.world = w
    ns = concrete_namespace()
    exec(code, ns)
    kw = dict(kwargs)
    kw["verbose"] = -1
    try:
        out = ns[fname](**kw)
    except Infeasible:
        return [("le", 1.0)], float("nan")
    return [(c.kind, c.value) for c in w.constraints], float(out[0])


def _viol(cons):
    return max([v for k, v in cons if k == "le"] + [0.0])


def best_feasible_run(code, fname, kwargs, seed, dim, knob=1.0):
    """scaling t of the free points (towards the anchor) for which every initial condition holds, as large as
    found; an equality initial condition is met by bisection on t.  Returns (t, performance)."""
    cons, perf = run_once(code, fname, kwargs, seed, dim, 4.0, knob)
    eqs = [i for i, (k, _) in enumerate(cons) if k == "eq"]
    if len(eqs) > 1:
        raise Unsupported("several equality initial conditions")
    if eqs:
        i = eqs[0]
        g = lambda t: run_once(code, fname, kwargs, seed, dim, t, knob)
        hi, (chi, _) = 4.0, (cons, perf)
        lo = 1e-6
        clo, _ = g(lo)
        if len(clo) != len(cons) or clo[i][1] * chi[i][1] > 0:
            raise Unsupported("equality initial condition not bracketed")
        for _ in range(60):
            mid = (lo + hi) / 2
            cm, pm = g(mid)
            if cm[i][1] * clo[i][1] > 0:
                lo, clo = mid, cm
            else:
                hi = mid
        cm, pm = g(hi)
        if abs(cm[i][1]) > 1e-9 or _viol(cm) > 1e-10:
            raise Unsupported("equality initial condition not met")
        return hi, pm
    t = 4.0
    feas = None
    for _ in range(40):
        if _viol(cons) <= 1e-10:
            feas = (t, perf)
            break
        t /= 2
        cons, perf = run_once(code, fname, kwargs, seed, dim, t, knob)
    if feas is None:
        raise Unsupported("no feasible scaling found")
    lo, hi = feas[0], feas[0] * 2
    best = feas
    if feas[0] < 4.0:
        for _ in range(14):
            mid = (lo + hi) / 2
            cons, perf = run_once(code, fname, kwargs, seed, dim, mid, knob)
            if _viol(cons) <= 1e-10:
                lo, best = mid, (mid, perf)
            else:
                hi = mid
    return best


def tuned_run(code, fname, kwargs, seed, dim):
    """best_feasible_run maximised over the world's knob (coarse geometric grid, then two local refinements);
    returns (scaling, performance, knob)"""
    best = None

    def ev(k):
        nonlocal best
        try:
            t, perf = best_feasible_run(code, fname, kwargs, seed, dim, k)
        except Unsupported:
            return None
        if perf == perf and (best is None or perf > best[1]):
            best = (t, perf, k)
        return perf
    grid = [2.0 ** e for e in (-5, -3, -2, -1, 0, 1, 2, 3)]
    for k in grid:
        ev(k)
    if best is None:
        raise Unsupported("no feasible world for any knob")
    step = 2.0 ** 0.5
    for _ in range(3):
        k0 = best[2]
        ev(k0 / step)
        ev(k0 * step)
        step = step ** 0.5
    return best
