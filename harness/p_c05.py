"""C05 — the problem handed to the solver is exactly the declared model.

Streams (all through the REAL PEPit under $PEPIT_REPO):
  matrices   random expressions (leaf / composite; repeated, mirrored, diagonal keys, zero weights, constants)
             -> expression_to_matrices / expression_to_sparse_matrices outputs vs Model/Matrices.v, exact;
             on the implementation alone: dense / sparse data evaluated at random symmetric rational (G, F)
             (sparse triples read with MOSEK's symmetric-storage convention) vs the expression's own value
  collect    (LMIs are declared from nested lists, nested tuples and object ndarrays, with scalar entries; the caller's
             container is overwritten after the declaration and re-used for further declarations; the declared item is
             the snapshot of the entries taken when add_psd_matrix is called)
             random small PEP programs solved through a RecordingWrapper registered from the harness: the
             sequence of send_* calls (dictionaries, senses, LMI entries), both tracking lists, the objective leaf
             and the length of F vs Model/Collect.v interpreting the plan GENERATED from pep.py, applied to a
             snapshot of the declared model; on the implementation alone: multiset of sent objects = declared
  shipped-models  the example files of PEPit/examples and the complexified models of tests/: each wc_* function is
             called with the literal arguments of its __main__ block while PEP.solve is intercepted and routed to the
             RecordingWrapper; same comparison with Model/Collect.v + multiset oracle on every recorded solve
  cvxpy      the same programs through the real CvxpyWrapper (generate_problem, no solve): every cvxpy
             constraint is evaluated at two random rational symmetric (G, F) and compared with the exact value
             of the PEPit expression it stands for; senses, LMI coupling rows, objective checked
"""
import random
import warnings
from fractions import Fraction

from . import terms as T
from . import classes as C
from .common import run_cases, model_output, coq_nat, coq_q, coq_list, Q, to_fraction

GEN_DEPS = ["SolvePlan.v", "tr_solveplan"]
TRUSTED = [
    "MOSEK back-end: Model/Mosek.v (emission, API semantics of the Task calls) and the recording stand-in "
    "harness/standin/mosek (MOSEK itself is absent); stream mosek-call-log runs LAST, the stand-in is only then on sys.path",
    "translator/tr_solveplan.py: grammar of the collection phase of PEP._solve_with_wrapper (docstring of the module); "
    "`if verbose:` blocks are dropped only after being checked print-only with side-effect-free arguments",
    "Model/Matrices.v (expression_to_matrices, expression_to_sparse_matrices) and the interpreter of plans in "
    "Model/Collect.v are hand-written; both are tied to the code by the streams of this check",
    "Proofs/C05Spec.v: dense_val = cvxpy's `cons + F @ Fweights + sum(multiply(G, Gweights))`; tri_val = MOSEK's "
    "symmetric-storage reading of a lower-triangular triple (MOSEK itself is absent: this reading is an assumption)",
    "set_class_constraints / add_partition_constraints leave pep.list_of_* and function.list_of_constraints / "
    "list_of_psd untouched (checked on every recorded program by a double snapshot, not proved)",
    "class constraints themselves (what set_class_constraints generates) are the subject of C03/C04; here they are "
    "taken from the snapshot made when wrapper.set_main_variables is called",
    "cvxpy: Variable(symmetric=True), expression .value evaluation, Inequality/Equality/PSD constraint classes",
]
ASSUMES = [
    "decomposition dictionaries have distinct keys (Python dicts) and leaf counters are below Point.counter / "
    "Expression.counter (hypotheses NoDupKeys / in_bounds of C05_dense, C05_sparse)",
    "G is symmetric (cvxpy declares it symmetric=True; MOSEK's barvar is symmetric)",
]

IMPORTS = ["From PV Require Import Model.Sent Model.Matrices Model.Collect Gen.SolvePlan."]


# =============================================================================================== matrices
def fresh_leaves(np_, nx_):
    from PEPit import PEP, Point, Expression
    PEP()
    P = [Point() for _ in range(np_)]
    X = [Expression() for _ in range(nx_)]
    return P, X


def gen_expr_case(rng):
    """(np, nx, tree).  tree is a terms.py expression tree; ('XVar', k) alone is a leaf expression"""
    np_, nx_ = rng.randint(1, 5), rng.randint(1, 4)
    r = rng.random()
    if r < 0.08:
        t = ("XVar", rng.randrange(nx_))
    elif r < 0.16:      # zero coefficients kept by a scalar product
        t = ("XScalL", 0, T.gen_expr(rng, 2, np_, nx_))
    elif r < 0.28:      # mirrored pair with different weights + diagonal
        a, b = ("PVar", rng.randrange(np_)), ("PVar", rng.randrange(np_))
        t = ("XAdd", ("XAdd", ("XScalL", T.rand_scalar(rng), ("XInner", a, b)),
                      ("XScalL", T.rand_scalar(rng), ("XInner", b, a))), ("XSq", T.gen_point(rng, 1, np_)))
    elif r < 0.6:       # an arbitrary dictionary handed to the Expression constructor: any key order, zero weights,
        #                     mirrored keys in both orders, diagonal keys
        keys = [[1, i, j] for i in range(np_) for j in range(np_)] + [[0, k] for k in range(nx_)] + [[2]]
        rng.shuffle(keys)
        keys = keys[:rng.randint(0, min(len(keys), 9))]
        def w():
            # legitimate badly scaled models carry tiny coefficients (gamma**2 for gamma = 1/L, L = 1e4 ...): they
            # must reach the solver data exactly like any other coefficient
            if rng.random() < 0.25:
                return rng.choice([1, -1, 3]) * 2.0 ** -rng.choice([28, 33, 40, 45])
            return T.rand_scalar(rng)
        t = ("XDict", tuple((tuple(k), w()) for k in keys))
    else:
        t = T.gen_expr(rng, rng.choice([1, 2, 3, 3, 4]), np_, nx_)
    return np_, nx_, t


def build_expr(t, P, X):
    if t[0] == "XDict":
        from PEPit import Expression
        d = {}
        for k, w in t[1]:
            k = tuple(k)
            key = X[k[1]] if k[0] == 0 else (P[k[1]], P[k[2]]) if k[0] == 1 else 1
            d[key] = w
        return Expression(is_leaf=False, decomposition_dict=d)
    return T.py_eval(t, P, X)


def impl_matrices(np_, nx_, t):
    """build t with the real operators, run both real translation functions.
    returns (dump, coq input literal, decomposition items, is_leaf, raw outputs)"""
    from PEPit import Point, Expression
    from PEPit.tools.expressions_to_matrices import expression_to_matrices, expression_to_sparse_matrices
    P, X = fresh_leaves(np_, nx_)
    e = build_expr(t, P, X)
    pid, xid = C.leaf_maps()
    n, m = Point.counter, Expression.counter
    Gw, Fw, cons = expression_to_matrices(e)
    gi, gj, gv, fi, fv, sc = expression_to_sparse_matrices(e)
    assert Gw.shape == (n, n) and Fw.shape == (m,)
    dense = [[[Q(Gw[i, j]) for j in range(n)] for i in range(n)], [Q(Fw[k]) for k in range(m)], Q(cons)]
    sparse = [[[int(a), int(b), Q(v)] for a, b, v in zip(gi, gj, gv)],
              [[int(a), Q(v)] for a, v in zip(fi, fv)], Q(sc)]
    items = T.dump_edict(e.decomposition_dict, pid, xid)
    if e.get_is_leaf():
        lit = "(%s, %s, ELeaf %s)" % (coq_nat(n), coq_nat(m), coq_nat(e.counter))
    else:
        lit = "(%s, %s, EComp %s)" % (coq_nat(n), coq_nat(m), C.coq_ed(items))
    return [dense, sparse], lit, items, e.get_is_leaf(), (n, m)


RUN_MAT = "fun t => dump_matrices (fst (fst t)) (snd (fst t)) (snd t)"
TYPE_MAT = "(nat * nat * expr)"


def rand_GF(rng, n, m):
    G = [[Fraction(0)] * n for _ in range(n)]
    for i in range(n):
        for j in range(i + 1):
            v = Fraction(rng.randint(-9, 9), rng.choice([1, 2, 4]))
            G[i][j] = G[j][i] = v
    F = [Fraction(rng.randint(-9, 9), rng.choice([1, 2, 4])) for _ in range(m)]
    return G, F


def eval_items(items, G, F):
    """value of a dumped decomposition dict at (G, F), exact"""
    acc = Fraction(0)
    for k, v in items:
        w = v.v if isinstance(v, Q) else to_fraction(v)
        if k[0] == 0:
            acc += w * F[k[1]]
        elif k[0] == 1:
            acc += w * G[k[1]][k[2]]
        else:
            acc += w
    return acc


def matrices_semantic_check(dump, items, nm, rng):
    """dense and sparse data of the IMPLEMENTATION, evaluated exactly, vs the expression's own value"""
    n, m = nm
    dense, sparse = dump
    for _ in range(2):
        G, F = rand_GF(rng, n, m)
        want = eval_items(items, G, F)
        dv = sum(dense[0][i][j].v * G[i][j] for i in range(n) for j in range(n)) \
            + sum(dense[1][k].v * F[k] for k in range(m)) + dense[2].v
        sv = sparse[2].v + sum(v.v * F[k] for k, v in sparse[1])
        for i, j, v in sparse[0]:
            if i < j:
                return dict(kind="sparse-triple-not-lower-triangular", triple=[i, j, str(v.v)])
            sv += v.v * G[i][i] if i == j else v.v * (G[i][j] + G[j][i])
        if dv != want:
            return dict(kind="dense-data-differs-from-expression", G=G, F=F, expression_value=want, dense_value=dv)
        if sv != want:
            return dict(kind="sparse-data-differs-from-expression", G=G, F=F, expression_value=want, sparse_value=sv)
    return None


def key_shape(items):
    ks = [tuple(k) for k, _ in items]
    s = set(ks)
    feats = []
    if any(k[0] == 1 and k[1] != k[2] and (1, k[2], k[1]) in s for k in ks):
        feats.append("mirrored")
    if any(k[0] == 1 and k[1] != k[2] and (1, k[2], k[1]) not in s for k in ks):
        feats.append("unmirrored")
    if any(k[0] == 1 and k[1] == k[2] for k in ks):
        feats.append("diagonal")
    if any(k[0] == 0 for k in ks):
        feats.append("fvalue")
    if any(k[0] == 2 for k in ks):
        feats.append("constant")
    if any((v.v if isinstance(v, Q) else v) == 0 for _, v in items):
        feats.append("zero-weight")
    return feats


def stream_matrices(tier, seed, corpus):
    rng = random.Random(seed * 7919 + 501)
    n_cases = 3000 if tier == "quick" else 30000
    trees = [(_c["np"], _c["nx"], _detuple(_c["tree"])) for _c in corpus if _c.get("kind") == "matrices"]
    while len(trees) < n_cases:
        trees.append(gen_expr_case(rng))
    cases, keep, problems, hist, distinct = [], [], [], {}, set()
    for np_, nx_, t in trees:
        try:
            dump, lit, items, leaf, nm = impl_matrices(np_, nx_, t)
        except Exception as e:
            problems.append(dict(kind="matrices-raised", np=np_, nx=nx_, tree=t, error=repr(e)))
            continue
        bad = matrices_semantic_check(dump, items, nm, rng)
        if bad:
            problems.append(dict(np=np_, nx=nx_, tree=t, **bad))
        cases.append((lit, dump))
        keep.append((np_, nx_, t, dump))
        feats = ["leaf"] if leaf else key_shape(items)
        for f in feats or ["empty"]:
            hist[f] = hist.get(f, 0) + 1
        if leaf or len(items) >= 2:
            distinct.add(lit)
    bad = run_cases("c05m", IMPORTS, RUN_MAT, cases, input_type=TYPE_MAT)
    mism = [dict(kind="model-differs", np=keep[i][0], nx=keep[i][1], tree=keep[i][2], implementation=keep[i][3],
                 model=model_output(IMPORTS, RUN_MAT, cases[i][0])) for i in bad[:3]]
    return dict(name="matrices", evaluations=len(cases), distinct_nontrivial=len(distinct),
                rule="seeded random expressions built with the real operators; non-trivial = leaf expression or at "
                     "least 2 keys; distinct by (Point.counter, Expression.counter, decomposition dict)",
                mismatches=mism, n_mismatch=len(bad), problems=problems[:5], n_problems=len(problems),
                samples=[dict(np=k[0], nx=k[1], tree=k[2], implementation=k[3]) for k in keep[:2]],
                distribution=dict(key_shapes=hist))


# =============================================================================================== programs
LMI_CLASSES = ["SymmetricLinearOperator", "SkewSymmetricLinearOperator", "LinearOperator",
               "SmoothStronglyConvexQuadraticFunction"]
PLAIN_CLASSES = ["SmoothStronglyConvexFunction", "ConvexFunction", "SmoothConvexFunction", "ConvexQGFunction",
                 "RsiEbFunction", "MonotoneOperator", "LipschitzOperator", "ConvexIndicatorFunction",
                 "StronglyConvexFunction", "CocoerciveOperator"]


def _leaves():
    from PEPit import Point, Expression
    return list(Point.list_of_leaf_points), list(Expression.list_of_leaf_expressions)


def _rand_expr(rng, depth=None):
    P, X = _leaves()
    P, X = P[:6], X[:5]
    if not X:
        from PEPit import Expression
        X = [Expression()]
    t = T.gen_expr(rng, depth if depth is not None else rng.choice([0, 1, 1, 2]), len(P), len(X))
    return T.py_eval(t, P, X)


def _rand_cons(rng):
    P, X = _leaves()
    P, X = P[:6], X[:5]
    if not X:
        from PEPit import Expression
        X = [Expression()]
    t = T.gen_cons(rng, rng.choice([0, 1, 1]), len(P), len(X))
    return T.py_eval(t, P, X)


def _rand_matrix(rng):
    s = rng.choice([1, 2, 2, 3])
    M = [[None] * s for _ in range(s)]
    sym = rng.random() < 0.7
    for i in range(s):
        for j in range(s):
            if sym and j < i:
                M[i][j] = M[j][i]
            else:
                M[i][j] = _rand_expr(rng)
    return M


def _entry_dump(e, pid, xid):
    """dictionary of one entry of a declared matrix: an Expression, or a python scalar (PSDMatrix stores it as the
    constant expression {1: value})"""
    if isinstance(e, (int, float)):
        return [[[2], Q(e)]]
    return T.dump_edict(e.decomposition_dict, pid, xid)


def declare_lmi(target, pep, rng, desc):
    """declare one LMI (or two from the same re-used buffer) on `target` (the PEP or a function) through
    add_psd_matrix, from a nested list / nested tuple / object ndarray; record the entries AS THEY ARE AT DECLARATION
    TIME in pep._c05_decl (that snapshot is the declared item); afterwards overwrite entries of the caller's
    container: a declaration must not be affected by what the caller later does with its own container."""
    import numpy as np
    M = _rand_matrix(rng)
    s = len(M)
    if s >= 2 and rng.random() < 0.25:                   # (an all-scalar nested list becomes a numeric ndarray whose
        k = rng.randrange(s)                             #  numpy scalars PSDMatrix rejects: outside this property)
        M[k][k] = rng.choice([1, 2, 0.5, 0])           # scalar entry
    form = rng.choice(["list", "tuple", "ndarray", "ndarray"])
    if form == "list":
        cont = [list(r) for r in M]
    elif form == "tuple":
        cont = tuple(tuple(r) for r in M)
    else:
        cont = np.empty((s, s), dtype=object)
        for i in range(s):
            for j in range(s):
                cont[i, j] = M[i][j]

    def cell(i, j):
        return cont[i, j] if form == "ndarray" else cont[i][j]

    def overwrite():
        for _ in range(rng.randint(1, s * s)):
            i, j = rng.randrange(s), rng.randrange(s)
            e = _rand_expr(rng)
            if form == "ndarray":
                cont[i, j] = e
            else:
                cont[i][j] = e
    n_decl = 2 if (form != "tuple" and rng.random() < 0.4) else 1
    for d in range(n_decl):
        if d > 0:
            overwrite()                                  # the buffer is re-used for another, different LMI
            desc["lmi_buffer_reuse"] = desc.get("lmi_buffer_reuse", 0) + 1
        pid, xid = C.leaf_maps()
        declared = [[_entry_dump(cell(i, j), pid, xid) for j in range(s)] for i in range(s)]
        target.add_psd_matrix(cont)
        obj = target.list_of_psd[-1]
        pep._c05_decl[id(obj)] = (obj, declared)
        desc["lmi_forms"][form] = desc["lmi_forms"].get(form, 0) + 1
    if form != "tuple" and rng.random() < 0.7:
        overwrite()                                      # ... and modified after the last declaration
        desc["lmi_container_mutated"] = desc.get("lmi_container_mutated", 0) + 1


def declared_psd(pep, p, pid, xid):
    """entries of an LMI as declared (snapshot taken by declare_lmi), else as they are now"""
    rec = getattr(pep, "_c05_decl", {}).get(id(p))
    if rec is not None and rec[0] is p:
        return rec[1]
    return d_psd(p, pid, xid)


def build_program(rng):
    """a small PEP declared through the public API; returns (pep, description)"""
    from PEPit import PEP, Point, Expression
    with warnings.catch_warnings():
        warnings.simplefilter("ignore")
        pep = PEP()
        pep._c05_decl = {}
        desc = dict(classes=[], composite=False, partition=0, n_metrics=0, lmi_forms={})
        funcs = []
        for _ in range(rng.choice([1, 1, 2, 2, 3])):
            name = rng.choice(LMI_CLASSES) if rng.random() < 0.4 else rng.choice(PLAIN_CLASSES)
            funcs.append(pep.declare_function(C.get_class(name), **C.draw_params(rng, name)))
            desc["classes"].append(name)
        x0 = pep.set_initial_point()
        leaves = [x0] + [Point() for _ in range(rng.randint(0, 2))]
        for f, name in zip(funcs, desc["classes"]):
            for _ in range(rng.choice([0, 1, 2, 2, 3])):
                r = rng.random()
                if r < 0.2 and name != "SmoothStronglyConvexQuadraticFunction":
                    f.stationary_point()
                else:
                    f.oracle(C.rand_point(rng, leaves))
            if name == "LinearOperator":
                for _ in range(rng.choice([0, 1, 2])):
                    f.T.gradient(C.rand_point(rng, leaves))
        allf = list(funcs)
        if len(funcs) >= 2 and rng.random() < 0.5:
            comp = funcs[0] + rng.choice([1, 2, 0.5]) * funcs[1]
            comp.oracle(C.rand_point(rng, leaves))
            allf.append(comp)
            desc["composite"] = True
        if rng.random() < 0.3:
            d = rng.choice([2, 2, 3])
            part = pep.declare_block_partition(d=d)
            for x in rng.sample(leaves, k=min(len(leaves), rng.choice([1, 2]))):
                blocks = [part.get_block(x, k) for k in range(d)]
                if rng.random() < 0.5:
                    pep.add_constraint(blocks[0] ** 2 <= 1)
            desc["partition"] = d
        pep.set_initial_condition((x0 - leaves[-1]) ** 2 <= 1)
        for _ in range(rng.choice([0, 1, 2])):
            pep.add_constraint(_rand_cons(rng))
        if rng.random() < 0.15 and pep.list_of_constraints:      # the same object declared twice
            pep.add_constraint(pep.list_of_constraints[0])
        for f in allf:
            for _ in range(rng.choice([0, 0, 1, 2])):
                f.add_constraint(_rand_cons(rng))
            if rng.random() < 0.3:
                declare_lmi(f, pep, rng, desc)
        for _ in range(rng.choice([0, 0, 1, 2])):
            declare_lmi(pep, pep, rng, desc)
        nm = rng.choice([1, 1, 2, 3])
        for k in range(nm):
            r = rng.random()
            if r < 0.25:
                pep.set_performance_metric(Expression())
            elif r < 0.5:
                pep.set_performance_metric((x0 - leaves[-1]) ** 2 + rng.choice([0, 1, -0.5]))
            else:
                pep.set_performance_metric(_rand_expr(rng, rng.choice([1, 2])))
        desc["n_metrics"] = nm
    return pep, desc


def d_cons(c, pid, xid):
    return T.dump_constraint(c, pid, xid)


def d_psd(mx, pid, xid):
    return [[T.dump_edict(e.decomposition_dict, pid, xid) for e in row] for row in mx.matrix_of_expressions]


def snapshot_before(pep):
    """the declared model as PEP.solve finds it (lists are copied; dictionaries are dumped now)"""
    from PEPit import Expression
    from PEPit.function import Function
    from PEPit.block_partition import BlockPartition
    pid, xid = C.leaf_maps()
    snap = dict(
        metrics=[T.dump_edict(e.decomposition_dict, pid, xid) for e in pep.list_of_performance_metrics],
        metric_objs=list(pep.list_of_performance_metrics),
        cons=[d_cons(c, pid, xid) for c in pep.list_of_constraints], cons_objs=list(pep.list_of_constraints),
        psd=[declared_psd(pep, p, pid, xid) for p in pep.list_of_psd], psd_objs=list(pep.list_of_psd),
        funcs=[dict(obj=f, is_leaf=bool(f.get_is_leaf()),
                    class_cons_old=[d_cons(c, pid, xid) for c in f.list_of_class_constraints],
                    class_psd_old=[d_psd(p, pid, xid) for p in f.list_of_class_psd],
                    cons=[d_cons(c, pid, xid) for c in f.list_of_constraints], cons_objs=list(f.list_of_constraints),
                    psd=[declared_psd(pep, p, pid, xid) for p in f.list_of_psd], psd_objs=list(f.list_of_psd))
               for f in Function.list_of_functions],
        parts=[dict(obj=p, cons_old=[d_cons(c, pid, xid) for c in p.list_of_constraints])
               for p in BlockPartition.list_of_partitions],
        expr_ctr=Expression.counter,
        track_c_old=[d_cons(c, pid, xid) for c in pep._list_of_constraints_sent_to_wrapper],
        track_p_old=[d_psd(p, pid, xid) for p in pep._list_of_psd_sent_to_wrapper],
    )
    return snap


def snapshot_at_main_variables(pep, snap):
    """called from wrapper.set_main_variables: class / partition constraints now exist"""
    from PEPit.function import Function
    from PEPit.block_partition import BlockPartition
    pid, xid = C.leaf_maps()
    changed = []
    if len(Function.list_of_functions) != len(snap["funcs"]):
        changed.append("Function.list_of_functions changed length during the preparation phase")
    for fs in snap["funcs"]:
        f = fs["obj"]
        fs["class_cons"] = [d_cons(c, pid, xid) for c in f.list_of_class_constraints]
        fs["class_cons_objs"] = list(f.list_of_class_constraints)
        fs["class_psd"] = [d_psd(p, pid, xid) for p in f.list_of_class_psd]
        fs["class_psd_objs"] = list(f.list_of_class_psd)
        if [id(c) for c in f.list_of_constraints] != [id(c) for c in fs["cons_objs"]] \
                or [id(c) for c in f.list_of_psd] != [id(c) for c in fs["psd_objs"]]:
            changed.append("own constraints of a function changed during the preparation phase")
    for ps in snap["parts"]:
        ps["cons"] = [d_cons(c, pid, xid) for c in ps["obj"].list_of_constraints]
        ps["cons_objs"] = list(ps["obj"].list_of_constraints)
    if len(BlockPartition.list_of_partitions) != len(snap["parts"]):
        changed.append("BlockPartition.list_of_partitions changed length during the preparation phase")
    if [id(c) for c in pep.list_of_constraints] != [id(c) for c in snap["cons_objs"]] \
            or [id(c) for c in pep.list_of_psd] != [id(c) for c in snap["psd_objs"]] \
            or [id(c) for c in pep.list_of_performance_metrics] != [id(c) for c in snap["metric_objs"]]:
        changed.append("lists of the PEP changed during the preparation phase")
    snap["changed"] = changed


def record_solve(pep, solve=None):
    """solve through the recording wrapper; returns (snapshot, wrapper)"""
    from . import recording as R
    from PEPit import Expression
    snap = snapshot_before(pep)
    # count the leaf expressions each set_class_constraints creates (instance-level shadowing, removed afterwards)
    patched = []
    for fs in snap["funcs"]:
        f = fs["obj"]
        fs["fresh"] = 0
        if fs["is_leaf"]:
            orig = f.set_class_constraints

            def wrapped(orig=orig, fs=fs):
                before = Expression.counter
                orig()
                fs["fresh"] += Expression.counter - before
            had = "set_class_constraints" in f.__dict__
            f.set_class_constraints = wrapped
            patched.append((f, had, orig))

    def factory(verbose=0):
        w = R.RecordingWrapper(verbose=verbose)
        w.on_main_variables = lambda: snapshot_at_main_variables(pep, snap)
        return w
    try:
        with warnings.catch_warnings():
            warnings.simplefilter("ignore")
            w, out = R.solve_with(pep, factory, solve=solve)
    finally:
        for f, had, orig in patched:
            if had:
                f.set_class_constraints = orig
            else:
                del f.__dict__["set_class_constraints"]
    snap["returned"] = out
    return snap, w


# ---- Coq literal of the snapshot
def cq_cons(c):
    return "(%s, %s)" % (C.coq_ed(c[0]), "Ineq" if c[1] == 0 else "Equ")


def cq_psd(rows):
    return coq_list([coq_list([C.coq_ed(e) for e in row]) for row in rows])


def coq_model(snap):
    funcs = []
    for k, fs in enumerate(snap["funcs"]):
        funcs.append("mkFunc %s %s %s %s %s %s %s %s %s" % (
            coq_nat(k), "true" if fs["is_leaf"] else "false",
            coq_list([cq_cons(c) for c in fs["class_cons_old"]]), coq_list([cq_psd(p) for p in fs["class_psd_old"]]),
            coq_list([cq_cons(c) for c in fs["class_cons"]]), coq_list([cq_psd(p) for p in fs["class_psd"]]),
            coq_nat(fs["fresh"]),
            coq_list([cq_cons(c) for c in fs["cons"]]), coq_list([cq_psd(p) for p in fs["psd"]])))
    parts = ["mkPart %s %s %s" % (coq_nat(k), coq_list([cq_cons(c) for c in ps["cons_old"]]),
                                 coq_list([cq_cons(c) for c in ps["cons"]])) for k, ps in enumerate(snap["parts"])]
    return "mkModel %s %s %s %s %s %s %s %s" % (
        coq_list([C.coq_ed(e) for e in snap["metrics"]]), coq_list([cq_cons(c) for c in snap["cons"]]),
        coq_list([cq_psd(p) for p in snap["psd"]]), coq_list(funcs), coq_list(parts), coq_nat(snap["expr_ctr"]),
        coq_list([cq_cons(c) for c in snap["track_c_old"]]), coq_list([cq_psd(p) for p in snap["track_p_old"]]))


RUN_COL = "fun m => dump_result (collect solve_plan m)"
TYPE_COL = "model"


def recorded_dump(pep, w):
    """what the wrapper received, in the shape of Model.Collect.dump_result"""
    pid, xid = C.leaf_maps()
    sent, fdim, obj, n_after = [], None, None, 0
    for ev in w.events:
        if ev[0] == "main_variables":
            if fdim is not None or sent:
                return "error-main-variables-late"
            fdim = ev[1]
        elif ev[0] == "send":
            if fdim is None or obj is not None:
                n_after += 1
            sent.append([0, d_cons(ev[1], pid, xid)])
        elif ev[0] == "lmi":
            if fdim is None or obj is not None:
                n_after += 1
            sent.append([1, d_psd(ev[2], pid, xid)])
        elif ev[0] == "generate":
            obj = ev[1].counter if ev[1] is not None and ev[1].get_is_leaf() else -1
    if fdim is None or obj is None or n_after:
        return "error"
    return [sent, [d_cons(c, pid, xid) for c in pep._list_of_constraints_sent_to_wrapper],
            [d_psd(p, pid, xid) for p in pep._list_of_psd_sent_to_wrapper], obj, fdim]


def multiset_check(pep, snap, w):
    """implementation-only oracle: every declared object is sent exactly as often as it is declared, with its
    sense; the only other objects sent are one `objective - metric <= 0` row per metric"""
    from collections import Counter
    declared = Counter()
    what = {}

    def decl(objs, label):
        for o in objs:
            declared[id(o)] += 1
            what[id(o)] = label
    decl(snap["cons_objs"], "pep.list_of_constraints")
    decl(snap["psd_objs"], "pep.list_of_psd")
    for k, fs in enumerate(snap["funcs"]):
        if fs["is_leaf"]:
            decl(fs["class_cons_objs"], "function %d class constraint" % k)
            decl(fs["class_psd_objs"], "function %d class LMI" % k)
        decl(fs["cons_objs"], "function %d own constraint" % k)
        decl(fs["psd_objs"], "function %d own LMI" % k)
    for k, ps in enumerate(snap["parts"]):
        decl(ps["cons_objs"], "partition %d constraint" % k)
    sent = Counter()
    extra = []
    decl = getattr(pep, "_c05_decl", {})
    pid, xid = C.leaf_maps()
    for ev in w.events:
        if ev[0] in ("send", "lmi"):
            o = ev[-1]
            if ev[0] == "lmi" and id(o) in decl and decl[id(o)][0] is o:
                now = d_psd(o, pid, xid)
                if _plain(now) != _plain(decl[id(o)][1]):
                    return dict(kind="lmi-sent-differs-from-its-declaration", what=what.get(id(o)),
                                declared=_plain(decl[id(o)][1]), sent=_plain(now))
            if id(o) in declared:
                sent[id(o)] += 1
                kind_ok = (type(o).__name__ == ("Constraint" if ev[0] == "send" else "PSDMatrix"))
                if not kind_ok:
                    return dict(kind="sent-through-wrong-method", what=what[id(o)])
            else:
                extra.append(o)
    for k, n in declared.items():
        if sent[k] != n:
            return dict(kind="multiplicity-differs", what=what[k], declared=n, sent=sent[k])
    # the extra rows are exactly the metric rows
    if len(extra) != len(snap["metric_objs"]):
        return dict(kind="undeclared-objects-sent", n_extra=len(extra), n_metrics=len(snap["metric_objs"]))
    obj = w.objective
    pid, xid = C.leaf_maps()
    for row, metric in zip(extra, snap["metric_objs"]):
        if type(row).__name__ != "Constraint" or row.equality_or_inequality != "inequality":
            return dict(kind="metric-row-sense", got=getattr(row, "equality_or_inequality", type(row).__name__))
        want = {}
        for k, v in [((0, obj.counter), Fraction(1))] + [(tuple(k), -v.v) for k, v in
                                                         T.dump_edict(metric.decomposition_dict, pid, xid)]:
            want[k] = want.get(k, Fraction(0)) + v
        got = {}
        for k, v in T.dump_edict(row.expression.decomposition_dict, pid, xid):
            got[tuple(k)] = got.get(tuple(k), Fraction(0)) + v.v
        want = {k: v for k, v in want.items() if v != 0}
        got = {k: v for k, v in got.items() if v != 0}
        if want != got:
            return dict(kind="metric-row-is-not-objective-minus-metric", got=got, want=want)
    if [id(c) for c in pep._list_of_constraints_sent_to_wrapper] != [id(ev[1]) for ev in w.events if ev[0] == "send"]:
        return dict(kind="tracking-list-differs-from-sent-constraints")
    if [id(c) for c in pep._list_of_psd_sent_to_wrapper] != [id(ev[2]) for ev in w.events if ev[0] == "lmi"]:
        return dict(kind="tracking-list-differs-from-sent-lmis")
    if snap.get("changed"):
        return dict(kind="declared-model-changed-during-preparation", what=snap["changed"])
    return None


def regeneration_check(snap):
    """implementation-only oracle: the class constraints / LMIs a leaf function sent at this solve are the ones its
    add_class_constraints() generates from its CURRENT samples (nothing kept from an earlier solve, nothing missing).
    The function's lists and tables are restored afterwards."""
    for k, fs in enumerate(snap["funcs"]):
        if not fs["is_leaf"] or "class_cons" not in fs:
            continue
        f = fs["obj"]
        saved = (f.list_of_class_constraints, f.list_of_class_psd, dict(f.tables_of_constraints))
        try:
            f.list_of_class_constraints, f.list_of_class_psd = list(), list()
            with warnings.catch_warnings():
                warnings.simplefilter("ignore")
                f.add_class_constraints()
            pid, xid = C.leaf_maps()
            cons = [d_cons(c, pid, xid) for c in f.list_of_class_constraints]
            psd = [d_psd(p, pid, xid) for p in f.list_of_class_psd]
        finally:
            f.list_of_class_constraints, f.list_of_class_psd = saved[0], saved[1]
            f.tables_of_constraints = saved[2]
        if _plain(cons) != _plain(fs["class_cons"]) or _plain(psd) != _plain(fs["class_psd"]):
            return dict(kind="class-constraints-sent-differ-from-regenerated", function=k,
                        cls=type(f).__name__, n_sent=[len(fs["class_cons"]), len(fs["class_psd"])],
                        n_regenerated=[len(cons), len(psd)])
    return None


def _plain(x):
    if isinstance(x, Q):
        return x.v
    if isinstance(x, (list, tuple)):
        return [_plain(y) for y in x]
    return x


# ---- cvxpy
def frac_eval_expr(e, G, F):
    """exact value of a PEPit Expression at (G, F) from its own decomposition dict"""
    acc = Fraction(0)
    for k, v in e.decomposition_dict.items():
        w = to_fraction(v)
        if isinstance(k, tuple):
            acc += w * G[k[0].counter][k[1].counter]
        elif type(k).__name__ == "Expression":
            acc += w * F[k.counter]
        else:
            acc += w
    return acc


def close(a, exact, scale):
    return abs(float(a) - float(exact)) <= 1e-9 * (1.0 + abs(float(exact)) + scale)


def cvxpy_check(pep, rng):
    """build the cvxpy problem with the real wrapper (no solve) and evaluate every constraint.
    returns (n_rows_checked, problem | None)"""
    import numpy as np
    from . import recording as R
    from PEPit import Point, Expression
    from PEPit.constraint import Constraint
    with warnings.catch_warnings():
        warnings.simplefilter("ignore")
        w, out = R.solve_with(pep, R.NoSolveCvxpyWrapper)
    if out is not None:
        return 0, dict(kind="cvxpy-early-exit-failed")
    n, m = Point.counter, Expression.counter
    if w.G.shape != (n, n) or w.F.shape != (m,):
        return 0, dict(kind="cvxpy-variable-shapes", G=list(w.G.shape), F=list(w.F.shape), n=n, m=m)
    cons = w._list_of_solver_constraints
    if w.prob is None or list(w.prob.constraints) != list(cons):
        return 0, dict(kind="cvxpy-problem-constraints-differ-from-tracked-list")
    if type(cons[0]).__name__ != "PSD" or cons[0].args[0].shape != (n, n):
        return 0, dict(kind="cvxpy-first-constraint-is-not-G-psd")
    if type(w.prob.objective).__name__ != "Maximize":
        return 0, dict(kind="cvxpy-objective-not-maximised")
    rows = 0
    for trial in range(2):
        G, F = rand_GF(rng, n, m)
        w.G.value = np.array([[float(v) for v in row] for row in G])
        w.F.value = np.array([float(v) for v in F])
        scale = float(sum(abs(v) for row in G for v in row) + sum(abs(v) for v in F))
        got = w.prob.objective.args[0].value
        if not close(got, F[pep.objective.counter], scale):
            return rows, dict(kind="cvxpy-objective-value", got=float(got), want=str(F[pep.objective.counter]))
        pos = 1
        for o in w._list_of_constraints_sent_to_solver:
            if isinstance(o, Constraint):
                c = cons[pos]
                pos += 1
                want_type = "Inequality" if o.equality_or_inequality == "inequality" else "Equality"
                if type(c).__name__ != want_type:
                    return rows, dict(kind="cvxpy-sense", got=type(c).__name__, want=want_type)
                if not (c.args[1].is_constant() and float(c.args[1].value) == 0.0):
                    return rows, dict(kind="cvxpy-right-hand-side-not-zero")
                exact = frac_eval_expr(o.expression, G, F)
                if not close(c.args[0].value, exact, scale):
                    return rows, dict(kind="cvxpy-row-value-differs", got=float(c.args[0].value), want=str(exact),
                                      G=G, F=F)
                rows += 1
            else:
                s = o.shape[0]
                c = cons[pos]
                if type(c).__name__ != "PSD" or c.args[0].shape != (s, s):
                    return rows, dict(kind="cvxpy-lmi-psd-row")
                pos += 1
                for i in range(s):
                    for j in range(s):
                        c = cons[pos]
                        pos += 1
                        if type(c).__name__ != "Equality":
                            return rows, dict(kind="cvxpy-lmi-coupling-sense", got=type(c).__name__)
                        exact = frac_eval_expr(o[i, j], G, F)
                        if not close(c.args[1].value, exact, scale):
                            return rows, dict(kind="cvxpy-lmi-entry-value-differs", i=i, j=j,
                                              got=float(c.args[1].value), want=str(exact), G=G, F=F)
                        rows += 1
        if pos != len(cons):
            return rows, dict(kind="cvxpy-extra-constraints", n=len(cons), consumed=pos)
    return rows, None


def run_program(case_seed, with_cvxpy, two_solves=None):
    """-> dict(desc, lit, dump, problem, cvxpy_rows)"""
    rng = random.Random(case_seed)
    pep, desc = build_program(rng)
    if two_solves is None:
        two_solves = rng.random() < 0.3
    desc["second_solve"] = two_solves
    if two_solves:           # stale class / partition / tracking lists are non-empty at the examined solve
        record_solve(pep)
        with warnings.catch_warnings():
            warnings.simplefilter("ignore")
            if rng.random() < 0.5:
                pep.add_constraint(_rand_cons(rng))
            if rng.random() < 0.6:      # one more step of the method: a leaf function evaluated at a new point
                from PEPit import Point
                leaf_fs = [f for f in pep.list_of_functions]
                f = rng.choice(leaf_fs)
                f.oracle(C.rand_point(rng, list(Point.list_of_leaf_points)[:3]))
                desc["extended_between_solves"] = True
    snap, w = record_solve(pep)
    problem = None
    if snap["returned"] is not None:
        problem = dict(kind="recording-early-exit-failed")
    dump = recorded_dump(pep, w)
    lit = coq_model(snap)
    if problem is None:
        problem = multiset_check(pep, snap, w)
    if problem is None:
        problem = regeneration_check(snap)
    rows = 0
    if with_cvxpy and problem is None:
        rows, problem = cvxpy_check(pep, rng)
    n_sent = len(dump[0]) if isinstance(dump, list) else 0
    desc.update(n_sent=n_sent, n_lmi=sum(1 for it in dump[0] if it[0] == 1) if isinstance(dump, list) else 0,
                n_functions=len(snap["funcs"]), fresh=sum(fs["fresh"] for fs in snap["funcs"]))
    return dict(desc=desc, lit=lit, dump=dump, problem=problem, cvxpy_rows=rows)


def stream_programs(tier, seed, corpus):
    n_cases = 300 if tier == "quick" else 3000
    n_cvx = 120 if tier == "quick" else 800
    seeds = [c["case_seed"] for c in corpus if c.get("kind") == "program"]
    base = seed * 104729 + 50500
    k = 0
    while len(seeds) < n_cases:
        seeds.append(base + k)
        k += 1
    cases, keep, problems, cvx_problems = [], [], [], []
    hist = dict(classes={}, composite=0, partition=0, second_solve=0, extended_between_solves=0, lmi_items=0, fresh_leaves=0, metrics={})
    distinct = set()
    cvx_rows = cvx_progs = 0
    sizes = []
    for idx, cs in enumerate(seeds):
        with_cvx = idx < n_cvx
        try:
            r = run_program(cs, with_cvx)
        except Exception as e:
            import traceback
            problems.append(dict(kind="program-raised", case_seed=cs, error=repr(e),
                                 trace=traceback.format_exc()[-800:]))
            continue
        if r["problem"]:
            (cvx_problems if r["problem"]["kind"].startswith("cvxpy") else problems).append(
                dict(case_seed=cs, program=r["desc"], **r["problem"]))
        cases.append((r["lit"], r["dump"]))
        keep.append((cs, r))
        d = r["desc"]
        for c in d["classes"]:
            hist["classes"][c] = hist["classes"].get(c, 0) + 1
        hist["composite"] += int(d["composite"])
        hist["partition"] += int(bool(d["partition"]))
        hist["second_solve"] += int(d["second_solve"])
        hist["extended_between_solves"] += int(bool(d.get("extended_between_solves")))
        hist["lmi_items"] += d["n_lmi"]
        for fm, n in d.get("lmi_forms", {}).items():
            hist.setdefault("lmi_declared_from", {})[fm] = hist.setdefault("lmi_declared_from", {}).get(fm, 0) + n
        hist["lmi_buffer_reuse"] = hist.get("lmi_buffer_reuse", 0) + d.get("lmi_buffer_reuse", 0)
        hist["lmi_container_mutated"] = hist.get("lmi_container_mutated", 0) + d.get("lmi_container_mutated", 0)
        hist["fresh_leaves"] += int(d["fresh"] > 0)
        hist["metrics"][d["n_metrics"]] = hist["metrics"].get(d["n_metrics"], 0) + 1
        sizes.append(d["n_sent"])
        if d["n_sent"] >= 4:
            distinct.add(r["lit"])
        if with_cvx:
            cvx_progs += 1
            cvx_rows += r["cvxpy_rows"]
    bad = run_cases("c05c", IMPORTS, RUN_COL, cases, shard=12, input_type=TYPE_COL)
    mism = []
    for i in bad[:3]:
        cs, r = keep[i]
        mism.append(dict(kind="model-differs", case_seed=cs, program=r["desc"], implementation=_short(r["dump"]),
                         model=model_output(IMPORTS, RUN_COL, cases[i][0])[:3000]))
    hist.update(sent_min=min(sizes) if sizes else 0, sent_max=max(sizes) if sizes else 0,
                sent_mean=round(sum(sizes) / max(1, len(sizes)), 1))
    s1 = dict(name="collect", evaluations=len(cases), distinct_nontrivial=len(distinct),
              rule="seeded random PEP programs (1-3 functions of 14 classes incl. 4 with class LMIs, composite "
                   "functions, own constraints / LMIs on pep and functions, 1-3 metrics, block partitions, second "
                   "solves) recorded through a Wrapper subclass; non-trivial = at least 4 items sent; distinct by "
                   "declared model",
              mismatches=mism, n_mismatch=len(bad), problems=problems[:5], n_problems=len(problems),
              samples=[dict(case_seed=cs, program=r["desc"], first_items=_short(r["dump"])) for cs, r in keep[:2]],
              distribution=hist)
    s2 = dict(name="cvxpy", evaluations=cvx_rows, distinct_nontrivial=cvx_progs,
              rule="rows (scalar constraints and LMI entries) of the cvxpy problems built by the real CvxpyWrapper "
                   "for the first programs of the collect stream, each evaluated at 2 random rational symmetric (G, F) "
                   "and compared with the exact value of the PEPit expression (tolerance 1e-9 relative); "
                   "distinct_nontrivial = number of programs",
              mismatches=[], n_mismatch=0, problems=cvx_problems[:5], n_problems=len(cvx_problems),
              samples=[dict(programs=cvx_progs, rows=cvx_rows)],
              distribution=dict(programs=cvx_progs, rows=cvx_rows))
    return [s1, s2]


def _short(dump):
    if not isinstance(dump, list):
        return dump
    return dict(n_sent=len(dump[0]), first=dump[0][:2], objective=dump[3], fdim=dump[4])


# =============================================================================================== shipped models
class Skip(Exception):
    pass


def shipped_files():
    import glob
    import os
    from .common import REPO
    ex = sorted(p for p in glob.glob(os.path.join(REPO, "PEPit", "examples", "*", "*.py"))
                if not p.endswith("__init__.py"))
    cx = sorted(p for p in glob.glob(os.path.join(REPO, "tests", "additional_complexified_examples_tests", "*.py"))
                if not p.endswith("__init__.py"))
    return [os.path.relpath(p, REPO) for p in ex + cx]


def load_shipped(rel):
    """-> (wc function, kwargs of the call in the __main__ block)"""
    import ast
    import importlib.util
    import inspect
    import os
    from .common import REPO
    from . import concrete
    path = os.path.join(REPO, rel)
    tree = ast.parse(open(path).read(), path)
    main_block = None
    fname = None
    for node in tree.body:
        if isinstance(node, ast.If) and isinstance(node.test, ast.Compare) and isinstance(node.test.left, ast.Name) \
                and node.test.left.id == "__name__":
            main_block = node
        if isinstance(node, ast.FunctionDef) and node.name.startswith("wc_"):
            fname = node.name
    if fname is None:
        raise Skip("no wc_* function")
    if main_block is None:
        raise Skip("no __main__ block")
    spec = importlib.util.spec_from_file_location("c05_shipped_" + os.path.basename(rel)[:-3], path)
    mod = importlib.util.module_from_spec(spec)
    try:
        spec.loader.exec_module(mod)
    except Exception as e:
        raise Skip("import failed: %r" % (e,))
    kwargs = concrete.main_kwargs(main_block, fname, dict(vars(mod)))
    if kwargs is None:
        raise Skip("arguments of the __main__ call are not literal keyword arguments")
    fn = getattr(mod, fname)
    params = inspect.signature(fn).parameters
    kwargs = dict(kwargs)
    if "verbose" in params:
        kwargs["verbose"] = -1
    if "wrapper" in params:
        from . import recording as R
        kwargs["wrapper"] = R.NAME
    return fn, kwargs


def run_shipped(rel):
    """-> list of recorded solves [dict(lit, dump, problem, n_sent, ...)]; raises Skip"""
    import io
    import contextlib
    from . import recording as R
    fn, kwargs = load_shipped(rel)
    solves = []

    def handler(pep, orig):
        snap, w = record_solve(pep, solve=orig)
        problem = None
        if snap["returned"] is not None:
            problem = dict(kind="recording-early-exit-failed")
        dump = recorded_dump(pep, w)
        if problem is None:
            problem = multiset_check(pep, snap, w)
        if problem is None:
            problem = regeneration_check(snap)
        solves.append(dict(snap=snap, lit=None, dump=dump, problem=problem,
                           n_sent=len(dump[0]) if isinstance(dump, list) else 0,
                           n_lmi=sum(1 for it in dump[0] if it[0] == 1) if isinstance(dump, list) else 0,
                           n_functions=len(snap["funcs"]), n_metrics=len(snap["metrics"]),
                           n_partitions=len(snap["parts"])))
        return None
    crash = None
    with R.InterceptSolve(handler), warnings.catch_warnings(), contextlib.redirect_stdout(io.StringIO()):
        warnings.simplefilter("ignore")
        try:
            fn(**kwargs)
        except Exception as e:      # the example formats / post-processes a value that is None here
            crash = repr(e)[:200]
    if not solves:
        raise Skip("no solve was reached: %s" % crash)
    return solves, crash


class _Tbl(object):
    """distinct decomposition dictionaries of one recorded solve, each written once in the generated Coq file"""
    def __init__(self):
        self.index = {}
        self.items = []

    def ref(self, ed):
        key = tuple((tuple(k), v.v) for k, v in ed)
        if key not in self.index:
            self.index[key] = len(self.items)
            self.items.append(ed)
        return self.index[key]


def _tbl_model(snap, tb):
    E = lambda ed: "(T %d)" % tb.ref(ed)
    cons = lambda c: "(%s, %s)" % (E(c[0]), "Ineq" if c[1] == 0 else "Equ")
    psd = lambda rows: coq_list([coq_list([E(e) for e in row]) for row in rows])
    funcs = []
    for k, fs in enumerate(snap["funcs"]):
        funcs.append("mkFunc %s %s %s %s %s %s %s %s %s" % (
            coq_nat(k), "true" if fs["is_leaf"] else "false",
            coq_list([cons(c) for c in fs["class_cons_old"]]), coq_list([psd(p) for p in fs["class_psd_old"]]),
            coq_list([cons(c) for c in fs["class_cons"]]), coq_list([psd(p) for p in fs["class_psd"]]),
            coq_nat(fs["fresh"]), coq_list([cons(c) for c in fs["cons"]]), coq_list([psd(p) for p in fs["psd"]])))
    parts = ["mkPart %s %s %s" % (coq_nat(k), coq_list([cons(c) for c in ps["cons_old"]]),
                                 coq_list([cons(c) for c in ps["cons"]])) for k, ps in enumerate(snap["parts"])]
    return "mkModel %s %s %s %s %s %s %s %s" % (
        coq_list([E(e) for e in snap["metrics"]]), coq_list([cons(c) for c in snap["cons"]]),
        coq_list([psd(p) for p in snap["psd"]]), coq_list(funcs), coq_list(parts), coq_nat(snap["expr_ctr"]),
        coq_list([cons(c) for c in snap["track_c_old"]]), coq_list([psd(p) for p in snap["track_p_old"]]))


def _tbl_dump(dump, tb):
    if not isinstance(dump, list):
        return 'DS "%s"' % dump
    E = lambda ed: "dump_edict (T %d)" % tb.ref(ed)
    cons = lambda c: "DL [%s; DZ %d%%Z]" % (E(c[0]), c[1])
    psd = lambda rows: "DL " + coq_list(["DL " + coq_list([E(e) for e in row]) for row in rows])
    sent = ["DL [DZ %d%%Z; %s]" % (it[0], cons(it[1]) if it[0] == 0 else psd(it[1])) for it in dump[0]]
    return "DL [DL %s; DL %s; DL %s; DZ %d%%Z; DZ %d%%Z]" % (
        coq_list(sent), coq_list([cons(c) for c in dump[1]]), coq_list([psd(p) for p in dump[2]]), dump[3], dump[4])


def run_shared_cases(name, cases):
    """cases: [(snapshot, recorded dump)].  One Coq file per case: the table of distinct dictionaries, the model and
    the expected dump written over that table, compared by D_eqb under vm_compute.  Returns indices that differ."""
    import os
    import re
    import subprocess
    from .common import workdir, COQ, NPROC, CoqError
    wd = workdir()
    jobs = []
    for k, (snap, dump) in enumerate(cases):
        tb = _Tbl()
        model = _tbl_model(snap, tb)
        expd = _tbl_dump(dump, tb)
        path = os.path.join(wd, "%s_%d.v" % (name, k))
        with open(path, "w") as f:
            f.write("From Coq Require Import List QArith ZArith String Bool.\n")
            f.write("From PV Require Import Model.Dict Model.Terms Model.Dump.\n" + "\n".join(IMPORTS) + "\n")
            f.write("Import ListNotations.\nOpen Scope string_scope.\n")
            # number notations are the expensive part of elaborating a literal: every distinct key and every
            # distinct rational is written once, the dictionaries only mention their names
            kn, qn = {}, {}
            rows = []
            for ed in tb.items:
                ent = []
                for key, v in ed:
                    kk = C.coq_ek(key)
                    qq = coq_q(v.v)
                    if kk not in kn:
                        kn[kk] = "k%d" % len(kn)
                    if qq not in qn:
                        qn[qq] = "q%d" % len(qn)
                    ent.append("(%s, %s)" % (kn[kk], qn[qq]))
                rows.append("[" + "; ".join(ent) + "]")
            for kk, nm in kn.items():
                f.write("Definition %s : ekey := %s.\n" % (nm, kk))
            for qq, nm in qn.items():
                f.write("Definition %s : Q := %s.\n" % (nm, qq))
            f.write("Definition tbl : list edict := [\n%s\n].\n" % ";\n".join(rows))
            f.write("Definition T (k : nat) : edict := nth k tbl [].\n")
            f.write("Definition inp : model := %s.\n" % model)
            f.write("Definition expd : D := %s.\n" % expd)
            f.write("Definition result := Eval vm_compute in (D_eqb (dump_result (collect solve_plan inp)) expd).\n")
            f.write("Print result.\n")
        jobs.append((k, path, os.path.getsize(path)))
    bad = []
    pending = sorted(jobs, key=lambda j: -j[2])      # largest first
    running = []
    while pending or running:
        while pending and len(running) < NPROC:
            k, path, _ = pending.pop(0)
            running.append((k, path, subprocess.Popen(["coqc", "-R", COQ, "PV", "-w", "-all", path],
                                                      stdout=subprocess.PIPE, stderr=subprocess.PIPE, text=True, cwd=wd)))
        k, path, proc = running.pop(0)
        out, err = proc.communicate()
        if proc.returncode != 0:
            raise CoqError("coqc failed on %s:\n%s\n%s" % (path, out[-1500:], err[-2500:]))
        m = re.search(r"result\s*=\s*(true|false)", out)
        if not m:
            raise CoqError("unparsable coqc output for %s: %s" % (path, out[-1500:]))
        if m.group(1) == "false":
            bad.append(k)
    return sorted(bad)


def stream_shipped(tier, seed, corpus):
    """every file is run and checked by the implementation-only oracle (cheap); the comparison with the model is
    made on all recorded solves (thorough) or on a seeded subset of 25 files (quick) that contains every file with
    several metrics, LMIs or a partition (up to 15) and is filled with random others of at most 300 items"""
    files = shipped_files()
    files = [c["example"] for c in corpus if c.get("kind") == "shipped" and c["example"] in files] + files
    recorded, problems, skipped = [], [], {}
    n_after_crash = 0
    for rel in files:
        try:
            solves, crash = run_shipped(rel)
        except Skip as e:
            skipped[rel] = str(e)
            continue
        n_after_crash += int(crash is not None)
        for k, r in enumerate(solves):
            if r["problem"]:
                problems.append(dict(example=rel, solve_index=k, **r["problem"]))
            recorded.append((rel, k, r))
    if tier == "quick":
        rng = random.Random(seed * 31 + 55)
        by_file = {}
        for rel, k, r in recorded:
            by_file.setdefault(rel, []).append(r)
        featured = sorted(rel for rel, rs in by_file.items()
                          if any(r["n_metrics"] > 1 or r["n_lmi"] > 0 or r["n_partitions"] > 0 for r in rs)
                          and all(r["n_sent"] <= 300 for r in rs))
        rng.shuffle(featured)
        chosen = featured[:15]
        rest = sorted(rel for rel, rs in by_file.items() if rel not in chosen and all(r["n_sent"] <= 300 for r in rs))
        chosen += rng.sample(rest, min(len(rest), 25 - len(chosen)))
        chosen = set(chosen)
    else:
        chosen = set(rel for rel, _, _ in recorded)
    keep = [(rel, k, r) for rel, k, r in recorded if rel in chosen]
    cases = [(r["snap"], r["dump"]) for _, _, r in keep]
    sizes = [r["n_sent"] for _, _, r in keep]
    bad = run_shared_cases("c05s", cases) if cases else []
    mism = [dict(kind="model-differs", example=keep[i][0], solve_index=keep[i][1],
                 implementation=_short(keep[i][2]["dump"]),
                 model=model_output(IMPORTS, RUN_COL, coq_model(cases[i][0]))[:3000]) for i in bad[:3]]
    return dict(name="shipped-models", evaluations=len(cases),
                distinct_nontrivial=len(set(rel for rel, _, r in keep if r["n_sent"] >= 4)),
                rule="recorded solves of the shipped example files (PEPit/examples, 83) and complexified models "
                     "(tests/additional_complexified_examples_tests, 13): wc_* called with the arguments of its "
                     "__main__ block, PEP.solve routed to the recording wrapper.  Every file is checked by the "
                     "implementation-only oracle; evaluations = recorded solves compared with Model/Collect.v on the "
                     "generated plan (quick: seeded subset of 25 files containing the multi-metric / LMI / partition "
                     "ones; thorough: all); distinct_nontrivial = compared files with at least 4 items sent",
                mismatches=mism, n_mismatch=len(bad), problems=problems[:5], n_problems=len(problems),
                samples=[dict(example=rel, solve_index=k, first_items=_short(r["dump"])) for rel, k, r in keep[:2]],
                distribution=dict(files=len(set(files)), files_recorded=len(set(rel for rel, _, _ in recorded)),
                                  solves_checked_by_oracle=len(recorded), files_compared_with_model=len(chosen),
                                  skipped=skipped, crashed_after_solve=n_after_crash,
                                  sent_min=min(sizes) if sizes else 0, sent_max=max(sizes) if sizes else 0,
                                  lmi_items=sum(r["n_lmi"] for _, _, r in keep),
                                  with_partition=sum(1 for _, _, r in keep if r["n_partitions"]),
                                  multi_metric=sum(1 for _, _, r in keep if r["n_metrics"] > 1)))


# =============================================================================================== driver API
def stream_mosek(tier, seed):
    """the MOSEK back-end of the property: real PEP.solve(wrapper='mosek') on the recording stand-in, every Task call
    with every argument against Model/Mosek.v's emission (machinery of harness/p_c11.py, own seed; models with LMIs
    before, between and after scalar constraints, class LMIs, function-level LMIs) -- seed C05-10"""
    from . import p_c11
    p_c11.mosek()
    rng = random.Random(seed * 48611 + 505)
    specs = p_c11.gen_specs(rng, 40 if tier == "quick" else 300)
    r = p_c11.stream_logs("mosek-call-log", tier, seed, specs, [None] * len(specs),
                          "seeded random models sent through the real PEP.solve(wrapper='mosek') on the stand-in; compared "
                          "with Model/Mosek.v: every Task call with every argument (row indices, bound keys, sparse "
                          "triples, bar-variable indices); non-trivial = at least 3 rows; distinct by the model's input")
    # findings of the MOSEK path that belong to C11 / C16 (status handling) are not C05's subject
    r["problems"] = [p for p in r["problems"] if p.get("kind") == "model-differs"]
    r["n_problems"] = len(r["problems"])
    return r


def correspondence(tier, seed, corpus=()):
    corpus = list(corpus or [])
    return [stream_matrices(tier, seed, corpus)] + stream_programs(tier, seed, corpus) + \
        [stream_shipped(tier, seed, corpus), stream_mosek(tier, seed)]


def search(tier, seed):
    """failing-input search on the implementation alone"""
    rng = random.Random(seed + 50505)
    for _ in range(3000 if tier == "quick" else 30000):
        np_, nx_, t = gen_expr_case(rng)
        try:
            dump, lit, items, leaf, nm = impl_matrices(np_, nx_, t)
        except Exception as e:
            return dict(kind="matrices-raised", np=np_, nx=nx_, tree=t, error=repr(e))
        bad = matrices_semantic_check(dump, items, nm, rng)
        if bad:
            return dict(np=np_, nx=nx_, tree=t, **bad)
    base = seed * 7 + 999331
    for k in range(150 if tier == "quick" else 1500):
        try:
            r = run_program(base + k, with_cvxpy=(k < 40))
        except Exception as e:
            return dict(kind="program-raised", case_seed=base + k, error=repr(e))
        if r["problem"]:
            return dict(case_seed=base + k, program=r["desc"], **r["problem"])
    return None


def known_findings(known):
    out = []
    for k in known:
        try:
            still = replay(dict(k.get("trigger", {})))
        except Exception:
            still = True
        out.append((k["id"], still, k.get("what", "")))
    return out


def is_known(payload, known):
    for k in known:
        tr = k.get("trigger", {})
        if tr.get("kind") and tr.get("kind") == payload.get("kind") and \
                all(payload.get(f) == v for f, v in tr.items() if f in ("tree", "np", "nx", "case_seed", "example")):
            return k["id"]
    return None


def replay(payload):
    """True iff the stored case still fails on the current implementation"""
    rng = random.Random(1)
    if "tree" in payload:
        t = _detuple(payload["tree"])
        try:
            dump, lit, items, leaf, nm = impl_matrices(payload["np"], payload["nx"], t)
        except Exception:
            return True
        if matrices_semantic_check(dump, items, nm, rng):
            return True
        return bool(run_cases("c05r", IMPORTS, RUN_MAT, [(lit, dump)], input_type=TYPE_MAT))
    if "example" in payload:
        try:
            solves, _ = run_shipped(payload["example"])
        except Skip:
            return False
        except Exception:
            return True
        if any(r["problem"] for r in solves):
            return True
        return bool(run_shared_cases("c05r", [(r["snap"], r["dump"]) for r in solves]))
    if "case_seed" in payload:
        try:
            r = run_program(payload["case_seed"], with_cvxpy=True)
        except Exception:
            return True
        if r["problem"]:
            return True
        return bool(run_cases("c05r", IMPORTS, RUN_COL, [(r["lit"], r["dump"])], input_type=TYPE_COL))
    return False


def _detuple(x):
    if isinstance(x, list):
        return tuple(_detuple(y) for y in x)
    return x
