"""C06 — point / expression algebra is a faithful vector-space and inner-product calculus.

Tie: random DSL trees are built with the real operators and with Model/Terms.compile; the resulting
dictionaries (keys in order, values exactly) and constraint senses must agree.  The no-mutation clause is a generated
obligation over the sources (translator/tr_purity.py -> Gen/Purity.v, C06_operators_do_not_write_operands).
Search: the implementation's result is evaluated under random rational valuations of the leaves and
compared with the mathematical meaning of the tree; operands are snapshotted for the no-mutation
clause; the operand-kind table is exercised exhaustively."""
import random
from fractions import Fraction

from . import terms as T
from .common import run_cases, model_output, coq_nat, Q

GEN_DEPS = ["Purity.v"]
TRUSTED = [
    "translator/tr_purity.py -> Gen/Purity.v (theorem C06_operators_do_not_write_operands): a conservative, fail-closed, "
    "flow-insensitive SYNTACTIC alias analysis of the operator dunders of Point / Expression (incl. any in-place dunder), of "
    "Point / Expression / Constraint __init__, of merge_dict / prune_dict / multiply_dicts / symmetrize_dict and of every "
    "other method of the three classes they call on an operand. Every parameter, and everything read out of a parameter, "
    "of a fresh container or of a call result (attribute, item, loop / comprehension variable, .get/.items/..), counts as "
    "operand-owned; only displays, comprehensions, dict()/list()/.., x.copy(), copy.copy(x), results of the analysed helpers "
    "(each proved to return a fresh dict) and of the three constructors count as fresh. It is an analysis of the source "
    "text, not a proof about the Python heap. Its limits: (1) operator syntax on operands (-x, a - b, a <= b, a * c) is "
    "taken to dispatch to the analysed operator methods or to immutable numbers - an operand of a foreign class with a "
    "mutating __neg__ / __rsub__ is outside it; (2) built-ins listed as pure (isinstance, type, len, str.format, print, "
    "dict(), sorted(), min/max/sum, exception constructors, ..) are trusted not to call mutating hooks (__len__, __hash__, "
    "__format__, __iter__) of the operands; (3) aliasing through process-global state is not followed: a call that "
    "receives no operand-derived argument is assumed not to reach the operands (e.g. through Point.list_of_leaf_points), and "
    "writes through global chains other than `Cls.attr = ..` / `Cls.registry.append(..)` are rejected rather than followed; "
    "(4) monkey-patching of the three classes or of the helpers from OTHER modules is not seen (inside the four analysed "
    "files, decorated methods / properties, __getattr__/__setattr__/__new__-style hooks, metaclass keywords, base classes "
    "other than object, rebinding of an operator in the class body or at module level ARE rejected); "
    "(5) containers of containers are handled only by over-approximation (whatever is read out of a fresh container is "
    "operand-owned again), so code that really needs a fresh nested container is rejected, not accepted; (6) the analysis "
    "covers the listed files only: code elsewhere in PEPit that mutates a Point / Expression directly (eval() caching "
    "_value, set_name) is not an operator and is outside this obligation. The operand-snapshot test of the "
    "correspondence stream stays as the dynamic cross-check.",
]

NP, NX = 4, 3
IMPORTS = []
RUN = ("fun t => match t with "
       "| inl (inl p) => dump_pdict (compileP (fun _ => 0) (fun v => [(v, 1)]) p) "
       "| inl (inr x) => dump_edict (compileX (fun _ => 0) (fun v => [(v, 1)]) (fun v => [(KF v, 1)]) x) "
       "| inr c => dump_cons (compileC (fun _ => 0) (fun v => [(v, 1)]) (fun v => [(KF v, 1)]) c) end")
INPUT_TYPE = "(pterm + xterm + cterm)"


def fresh_leaves():
    from PEPit import PEP, Point, Expression
    PEP()
    P = [Point() for _ in range(NP)]
    X = [Expression() for _ in range(NX)]
    return P, X


def snapshot(objs):
    return [(id(o.decomposition_dict), list((id(k) if not isinstance(k, tuple) else (id(k[0]), id(k[1])), v)
                                            for k, v in o.decomposition_dict.items())) for o in objs]


def impl_dump(t):
    """build t with the real operators; returns (dump, mutated?)"""
    P, X = fresh_leaves()
    pid = T.IdMap(P)
    xid = T.IdMap(X)
    before = snapshot(P + X)
    obj = T.py_eval(t, P, X)
    mutated = snapshot(P + X) != before
    k = T.kind(t)
    if k == "P":
        assert type(obj).__name__ == "Point"
        return T.dump_pdict(obj.decomposition_dict, pid), mutated
    if k == "X":
        assert type(obj).__name__ == "Expression"
        return T.dump_edict(obj.decomposition_dict, pid, xid), mutated
    assert type(obj).__name__ == "Constraint"
    return T.dump_constraint(obj, pid, xid), mutated


def coq_input(t):
    k = T.kind(t)
    c = T.coq_term(t)
    return {"P": "inl (inl %s)", "X": "inl (inr %s)", "C": "inr %s"}[k] % c


def gen_tree(rng):
    r = rng.random()
    depth = rng.choice([1, 2, 2, 3, 3, 4, 5])
    if r < 0.25:
        return T.gen_point(rng, depth, NP)
    if r < 0.65:
        return T.gen_expr(rng, depth, NP, NX)
    return T.gen_cons(rng, min(depth, 3), NP, NX)


def semantic_check(t, dump, rng):
    """property oracle on the implementation's result: value under random valuations = meaning of the tree"""
    for _ in range(3):
        PV = [[Fraction(rng.randint(-5, 5), rng.choice([1, 2, 3])) for _ in range(3)] for _ in range(NP)]
        XV = [Fraction(rng.randint(-7, 7), rng.choice([1, 2, 5])) for _ in range(NX)]
        want = T.sem(t, PV, XV)
        k = T.kind(t)
        if k == "P":
            got = T.eval_pdict_items([(a, b.v) for a, b in dump], PV)
        elif k == "X":
            got = T.eval_edict_items([(a, b.v) for a, b in dump], PV, XV)
        else:
            got = (T.eval_edict_items([(a, b.v) for a, b in dump[0]], PV, XV), dump[1])
        if got != want:
            return dict(valuation_points=PV, valuation_exprs=XV, meaning=want, implementation=got)
    return None


def gen_near_cancel(rng):
    """trees whose coefficients cancel almost, but not exactly: a*u - (a + 2^-k)*u and variants (all numbers and
    all intermediate results exactly representable, so a dropped tiny coefficient is a change of meaning)"""
    a = rng.choice([1, 2, 3, 0.5, 1.5, -2, 0.25, 7])
    tiny = 2.0 ** -rng.choice([30, 40, 45, 48])
    b = a + tiny * rng.choice([1, -1, 3])
    shape = rng.randrange(7)
    x = ("PVar", rng.randrange(NP))
    y = ("PVar", rng.randrange(NP))
    e = ("XVar", rng.randrange(NX))
    if shape == 0:
        return ("PSub", ("PScalL", a, x), ("PScalL", b, x))
    if shape == 1:
        return ("PAdd", ("PScalR", x, a), ("PScalL", -b, x))
    if shape == 2:
        return ("XSub", ("XScalL", a, e), ("XScalL", b, e))
    if shape == 3:
        return ("XSub", ("XInner", ("PScalL", a, x), y), ("XInner", ("PScalL", b, x), y))
    if shape == 4:
        return ("CLe", ("XScalL", a, e), ("XAddS", ("XScalL", b, e), 1))
    if shape == 5:
        return ("XInner", ("PSub", ("PAdd", ("PScalL", a, x), y), ("PScalL", b, x)), ("PVar", rng.randrange(NP)))
    return ("XAdd", ("XScalL", tiny, ("XInner", x, y)), ("XSubS", ("XScalL", a, e), tiny))


def inplace_cases(rng, n):
    """augmented assignment on DSL objects: `a += b`, `a -= b`, `a *= c`, `a /= c` must behave like the plain
    operator and must not change the object `a` was bound to (another reference may still hold it)."""
    cases, problems, trees = [], [], []
    for _ in range(n):
        op = rng.choice(["+=", "-=", "+=", "-=", "*=", "/="])
        isp = rng.random() < 0.45
        t1 = T.gen_point(rng, 2, NP) if isp else T.gen_expr(rng, 2, NP, NX)
        if op in ("+=", "-="):
            if not isp and rng.random() < 0.25:
                c = T.rand_scalar(rng)
                tree = ("XAddS", t1, c) if op == "+=" else ("XSubS", t1, c)
                rhs = ("scalar", c)
            else:
                t2 = T.gen_point(rng, 2, NP) if isp else T.gen_expr(rng, 2, NP, NX)
                tree = (("PAdd" if isp else "XAdd") if op == "+=" else ("PSub" if isp else "XSub"), t1, t2)
                rhs = ("tree", t2)
        elif op == "*=":
            c = T.rand_scalar(rng)
            tree = ("PScalR" if isp else "XScalR", t1, c)
            rhs = ("scalar", c)
        else:
            c = T.rand_divisor(rng)
            tree = ("PDiv" if isp else "XDiv", t1, c)
            rhs = ("scalar", c)
        P, X = fresh_leaves()
        pid, xid = T.IdMap(P), T.IdMap(X)
        a = T.py_eval(t1, P, X)
        b = T.py_eval(rhs[1], P, X) if rhs[0] == "tree" else rhs[1]
        alias = a
        before = list(alias.decomposition_dict.items())
        before_b = list(b.decomposition_dict.items()) if rhs[0] == "tree" else None
        try:
            if op == "+=":
                a += b
            elif op == "-=":
                a -= b
            elif op == "*=":
                a *= b
            else:
                a /= b
        except Exception as e:
            problems.append(dict(kind="implementation-raised", tree=tree, inplace=op, error=repr(e)))
            continue
        if list(alias.decomposition_dict.items()) != before or \
                (before_b is not None and list(b.decomposition_dict.items()) != before_b):
            problems.append(dict(kind="operand-mutated", tree=tree, inplace=op))
        d = T.dump_pdict(a.decomposition_dict, pid) if isp else T.dump_edict(a.decomposition_dict, pid, xid)
        cases.append((coq_input(tree), d))
        trees.append((tree, d))
    return cases, trees, problems


def correspondence(tier, seed, corpus=()):
    rng = random.Random(seed * 7919 + 6)
    n = 1500 if tier == "quick" else 12000
    trees = list(corpus)
    while len(trees) < n + len(corpus):
        trees.append(gen_tree(rng))
    for _ in range(n // 8):
        trees.append(gen_near_cancel(rng))
    cases, dumps, problems = [], [], []
    hist = {}
    distinct = set()
    for t in trees:
        try:
            d, mutated = impl_dump(t)
        except Exception as e:    # a documented operand kind must not raise
            problems.append(dict(kind="implementation-raised", tree=t, error=repr(e)))
            continue
        if mutated:
            problems.append(dict(kind="operand-mutated", tree=t))
        bad = semantic_check(t, d, rng)
        if bad:
            problems.append(dict(kind="meaning-differs", tree=t, **bad))
        cases.append((coq_input(t), d))
        dumps.append((t, d))
        hist[t[0]] = hist.get(t[0], 0) + 1
        if T.size(t) >= 3:
            distinct.add(repr(t))
    ip_cases, ip_trees, ip_problems = inplace_cases(rng, n // 6)
    problems += ip_problems
    cases += ip_cases
    dumps += ip_trees
    hist["in-place operators"] = len(ip_cases)
    cont_n, cont_bad = container_operands(rng)
    problems += cont_bad
    hist["matrix containers (list / tuple / ndarray) handed to PSDMatrix"] = cont_n
    kind_rows, kind_bad = kinds_table()
    seen_kinds = set()
    for kb in kind_bad:
        if (kb["left"], kb["op"], kb["right"]) not in seen_kinds:
            seen_kinds.add((kb["left"], kb["op"], kb["right"]))
            problems.append(dict(kind="operand-kind-not-as-documented", **kb))
    hist["operand-kind table rows"] = kind_rows
    bad = run_cases("c06", IMPORTS, RUN, cases, input_type=INPUT_TYPE)
    mism = []
    for i in bad[:5]:
        t, d = dumps[i]
        mism.append(dict(kind="model-differs", tree=t, implementation=d,
                         model=model_output(IMPORTS, RUN, cases[i][0])))
    sizes = [T.size(t) for t, _ in dumps]
    return dict(name="dsl-trees", evaluations=len(cases), distinct_nontrivial=len(distinct),
                rule="seeded random DSL trees (points, expressions, comparisons; zero/negative scalars, repeated, "
                     "cancelling, nearly-cancelling and mirrored operands) plus augmented assignments with an aliased "
                     "left operand; non-trivial = at least 3 operator nodes; distinct by syntax; plus the table of every "
                     "binary operator x operand kind (documented kinds give the documented class, str / bytes / complex / "
                     "None / containers / other PEPit classes must raise, numpy integers may raise or act as the number)",
                mismatches=mism, n_mismatch=len(bad), problems=problems[:5], n_problems=len(problems),
                samples=[dict(tree=dumps[i][0], result=dumps[i][1]) for i in range(min(2, len(dumps)))],
                distribution=dict(root_ops=hist, size_min=min(sizes), size_max=max(sizes),
                                  size_mean=round(sum(sizes) / len(sizes), 2)))


# ------------------------------------------------------------------ containers as operands
def container_operands(rng, n=24):
    """a matrix of expressions handed to PSDMatrix / add_psd_matrix as nested lists, nested tuples or an object ndarray,
    with Expression and plain-number entries: the caller's container is an OPERAND -- it keeps its entries (the same
    objects, numbers stay numbers), and what was built does not change when the caller re-uses the container
    (seed C06-11: np.asarray instead of a copy)."""
    import numpy as np
    from PEPit import PEP, Expression, PSDMatrix
    from PEPit.functions import ConvexFunction
    bad, done = [], 0
    for k in range(n):
        pep = PEP()
        f = pep.declare_function(ConvexFunction)
        e, t_, u = Expression(), Expression(), Expression()
        size = rng.choice([1, 2, 2, 3])
        pool = [e, t_, u, 2 * e - t_, 1, 0.5, 0, -2.0]
        rows = [[rng.choice(pool) for _ in range(size)] for _ in range(size)]
        rows[rng.randrange(size)][rng.randrange(size)] = rng.choice(pool[:4])    # at least one Expression: an all-number
        #                                           matrix is a constant LMI, which numpy stores with a numeric dtype
        kind = ["list", "tuple", "ndarray"][k % 3]
        if kind == "list":
            cont = [list(r) for r in rows]
        elif kind == "tuple":
            cont = tuple(tuple(r) for r in rows)
        else:
            cont = np.empty((size, size), dtype=object)
            for i in range(size):
                for j in range(size):
                    cont[i, j] = rows[i][j]
        how = ["PSDMatrix", "pep.add_psd_matrix", "function.add_psd_matrix"][(k // 3) % 3]
        try:
            if how == "PSDMatrix":
                psd = PSDMatrix(matrix_of_expressions=cont)
            elif how == "pep.add_psd_matrix":
                pep.add_psd_matrix(cont)
                psd = pep.list_of_psd[-1]
            else:
                f.add_psd_matrix(cont)
                psd = f.list_of_psd[-1]
        except Exception as ex:
            bad.append(dict(kind="implementation-raised", tree=["psd-container", kind, how], error=repr(ex)[:200]))
            continue
        done += 1
        same = all((cont[i][j] is rows[i][j]) or (not hasattr(rows[i][j], "decomposition_dict")
                                                  and type(cont[i][j]) is type(rows[i][j]) and cont[i][j] == rows[i][j])
                   for i in range(size) for j in range(size))
        if not same:
            bad.append(dict(kind="operand-mutated", tree=["psd-container", kind, how],
                            detail="the caller's container no longer holds the entries it was given"))
            continue
        built = [[dict((id(a), b) for a, b in psd[i, j].decomposition_dict.items()) for j in range(size)] for i in range(size)]
        if kind in ("list", "ndarray"):
            for i in range(size):
                for j in range(size):
                    cont[i][j] = 7 * u + 3          # the caller re-uses its buffer
            after = [[dict((id(a), b) for a, b in psd[i, j].decomposition_dict.items()) for j in range(size)] for i in range(size)]
            if after != built:
                bad.append(dict(kind="operand-mutated", tree=["psd-container", kind, how],
                                detail="the matrix built from the container changes when the caller re-uses the container"))
    return done, bad


# ------------------------------------------------------------------ operand kinds
def kinds_table():
    """every binary operator x every operand kind, on the real classes: documented kinds must produce the
    documented object, every other kind must raise."""
    import numpy as np
    from PEPit import PEP, Point, Expression, Function, Constraint, PSDMatrix
    import operator as op
    import warnings
    PEP()
    p, q = Point(), Point()
    e, f = Expression(), Expression()
    fn = Function(is_leaf=True)
    kinds = {
        "int": 2, "bool": True, "float": 0.5, "np.float64": np.float64(0.5), "np.int64": np.int64(2),
        "complex": 1j, "None": None, "str": "a", "numeric str": "3", "bytes": b"3", "list": [1], "tuple": (1,),
        "Point": q, "Expression": f, "Function": fn, "Constraint": (e <= 1), "PSDMatrix": PSDMatrix([[e]]),
    }
    p_variants = [p, 2 * p - q, p - p, 0 * p]
    q_variants = [q, q - 3 * p, q - q]
    e_variants = [e, 2 * e + f - 1, e - e, Expression(is_leaf=False, decomposition_dict={1: 2.})]
    f_variants = [f, f - e + 0.5, f - f]
    scal = {"int", "bool", "float", "np.float64"}
    operators = {"add": op.add, "sub": op.sub, "mul": op.mul, "truediv": op.truediv,
                 "le": op.le, "ge": op.ge, "eq": op.eq, "lt": op.lt, "gt": op.gt, "pow": op.pow}
    # documented outcomes (left operand kind, operator, right operand kind) -> result class
    def expected(lk, o, rk):
        if lk == "Point":
            if o in ("add", "sub") and rk == "Point":
                return "Point"
            if o == "mul" and rk in scal:
                return "Point"
            if o == "mul" and rk == "Point":
                return "Expression"
            if o == "truediv" and rk in scal:
                return "Point"
            if o == "eq":
                return "bool"        # Points compare by identity (object default)
            return "raise"
        if lk == "Expression":
            if o in ("add", "sub") and (rk == "Expression" or rk in scal):
                return "Expression"
            if o in ("mul", "truediv") and rk in scal:
                return "Expression"
            if o in ("le", "ge", "eq", "lt", "gt") and (rk == "Expression" or rk in scal):
                return "Constraint"
            return "raise"
        # reflected: scalar on the left
        if rk == "Point":
            if o == "mul" and lk in scal:
                return "Point"
            return "raise"
        if rk == "Expression":
            if o in ("add", "sub", "mul") and lk in scal:
                return "Expression"
            if o in ("le", "ge", "eq", "lt", "gt") and lk in scal:
                return "Constraint"
            return "raise"
        return None
    rows, bad = 0, []
    with warnings.catch_warnings():
        warnings.simplefilter("ignore")
        for oname, ofun in operators.items():
            for lk, lv in list(kinds.items()) + []:
                for rk, rv in kinds.items():
                    # the DSL operand takes several SHAPES of its kind: a leaf, a combination, the EMPTY combination
                    # (x - x), a zero-weighted one -- dispatch must depend on the kind only (seed C06-10: a shortcut
                    # for the empty left operand placed before the kind check)
                    combos = [(pv, "Point", rv, rk) for pv in p_variants] + [(ev, "Expression", rv, rk) for ev in e_variants] \
                        + [(lv, lk, qv, "Point") for qv in q_variants] + [(lv, lk, fv, "Expression") for fv in f_variants]
                    for (a, ak, b, bk) in combos:
                        if oname == "pow":
                            if ak != "Point" or bk not in ("int", "float", "bool", "np.float64", "np.int64"):
                                continue
                        want = expected(ak, oname, bk)
                        if want is None:
                            continue
                        # numpy scalars on the left take over dispatch (numpy's __mul__ etc.): outside PEPit
                        if ak.startswith("np."):
                            continue
                        rows += 1
                        try:
                            r = ofun(a, b)
                            got = type(r).__name__
                            if oname == "pow":
                                got = "Expression" if got == "Expression" else got
                        except (TypeError, AssertionError, AttributeError, ValueError):
                            got = "raise"
                        if oname == "pow":
                            want = "Expression" if (b == 2) else "raise"
                        # a comparison of a Python scalar with a Point falls back to identity / NotImplemented
                        if bk == "Point" and ak not in ("Point", "Expression") and oname == "eq":
                            want = "bool"
                        if ak == "Point" and oname == "eq":
                            want = "bool"
                        if want == "bool" and got == "raise":
                            continue      # == on a Point is not a DSL operation: identity or an error, never an object
                        # numpy integers are outside the documented int/float kinds: the operation may raise, or
                        # treat the operand as the number it is (same object as with the Python number) -- what it
                        # must not do is produce an object with another meaning
                        if want == "raise" and got != "raise" and "np.int64" in (ak, bk) and oname != "pow":
                            try:
                                r2 = ofun(int(a) if ak == "np.int64" else a, int(b) if bk == "np.int64" else b)
                                if type(r2) is type(r) and _same_object(r, r2):
                                    continue
                            except Exception:
                                pass
                        if got != want and not (want == "raise" and got in ("NotImplementedType",)):
                            bad.append(dict(left=ak, op=oname, right=bk, documented=want, got=got))
    return rows, bad


def _same_object(r, r2):
    """two DSL results denote the same thing: same decomposition (and sense for constraints)"""
    def dd(o):
        return [(id(k) if not isinstance(k, tuple) else tuple(id(x) for x in k), float(v))
                for k, v in o.decomposition_dict.items()]
    if hasattr(r, "equality_or_inequality"):
        return (r.equality_or_inequality == r2.equality_or_inequality
                and dd(r.expression) == dd(r2.expression))
    return dd(r) == dd(r2)


def search(tier, seed):
    """failing-input search on the implementation alone (used when a proof or the correspondence broke)"""
    rng = random.Random(seed + 60606)
    _, kind_bad = kinds_table()
    if kind_bad:
        return dict(kind="operand-kind-not-as-documented", **kind_bad[0])
    for i in range(4000 if tier == "quick" else 40000):
        t = gen_tree(rng)
        try:
            d, mutated = impl_dump(t)
        except Exception as e:
            return dict(kind="implementation-raised", tree=t, error=repr(e))
        if mutated:
            return dict(kind="operand-mutated", tree=t)
        bad = semantic_check(t, d, rng)
        if bad:
            return dict(kind="meaning-differs", tree=t, **bad)
    return None


def replay(payload):
    """re-run a stored failing tree on the current implementation; True iff it still fails"""
    if payload.get("kind") == "operand-kind-not-as-documented":
        _, kind_bad = kinds_table()
        return any((kb["left"], kb["op"], kb["right"]) == (payload["left"], payload["op"], payload["right"])
                   for kb in kind_bad)
    t = _detuple(payload["tree"])
    rng = random.Random(1)
    try:
        d, mutated = impl_dump(t)
    except Exception:
        return True
    if mutated:
        return True
    if semantic_check(t, d, rng):
        return True
    bad = run_cases("c06r", IMPORTS, RUN, [(coq_input(t), d)], input_type=INPUT_TYPE)
    return bool(bad)


def _detuple(x):
    if isinstance(x, list):
        return tuple(_detuple(y) for y in x)
    return x
